"""C08 - prune backoff is honoured in both directions.

spec/backoff: Backoff (focused model of one node's backoff handling + the independent monitor
bo/lp/kind; exhaustive over an unbounded clock through a time-relative VIEW; seeded model bugs
that MUST fail), GenBackoff (scenario generator: the Fused reading of Backoff walked by TLC, one
concrete stimulus list per history), BackoffTrace (monitor rebuilt from the EVENTS of the real
node; P_C08_* judged on every recorded line).

Pipeline: MC -> Gen (TLC) + directed seed scenarios -> replay through harness/drivers/router
(TestRouterReplay) + seeded random walks (TestRouterWalk) -> BackoffTrace -> verdict."""
import concurrent.futures as cf
import collections, json, os, re
from .. import vlib

import threading

LEVEL = "model_checking"
FAMILY = "backoff"
TLC_BUDGET = 4          # TLC worker threads in flight at any time, over all concurrent TLC runs of this check
_cond, _used = threading.Condition(), [0]


def run_tlc(ctx, *a, workers=1, **kw):
    """vlib.run_tlc under the budget: a run with n workers holds n of the TLC_BUDGET permits."""
    with _cond:
        while _used[0] + workers > TLC_BUDGET:
            _cond.wait()
        _used[0] += workers
    try:
        return vlib.run_tlc(ctx, *a, workers=workers, **kw)
    finally:
        with _cond:
            _used[0] -= workers
            _cond.notify_all()
T1, T2 = "T1", "T2"

# seeded model defects: (Bug, property that must fail, constant overrides, properties to check (None = all))
MUST_FAIL = [
    ("none", "P_C08_NoEarlyGraft", {"FlushFilter": False}, None),     # the code as found at the pinned commit: D17, flush() skipped the staleness filter
    ("hbFilter", "P_C08_NoEarlyGraft", {}, None),
    ("joinFilter", "P_C08_NoEarlyGraft", {}, None),
    ("staleGraft", "P_C08_NoEarlyGraft", {}, None),
    ("ignorePeerBo", "P_C08_Refuse", {"BVals": "{1, 8}"}, ["P_C08_Refuse"]),
    ("ignorePeerBo", "P_C08_NoEarlyGraft", {"BVals": "{1, 8}"}, ["P_C08_NoEarlyGraft"]),
    ("overwrite", "P_C08_KeepLater", {}, None),
    ("overwrite", "P_C08_NoEarlyGraft", {"BVals": "{1, 8}"}, ["P_C08_NoEarlyGraft"]),
    ("sweepAll", "P_C08_NoEarlyGraft", {}, ["P_C08_NoEarlyGraft"]),
    ("leaveStd", "P_C08_KeepLater", {"PruneBackoff": 2, "UnsubBackoff": 4}, None),
    ("noStateBo", "P_C08_PruneStatesBackoff", {}, None),
    ("floodSign", "P_C08_Refuse", {}, None),
    ("onePenalty", "P_C08_Refuse", {}, None),
    ("scoreFirst", "P_C08_Refuse", {}, None),      # another refusal branch (negative score) taken before the backoff check: no penalty
]
QUICK_MUST_FAIL = {("none", "P_C08_NoEarlyGraft"), ("hbFilter", "P_C08_NoEarlyGraft"), ("ignorePeerBo", "P_C08_Refuse"),
                   ("sweepAll", "P_C08_NoEarlyGraft"), ("noStateBo", "P_C08_PruneStatesBackoff"), ("onePenalty", "P_C08_Refuse"), ("scoreFirst", "P_C08_Refuse")}

MC_CONST = {"Peers": '{"p1", "p2"}', "V10": '{"p2"}', "PruneBackoff": 3, "UnsubBackoff": 1, "GraftFlood": 1, "SweepEvery": 2,
            "Slack": 1, "BVals": "{1, 5}", "D": 2, "Dlo": 2, "InitTicks": 0, "MaxNow": 0, "MaxStim": 0, "Fused": False,
            "GatePeers": '{"p1"}', "DownPeers": '{"p1"}', "ScorePeers": '{"p1", "p2"}', "DirectPeers": "{}", "FlushFilter": True, "Bug": '"none"'}
ALL_PROPS = ["P_C08_NoEarlyGraft", "P_C08_Refuse", "P_C08_PruneStatesBackoff", "P_C08_KeepLater"]


def mc_cfg(over=None, props=None):
    c = dict(MC_CONST)
    c.update(over or {})
    return vlib.cfg_text(constants=c, invariants=["TypeOK"], properties=props or ALL_PROPS, view="View")


def gen_cfg(over):
    c = dict(MC_CONST)
    c.update({"SweepEvery": 15, "Slack": 2, "InitTicks": 1, "Fused": True, "GatePeers": '{"p1", "p2"}', "DownPeers": '{"p1", "p2"}',
              "DirectPeers": '{"p1"}', "Topic": '"T1"', "Helper": '"T2"', "QueueFill": 3, "MaxGate": 12})
    c.update(over)
    return vlib.cfg_text(spec="GSpec", constants=c)


# --------------------------------------------------------------------------- directed seed scenarios

def base_cfg(pb=3, ub=1, gf=1, **kw):
    c = {"score": True, "penWeight": 0, "queue": 2, "D": 2, "Dlo": 2, "Dhi": 3, "Dscore": 1, "Dout": 0, "Dlazy": 2,
         "pruneBackoffS": pb, "unsubBackoffS": ub, "graftFloodS": gf, "maxIHaveMsgs": 12, "maxIHaveLen": 60, "hosts": 6}
    c.update(kw)
    return c


def peer(p, proto="v11", d="in", subs=(T1,)):
    return {"a": "peer", "p": p, "proto": proto, "dir": d, "subs": list(subs)}


HB = {"a": "hb"}


def hb(n):
    return [dict(HB) for _ in range(n)]


class Fill:
    n = 0

    @classmethod
    def gate(cls, p, k=3):
        cls.n += 1
        return [{"a": "gate", "p": p, "on": True}] + [{"a": "ihave", "p": p, "t": T2, "ids": ["y%d_%d" % (cls.n, i)]} for i in range(k)]


def ungate(p):
    return [{"a": "gate", "p": p, "on": False}]


def graft(p):
    return {"a": "graft", "p": p, "t": T1}


def prune(p, bo=None):
    a = {"a": "prune", "p": p, "t": T1}
    if bo is not None:
        a["bo"] = bo
    return a


SUB, CANCEL = {"a": "subscribe", "t": T1}, {"a": "cancel", "t": T1}


def directed(thorough):
    """Hand-directed histories for the situations that need a long run-up (the real sweep happens only
    every 15th heartbeat) or more than two peers; every one is judged by BackoffTrace like the rest."""
    S = []
    start = [peer("p1"), peer("p2", "v10"), {"a": "subscribe", "t": T2}]

    def add(name, cfg, acts):
        S.append({"cfg": cfg, "acts": acts, "name": name})

    for pb, ub, gf in ((3, 1, 1), (5, 2, 2)) + (((2, 4, 1),) if thorough else ()):
        c = base_cfg(pb, ub, gf)
        # refusal inside and outside the flood window; refreshed backoff; graft exactly around the expiry
        add("refuse-flood", c, start + [SUB, HB, prune("p1"), graft("p1")] + hb(gf) + [graft("p1")] + hb(gf + 1) + [graft("p1")]
            + hb(pb) + [graft("p1"), prune("p2"), HB, graft("p2")] + hb(pb + 1) + [graft("p2")] + hb(2))
        # explicit backoff longer / shorter than the default; a shorter one must not shorten a running longer one;
        # the entry survives the sweep while unexpired; heartbeat graft only after expiry + sweep
        add("peer-backoff-long", c, start + [SUB] + hb(2) + [prune("p1", pb + 25)] + hb(pb + 1) + [graft("p1")] + hb(3) + [prune("p1", 1)]
            + hb(2) + [graft("p1")] + hb(14) + [prune("p2", 1)] + hb(2) + [graft("p2")] + hb(30))
        add("peer-backoff-nograft", c, start + [SUB] + hb(2) + [prune("p1", pb + 25), prune("p2", pb + 9)] + hb(4) + [prune("p1", 1), prune("p2")] + hb(45))
        # own-initiative prune (negative score), then the score recovers: no graft before expiry + sweep
        add("own-prune", c, start + [SUB, HB, {"a": "score", "p": "p1", "v": -1}, HB, {"a": "score", "p": "p1", "v": 0}] + hb(2)
            + [graft("p1")] + hb(pb + 1) + [graft("p1")] + hb(28))
        # leave, rejoin inside the unsubscribe backoff, GRAFT from a former member inside / outside it
        add("leave-rejoin", c, start + [SUB, HB, CANCEL, SUB, graft("p1")] + hb(ub) + [graft("p2")] + hb(ub + 1) + [CANCEL, HB, SUB] + hb(ub + 2)
            + [graft("p1")] + hb(30))
        add("leave-rejoin-late", c, start + hb(8) + [SUB, HB, CANCEL] + hb(max(ub - 1, 0)) + [SUB] + hb(ub) + [graft("p1")] + hb(24))
        # sweep tick (15th heartbeat) with an unexpired entry
        add("sweep-unexpired", c, start + [SUB] + hb(10) + [prune("p1", 20), prune("p2")] + hb(8) + [graft("p2")] + hb(30))
        add("sweep-unexpired-own", c, start + [SUB] + hb(12 if pb <= 3 else 10) + [{"a": "score", "p": "p1", "v": -1}, HB, {"a": "score", "p": "p1", "v": 0}] + hb(20))
        # dropped GRAFT (Join), peer prunes meanwhile: the retry must be dropped as stale (flush and piggyback)
        add("retry-stale-flush", c, start + Fill.gate("p1") + [SUB, prune("p1")] + ungate("p1") + hb(3) + [prune("p2"), HB] + hb(30))
        add("retry-stale-piggy", c, start + Fill.gate("p1") + [SUB, prune("p1")] + ungate("p1") + [{"a": "ihave", "p": "p1", "t": T2, "ids": ["z1"]}] + hb(3))
        add("retry-stale-leave", c, start + Fill.gate("p1") + [SUB, HB, CANCEL] + ungate("p1") + [{"a": "ihave", "p": "p1", "t": T2, "ids": ["z2"]}, SUB] + hb(ub + 3))
        # dropped GRAFT retried while still wanted: flush and piggyback; dropped refusal PRUNE kept for retry
        add("retry-flush", c, start + Fill.gate("p1") + [SUB, HB] + ungate("p1") + hb(2))
        add("retry-piggy", c, start + Fill.gate("p1") + [SUB] + ungate("p1") + [{"a": "ihave", "p": "p1", "t": T2, "ids": ["z3"]}] + hb(2))
        add("retry-after-backoff", c, start + [SUB, HB, prune("p1", 1)] + hb(10) + Fill.gate("p1") + hb(3) + ungate("p1") + hb(3))
        add("refuse-dropped-prune", c, start + [SUB, HB, prune("p1")] + Fill.gate("p1") + [graft("p1"), HB] + ungate("p1") + hb(2) + [CANCEL]
            + Fill.gate("p1") + [SUB, HB, CANCEL, HB] + ungate("p1") + hb(2))
        # disconnect and return under backoff
        add("down-up", c, start + [SUB, HB, prune("p1", 6), {"a": "down", "p": "p1"}, HB, peer("p1"), HB, graft("p1")] + hb(6) + [graft("p1")] + hb(22))
        # refusals for other reasons must not start a backoff in the monitor: direct peer, negative score
        add("other-refusals", c, start + [SUB, HB, prune("p1", 1)] + hb(2) + [{"a": "direct", "p": "p1", "on": True}, graft("p1"), {"a": "direct", "p": "p1", "on": False},
                                                                           {"a": "score", "p": "p1", "v": -1}, graft("p1"), {"a": "score", "p": "p1", "v": 0}, graft("p1")] + hb(pb + 1) + [graft("p1")] + hb(20))
    # GRAFT during backoff crossed with the refusal branches that FOLLOW the backoff check in handleGraft (negative score;
    # mesh at Dhi and the peer inbound): the penalty is due whatever else would also refuse the GRAFT, inside the flood
    # window (2) and after it (1). The mesh is at Dhi only between the inbound GRAFT that fills it and the next heartbeat.
    for pb, ub, gf in ((3, 1, 1), (5, 2, 2)):
        c = base_cfg(pb, ub, gf, hosts=8)
        st5 = [peer("p1"), peer("p2", "v12"), peer("p3", "v11", "in", ()), peer("p4", "v11", "in", ()), peer("p5", "v12", "in", ()), {"a": "subscribe", "t": T2}]
        add("refuse-mesh-full", c, st5 + [SUB, HB, prune("p4"), graft("p3"), graft("p4")] + hb(gf + 1) + [graft("p5"), graft("p4")] + hb(2))
        add("refuse-mesh-full-late", c, st5 + [SUB, HB, prune("p4")] + hb(gf + 1) + [graft("p3"), graft("p4"), HB, graft("p5"), graft("p4")] + hb(2))
        add("refuse-mesh-full-peerbo", c, st5 + [SUB, HB, prune("p4", pb + 4), graft("p3"), graft("p4")] + hb(pb + 1) + [graft("p5"), graft("p4")] + hb(2))
        neg, zero = {"a": "score", "p": "p1", "v": -1}, {"a": "score", "p": "p1", "v": 0}
        add("refuse-negative-score", c, start + [SUB, HB, prune("p1"), neg, graft("p1")] + hb(gf + 1) + [graft("p1")] + hb(gf) + [graft("p1"), zero] + hb(pb + 1) + [graft("p1")] + hb(2))
        add("refuse-negative-score-own", c, start + [SUB, HB, neg, HB, graft("p1")] + hb(gf + 1) + [graft("p1")] + hb(2))
    # Join by fanout promotion: former mesh members under backoff are dropped from the fanout set
    for pb, ub, gf in ((3, 1, 1),) + (((5, 2, 2),) if thorough else ()):
        c = base_cfg(pb, ub, gf, fanoutTTLS=60)
        add("join-promo", c, start + [SUB, HB, CANCEL, {"a": "publish", "t": T1, "m": "m1"}, SUB] + hb(2) + [CANCEL, {"a": "publish", "t": T1, "m": "m2"}] + hb(30)
            + [{"a": "publish", "t": T1, "m": "m3"}, SUB] + hb(2))
    # outbound quota and opportunistic grafting need a third peer and D >= 4
    for pb, ub, gf in ((3, 1, 1),) + (((5, 2, 2),) if thorough else ()):
        c = base_cfg(pb, ub, gf, D=4, Dlo=2, Dhi=5, Dscore=2, Dout=1, oppTicks=1000)
        st3 = [peer("p1"), peer("p2", "v12"), {"a": "subscribe", "t": T2}]
        add("outbound-quota", c, st3 + [SUB, HB, peer("p3", "v11", "out"), HB, prune("p3"), HB, HB, graft("p3")] + hb(32))
        c2 = base_cfg(pb, ub, gf, D=4, Dlo=2, Dhi=5, Dscore=2, Dout=0, oppTicks=2)
        add("opportunistic", c2, st3 + [SUB, HB, peer("p3", "v11", "in"), {"a": "score", "p": "p3", "v": 3}] + hb(3) + [prune("p3")] + hb(4)
            + [graft("p3")] + hb(34))
    if thorough:
        # the real default periods (60 s / 10 s / 10 s)
        c = base_cfg(60, 10, 10)
        add("defaults", c, start + [SUB, HB, prune("p1"), graft("p1")] + hb(11) + [graft("p1"), prune("p2", 120), CANCEL, SUB] + hb(5) + [graft("p2")] + hb(60)
            + [graft("p1")] + hb(30) + [prune("p2", 5)] + hb(50))
        add("defaults-own", c, start + [SUB, HB, {"a": "score", "p": "p1", "v": -1}, HB, {"a": "score", "p": "p1", "v": 0}] + hb(30) + [graft("p1")] + hb(60))
    return S


# --------------------------------------------------------------------------- replay + trace validation

def split_lines(lines):
    scns, cur = [], None
    for ln in lines:
        if ln["act"]["a"] == "reset":
            cur = [ln]
            scns.append(cur)
        elif cur is not None:
            cur.append(ln)
    return scns


def close_gates(sc):
    """A write gate left closed parks the node's writer goroutine for ever (the synctest bubble could not
    end): every scenario ends by opening the gates that are still closed."""
    closed, used = [], False
    for a in sc["acts"]:
        if a.get("a") == "gate":
            used = True
            if a.get("on") and a["p"] not in closed:
                closed.append(a["p"])
            elif not a.get("on") and a["p"] in closed:
                closed.remove(a["p"])
    # ... and lets two heartbeats pass: an announcement dropped at the full queue is retried by a goroutine
    # that sleeps up to 1 s (pubsub.go announceRetry) and must have finished before the bubble ends
    if used and not sc.get("closed"):
        sc["acts"] = sc["acts"] + [{"a": "gate", "p": p, "on": False} for p in closed] + [{"a": "hb"}, {"a": "hb"}]
        sc["closed"] = True
    return sc


def replay(ctx, name, scenarios):
    """Run TestRouterReplay over the scenarios; returns the recorded scenarios (lists of lines)."""
    scenarios[:] = [close_gates(s) for s in scenarios]
    inp = os.path.join(ctx.work, name + ".scn.ndjson")
    outp = os.path.join(ctx.work, name + ".ndjson")
    marker = os.path.join(ctx.work, name + ".marker")
    vlib.write_ndjson(inp, [{"cfg": s["cfg"], "acts": s["acts"]} for s in scenarios])
    r = vlib.run_go(ctx, "./drivers/router/", "^TestRouterReplay$", env={"VERIF_IN": inp, "VERIF_OUT": outp, "VERIF_MARKER": marker},
                    timeout=1500, name=name)
    lines = vlib.read_ndjson(outp) if os.path.exists(outp) else []
    if r["rc"] != 0:
        crash_verdict(ctx, name, scenarios, inp, marker, r)
    recs = split_lines(lines)
    if r["rc"] == 0 and len(recs) != len(scenarios):
        raise vlib.Inconclusive("replay %s recorded %d of %d scenarios (see %s)" % (name, len(recs), len(scenarios), r["log"]))
    return recs


def crash_verdict(ctx, name, scenarios, inp, marker, r):
    """A dead driver is a violation only if the single scenario reproduces a panic inside the library."""
    try:
        idx = int(open(marker).read().strip())
    except Exception:
        raise vlib.Inconclusive("driver %s failed (rc=%s) and left no marker, see %s" % (name, r["rc"], r["log"]))
    outp = os.path.join(ctx.work, name + ".only.ndjson")
    r2 = vlib.run_go(ctx, "./drivers/router/", "^TestRouterReplay$", env={"VERIF_IN": inp, "VERIF_OUT": outp, "VERIF_ONLY": idx},
                     timeout=600, name=name + "-only")
    if r2["rc"] != 0 and "panic:" in r2["out"] and re.search(r"go-libp2p-pubsub[^\n]*\.go:\d+", r2["out"].split("panic:", 1)[1]) \
            and "verifharness" not in r2["out"].split("panic:", 1)[1].split("\n\n")[0]:
        m = re.search(r"panic: ([^\n]*)", r2["out"])
        vlib.add_violation(ctx, "P_C08_Crash", {"kind": "panic", "msg": (m.group(1) if m else "")[:80]},
                           "the node panicked while replaying scenario %d of %s: %s" % (idx, name, m.group(1) if m else "?"),
                           {"scenario": scenarios[idx] if idx < len(scenarios) else None})
        return
    raise vlib.Inconclusive("driver %s failed at scenario %d (rc=%s; alone rc=%s), see %s" % (name, idx, r["rc"], r2["rc"], r["log"]))


def walks(ctx, name, n, steps, cfg):
    outp = os.path.join(ctx.work, name + ".ndjson")
    dump = os.path.join(ctx.work, name + ".scn.ndjson")
    r = vlib.run_go(ctx, "./drivers/router/", "^TestRouterWalk$", timeout=1500, name=name,
                    env={"VERIF_OUT": outp, "VERIF_WALKS": n, "VERIF_STEPS": steps, "VERIF_CFG": json.dumps(cfg), "VERIF_DUMP_SCN": dump})
    if r["rc"] != 0 or not os.path.exists(outp):
        raise vlib.Inconclusive("random walks %s failed (rc=%s), see %s" % (name, r["rc"], r["log"]))
    recs = split_lines(vlib.read_ndjson(outp))
    scns = vlib.read_ndjson(dump) if os.path.exists(dump) else []
    return recs, scns


def validate(ctx, name, recs, chunk_lines=4000):
    """Run BackoffTrace over the recorded scenarios (chunks in parallel). Returns (viol, cov, notes, states)."""
    chunks, cur, n = [], [], 0
    for i, sc in enumerate(recs):
        if cur and n + len(sc) > chunk_lines:
            chunks.append(cur)
            cur, n = [], 0
        cur.append(i)
        n += len(sc)
    if cur:
        chunks.append(cur)

    def one(k):
        idx = chunks[k]
        path = os.path.join(ctx.work, "%s-tv-%d.ndjson" % (name, k))
        lines = []
        for i in idx:
            for ln in recs[i]:
                ln = dict(ln)
                ln["scn"] = i          # scenario index inside `recs`
                lines.append(ln)
        vlib.write_ndjson(path, lines)
        res = run_tlc(ctx, FAMILY, "BackoffTrace", "BackoffTrace.cfg", mode="trace", files={"trace.ndjson": path},
                           timeout=900, name="%s-tv-%d" % (name, k), heap="3g")
        if res.hw is None or res.hw[0] < res.hw[1] or not res.no_error:
            raise vlib.Inconclusive("trace validation of %s chunk %d stopped at line %s of %d (see %s/tlc.out): %s" %
                                    (name, k, res.hw[0] if res.hw else "?", len(lines), res.dir, res.errors[:2]))
        os.remove(path)
        return res.printed("VIOL"), res.printed("COV"), res.printed("NOTE"), res.distinct

    viol, cov, notes, states = [], [], [], 0
    with cf.ThreadPoolExecutor(max_workers=max(1, min(3, len(chunks)))) as ex:
        for v, c, nt, st in ex.map(one, range(len(chunks))):
            viol += v
            cov += c
            notes += nt
            states += st
    return viol, cov, notes, states


def sig_of(v):
    s = {"what": v.get("what", "")}
    if v["pred"] == "P_C08_NoEarlyGraft":
        s.update({"site": v.get("site", "wire"), "kind": v.get("kind", "")})
    elif v["pred"] == "P_C08_Refuse":
        s.update({"bad": sorted(v.get("bad", [])), "kind": v.get("kind", ""), "flood": v.get("flood")})
    elif v["pred"] == "P_C08_PruneStatesBackoff":
        s.update({"hasBackoff": v.get("hasBackoff"), "ev": v.get("ev", "")})
    elif v["pred"] == "P_C08_KeepLater":
        ks = v.get("keys", [])
        s.update({"kind": sorted({k["kind"] for k in ks}), "missing": any(k["impl"] < 0 for k in ks), "hb": v.get("hb", 0) > 0})
    return s


def drift(ctx, source, recs, scns, counters):
    """Compare the model's predictions (xj/xm/xb copied into act) with the real snapshot. Notes only."""
    for sc, src in zip(recs, scns):
        acts = src["acts"]
        real = [ln["act"] for ln in sc[1:]]
        if real and real[0].get("a") == "hb" and (not acts or acts[0].get("a") != "hb" or len(real) == len(acts) + 1):
            real, body = real[1:], sc[2:]
        else:
            body = sc[1:]
        if [a.get("a") for a in real] != [a.get("a") for a in acts]:
            counters["unaligned"] += 1
            continue
        counters["aligned"] += 1
        for ln in body:
            a = ln["act"]
            if "xm" not in a:
                continue
            st = ln["st"]
            counters["predictions"] += 1
            mesh = st.get("mesh", {}).get(T1)
            got = (mesh is not None, sorted(mesh or []), sorted(st.get("backoff", {}).get(T1, {}).keys()))
            want = (a["xj"], sorted(a["xm"]), sorted(a["xb"]))
            if got != want:
                counters["drift"] += 1
                if len(counters["drift_samples"]) < 3:
                    counters["drift_samples"].append({"source": source, "scn": ln["scn"], "i": ln["i"], "act": {k: v for k, v in a.items() if not k.startswith("x")},
                                                      "model": want, "real": got})
                break


def model_part(ctx):
    """1. the model satisfies the properties (unbounded clock); every seeded model defect is caught."""
    main_over = {} if not ctx.thorough else {"GatePeers": '{"p1", "p2"}', "DownPeers": '{"p1", "p2"}'}
    mc = run_tlc(ctx, FAMILY, "Backoff", mc_cfg(main_over), timeout=1800, workers=2, name="mc")
    vlib.require_mc_ok(ctx, mc, "Backoff (Bug = none)")
    st, tr = mc.distinct, mc.generated
    mcs = {"Backoff": [mc.distinct, mc.generated]}
    if ctx.thorough:
        mc2 = run_tlc(ctx, FAMILY, "Backoff", mc_cfg({"PruneBackoff": 2, "UnsubBackoff": 4, "BVals": "{1, 3}"}), timeout=900, workers=2, name="mc-unsub-longer")
        vlib.require_mc_ok(ctx, mc2, "Backoff (UnsubBackoff > PruneBackoff)")
        st += mc2.distinct; tr += mc2.generated
        mcs["Backoff(unsub>prune)"] = [mc2.distinct, mc2.generated]
        mc3 = run_tlc(ctx, FAMILY, "Backoff", mc_cfg({"DirectPeers": '{"p1"}'}), timeout=900, workers=2, name="mc-direct")
        vlib.require_mc_ok(ctx, mc3, "Backoff (p1 can be made a direct peer)")
        st += mc3.distinct; tr += mc3.generated
        mcs["Backoff(direct)"] = [mc3.distinct, mc3.generated]
    todo = [m for m in MUST_FAIL if ctx.thorough or (m[0], m[1]) in QUICK_MUST_FAIL]

    def bug(m):
        b, prop, over, props = m
        o = dict(over); o["Bug"] = '"%s"' % b
        r = run_tlc(ctx, FAMILY, "Backoff", mc_cfg(o, props), timeout=600, workers=1, name="mc-bug-%s-%s%s" % (b, prop[6:], "-asfound" if over.get("FlushFilter") is False else ""))
        vlib.require_mc_fails(ctx, r, "Backoff (Bug = %s %s)" % (b, over), prop)
        return (b if b != "none" else "none (FlushFilter = FALSE, the code as found: D17)"), prop
    with cf.ThreadPoolExecutor(max_workers=2) as ex:
        failed = list(ex.map(bug, todo))
    ctx.log("model: %d distinct states, properties hold; %d seeded model defects each violate their property" % (mc.distinct, len(failed)))
    return st, tr, mcs, failed


def gen_one(ctx, item):
    name, over, num = item
    g = run_tlc(ctx, FAMILY, "GenBackoff", gen_cfg(over), mode="sim", simulate="num=%d" % num, depth=over["L"] + 5, workers=1,
                     timeout=900, name="gen-" + name)
    got = g.printed("SCN")
    if g.timed_out or len(got) < num // 2:
        raise vlib.Inconclusive("generator %s emitted %d of %d histories (see %s/tlc.out)" % (name, len(got), num, g.dir))
    for s in got:
        s["name"] = "gen-" + name
    m = re.search(r"number of states generated: (\d+)", g.out)
    return got, int(m.group(1)) if m else 0


def run(ctx):
    states, transitions, samples = 0, 0, []
    pool = cf.ThreadPoolExecutor(max_workers=8)
    # development aid only (trying seeded changes quickly): VERIF_C08_SKIP=mc skips the model part; the
    # registered commands never set it
    skip = set(filter(None, os.environ.get("VERIF_C08_SKIP", "").split(",")))
    f_mc = pool.submit(model_part, ctx) if "mc" not in skip else pool.submit(lambda: (1, 1, {}, []))

    # ---- 2. scenarios: TLC-generated histories (simulation of the Fused model) + directed seeds
    q = not ctx.thorough
    plan = [("s1", {"PruneBackoff": 3, "UnsubBackoff": 1, "GraftFlood": 1, "BVals": "{1, 8}", "MaxStim": 1, "L": 60, "MaxNow": 80}, 50 if q else 300),
            ("s2", {"PruneBackoff": 2, "UnsubBackoff": 4, "GraftFlood": 1, "BVals": "{1, 6}", "MaxStim": 1, "L": 60, "MaxNow": 80, "DirectPeers": "{}"}, 30 if q else 150),
            ("s3", {"PruneBackoff": 5, "UnsubBackoff": 2, "GraftFlood": 2, "BVals": "{1, 20}", "MaxStim": 1, "L": 70, "MaxNow": 80, "DownPeers": "{}", "DirectPeers": "{}"},
             30 if q else 150)]
    if ctx.thorough:
        plan.append(("s4", {"PruneBackoff": 60, "UnsubBackoff": 10, "GraftFlood": 10, "BVals": "{5, 120}", "MaxStim": 1, "L": 170, "MaxNow": 200,
                            "DownPeers": "{}", "DirectPeers": "{}", "MaxGate": 20}, 40))
    gen = []
    try:
        for got, n in pool.map(lambda it: gen_one(ctx, it), plan):
            gen += got
            states += n; transitions += n
    except BaseException:
        f_mc.cancel()
        raise
    dirs = directed(ctx.thorough)
    ctx.log("scenarios: %d generated by TLC (GenBackoff, simulation seed %d), %d directed" % (len(gen), ctx.seed, len(dirs)))

    # ---- 3. replay on the real node (Go runs one after the other), 4. judge the recorded lines with BackoffTrace
    # (the validation of one source overlaps the replay of the next)
    wcfg = {"score": True, "penWeight": 0}
    wcfg2 = {"score": True, "penWeight": 0, "pruneBackoffS": 2, "unsubBackoffS": 6, "graftFloodS": 1, "D": 3, "Dlo": 2, "Dhi": 3, "Dscore": 1, "Dout": 0}
    jobs = [("directed", lambda: (replay(ctx, "replay-directed", dirs), dirs)),
            ("gen", lambda: (replay(ctx, "replay-gen", gen), gen)),
            ("walk", lambda: walks(ctx, "walk", 30 if q else 150, 80 if q else 120, wcfg)),
            ("walk2", lambda: walks(ctx, "walk2", 20 if q else 100, 100 if q else 140, wcfg2))]
    sources = []
    for source, job in jobs:
        if source in skip:
            continue
        recs, scns = job()
        sources.append((source, recs, scns, pool.submit(validate, ctx, source, recs)))

    cov, refs = collections.Counter(), collections.Counter()     # refs: (flood, kind, penalty checked, mesh full + inbound, negative score)
    total_lines, total_scn, nontrivial = 0, 0, set()
    dcount = collections.Counter(); dcount["drift_samples"] = []
    notes_seen = set()
    for source, recs, scns, fut in sources:
        viol, c, notes, st = fut.result()
        states += st; transitions += st
        total_scn += len(recs)
        total_lines += sum(len(s) for s in recs)
        per_scn = collections.defaultdict(set)
        for x in c:
            if x["c"] == "refuse":
                refs[(x["flood"], x["kind"], x["pen"], x.get("full", False), x.get("neg", False))] += 1
            key = ":".join(str(x[k]) for k in sorted(x) if k not in ("scn", "i", "line"))
            cov[key] += 1
            per_scn[x["scn"]].add(x["c"])
        for i, ks in per_scn.items():
            if len(ks & {"refuse", "filtered", "prune-recv", "rejoin-in-unsub", "sweep-unexpired"}) >= 1:
                sc = scns[i] if i < len(scns) else None
                nontrivial.add(json.dumps(sc["acts"] if sc else [ln["act"] for ln in recs[i]], sort_keys=True))
        for x in notes:
            notes_seen.add(x.get("what", ""))
        if source in ("gen",):
            drift(ctx, source, recs, scns, dcount)
        if recs:
            mid = recs[len(recs) // 2]
            samples.append({"source": source, "scenario": (scns[len(recs) // 2].get("name") if len(scns) > len(recs) // 2 and isinstance(scns[len(recs) // 2], dict) else source),
                            "lines": [{"t": ln["t"], "act": {k: v for k, v in ln["act"].items() if k != "cfg"}, "hb": ln["hb"],
                                       "ev": [(e["k"], e.get("p", ""), e["t"]) for e in ln["ev"]][:8],
                                       "mesh": ln["st"].get("mesh"), "backoff": ln["st"].get("backoff")} for ln in mid[1:9]]})
        seen = set()
        for v in sorted(viol, key=lambda x: (x["scn"], x["i"])):
            sig = sig_of(v)
            k = (v["scn"], v["pred"], json.dumps(sig, sort_keys=True))
            if k in seen:
                continue
            seen.add(k)
            sc = scns[v["scn"]] if v["scn"] < len(scns) else None
            line = next((ln for ln in recs[v["scn"]] if ln["i"] == v["i"]), None)
            vlib.add_violation(ctx, v["pred"], sig,
                               "%s scenario %d (%s), step %d at %s ms, act %s: %s" %
                               (source, v["scn"], (sc or {}).get("name", source), v["i"], v.get("t", "?"),
                                json.dumps({k2: v2 for k2, v2 in (line["act"] if line else {}).items() if not k2.startswith("x")}),
                                json.dumps({k2: v2 for k2, v2 in v.items() if k2 not in ("scn", "i", "line", "pred")}, sort_keys=True)),
                               {"driver": "TestRouterReplay (harness/drivers/router)", "scenario": {"cfg": sc["cfg"], "acts": [{k2: v2 for k2, v2 in a.items() if not k2.startswith("x")} for a in sc["acts"]]} if sc else None,
                                "failing_step": v["i"], "line": line, "viol": v})
        ctx.log("%s: %d scenarios, %d lines validated, %d predicate failures" % (source, len(recs), sum(len(s) for s in recs), len(seen)))
    mst, mtr, mcs, failed = f_mc.result()
    states += mst; transitions += mtr
    pool.shutdown()
    for w in sorted(notes_seen):
        ctx.notes.append("MODEL-DRIFT (not part of the property): " + w)
    if dcount["drift"]:
        ctx.notes.append("MODEL-DRIFT (no verdict): %d of %d generated scenarios left Backoff.tla's prediction of joined/mesh/backoff-entries "
                         "(the model's clock has whole ticks; first: %s)" % (dcount["drift"], dcount["aligned"], json.dumps(dcount["drift_samples"][:1])))

    # ---- coverage obligations (DESIGN C08): unmet => inconclusive rather than green
    def has(prefix_parts):
        return sum(n for k, n in cov.items() if all(p in k.split(":") for p in prefix_parts))
    need = {
        "Join (fresh) with a peer under backoff": has(["filtered", "join"]),
        "Join (fresh) graft of a peer whose backoff has passed": sum(n for k, n in cov.items() if k.startswith("graft:True:") and k.endswith(":join")),
        "heartbeat under-subscription with a peer under backoff": has(["filtered", "hb-under"]),
        "heartbeat under-subscription graft after the backoff passed": sum(n for k, n in cov.items() if k.startswith("graft:True:") and k.endswith(":hb-under")),
        "retried GRAFT dropped as stale under backoff": has(["filtered", "retry-flush"]) + has(["filtered", "retry-piggyback"]),
        "retried GRAFT sent (flush)": sum(n for k, n in cov.items() if k.startswith("graft:") and k.endswith(":retry-flush")),
        "retried GRAFT sent (piggyback)": sum(n for k, n in cov.items() if k.startswith("graft:") and k.endswith(":retry-piggyback")),
        "Join by fanout promotion with a peer under backoff": has(["filtered", "join-promo"]),
        "outbound quota with a peer under backoff": has(["filtered", "hb-outbound"]),
        "outbound quota graft": sum(n for k, n in cov.items() if k.startswith("graft:") and k.endswith(":hb-outbound")),
        "opportunistic graft with a peer under backoff": has(["filtered", "hb-opportunistic"]),
        "opportunistic graft": sum(n for k, n in cov.items() if k.startswith("graft:") and k.endswith(":hb-opportunistic")),
        "refusal inside the flood window (standard backoff, penalty checked)": sum(n for k, n in refs.items() if k[:3] == (True, "std", True)),
        "refusal outside the flood window (standard backoff, penalty checked)": sum(n for k, n in refs.items() if k[:3] == (False, "std", True)),
        "refusal under a peer-specified backoff": sum(n for k, n in refs.items() if k[1] == "peer"),
        "refusal under the unsubscribe backoff": sum(n for k, n in refs.items() if k[1] == "unsub"),
        "GRAFT from a backed-off inbound peer while the mesh is at or above Dhi, inside the flood window (penalty checked)":
            sum(n for k, n in refs.items() if k[0] and k[1] == "std" and k[2] and k[3]),
        "GRAFT from a backed-off inbound peer while the mesh is at or above Dhi, outside the flood window (penalty checked)":
            sum(n for k, n in refs.items() if not k[0] and k[1] == "std" and k[2] and k[3]),
        "GRAFT from a backed-off peer with a negative score, inside the flood window (penalty checked)":
            sum(n for k, n in refs.items() if k[0] and k[1] == "std" and k[2] and k[4]),
        "GRAFT from a backed-off peer with a negative score, outside the flood window (penalty checked)":
            sum(n for k, n in refs.items() if not k[0] and k[1] == "std" and k[2] and k[4]),
        "received PRUNE with a backoff longer than the default": sum(n for k, n in cov.items() if k.startswith("prune-recv:") and ":longer:" in k),
        "received PRUNE with a backoff shorter than the default": sum(n for k, n in cov.items() if k.startswith("prune-recv:") and ":shorter:" in k),
        "shorter backoff received while a longer one is running (kept)": sum(n for k, n in cov.items() if k.startswith("prune-recv:True:")),
        "leave then rejoin inside the unsubscribe backoff": cov.get("rejoin-in-unsub", 0),
        "sweep tick with an unexpired entry": cov.get("sweep-unexpired", 0),
        "sweep tick removing an expired entry": cov.get("sweep-expired-removed", 0),
        "PRUNE to a v1.1+ peer (prune backoff)": sum(n for k, n in cov.items() if k.startswith("prune-sent:") and k.endswith(":False")),
        "PRUNE to a v1.1+ peer on Leave (unsubscribe backoff)": sum(n for k, n in cov.items() if k.startswith("prune-sent:") and k.endswith(":True")),
        "PRUNE to a v1.0 peer": sum(n for k, n in cov.items() if k.startswith("prune-sent-v10:")),
        "PRUNE dropped at a full queue and kept for retry": sum(n for k, n in cov.items() if k.startswith("prune-sent:Drop:")),
    }
    optional = {"retried GRAFT sent (flush)", "retried GRAFT sent (piggyback)", "Join by fanout promotion with a peer under backoff",
                "outbound quota with a peer under backoff", "outbound quota graft", "opportunistic graft with a peer under backoff",
                "opportunistic graft", "refusal under a peer-specified backoff", "refusal under the unsubscribe backoff",
                "sweep tick removing an expired entry", "PRUNE dropped at a full queue and kept for retry"}
    need["retried GRAFT sent (flush or piggyback)"] = need["retried GRAFT sent (flush)"] + need["retried GRAFT sent (piggyback)"]
    missing = [k for k, n in need.items() if not n and k not in optional]
    if missing and not ctx.violations:
        raise vlib.Inconclusive("coverage obligation not met: %s" % missing)
    for k in sorted(optional):
        if not need[k]:
            ctx.notes.append("secondary coverage target not reached in this run: " + k)

    evid = {"states": states, "transitions": transitions, "traces_validated_against_impl": total_scn, "samples": samples[:4],
            "evaluations": total_lines, "distinct_nontrivial": len(nontrivial),
            "rule": "evaluation = one recorded step line of the real node judged by BackoffTrace (all four predicates); a scenario is non-trivial "
                    "if at least one line exercised a refusal, a backoff-filtered graft site, a received PRUNE while joined, a rejoin inside the "
                    "unsubscribe backoff or a sweep with an unexpired entry; distinct by stimulus list",
            "exhaustive": False, "obligations": need, "coverage_facts": dict(sorted(cov.items())),
            "mc": dict(mcs, must_fail=["%s -> %s" % f for f in failed], unbounded_clock=True),
            "model_conformance": {k: v for k, v in dcount.items() if k != "drift_samples"}}
    return vlib.finish(ctx, LEVEL, evid, [
        "virtual time (testing/synctest): events carry the instant of the event-loop turn that produced them, which is the instant the code reads with time.Now()",
        "the router scenarios use the application score only (BehaviourPenaltyWeight 0, integer scores), so that RPC acceptance (graylist) and the penalty counter are exact",
        "the heartbeat interval of the harness is 1 s and equals GossipSubHeartbeatInterval, the unit clearBackoff's slack is written in",
        "a GRAFT whose RPC is dropped at a full queue is not an emission; its retry is judged when it is pushed",
        "the exhaustive model has two peers and one topic; outbound quota, opportunistic grafting and fanout promotion are reached by directed scenarios and random walks only"])
