"""C17 - gossip stays within its protocol bounds and message-cache windows.

The check is the union of independent parts; each part is a function  part(ctx) -> dict  that does its own
MC -> Gen -> replay -> trace validation, records violations with vlib.add_violation, raises vlib.Inconclusive
for machinery problems and returns its evidence dict (see _cachecommon.merge_parts for the keys).
To extend the check, append a part-function to PARTS."""
from .. import vlib
from . import _cachecommon as cc
from .c17_mcache import run_mcache
from .c17_router import run_router

LEVEL = "model_checking"

PARTS = [
    run_mcache,         # the message cache alone (window semantics of Put/Get/GetForPeer/GetGossipIDs/Shift): spec/mcache
    run_router,         # in-node part (IHAVE/IWANT/IDONTWANT bounds, promises): spec/gossip
]


def run(ctx):
    cov, assumptions = cc.merge_parts(cc.run_parallel([(lambda part=part: part(ctx)) for part in PARTS]))
    return vlib.finish(ctx, LEVEL, cov, assumptions)
