"""C12 - no input from remote peers can crash the node or stall its event loop.

spec/wire: Wire (class table of everything a remote peer can put on an inbound stream, the stream
machine, the three predicates), MCWire (exhaustive over the alphabet; a config that MUST fail),
GenWire (prints the table + the alphabet, enumerates every sequence of <= 3 named frames),
WireTrace (P_C12_* per recorded line; reset / recv prediction = drift only), Pipe (the hand-offs event loop ->
validateQ -> workers -> sendMsg -> event loop: non-blocking variant live, blocking variant MUST fail).
The table also holds the flood-protection caps the node is configured with (Caps) and "exactly at the cap / one
more" classes for each of them, publish-count classes measured against the node's own validation pipeline, and
anchor scenarios that overfill every hand-off from the event loop to another goroutine (validation queue, the
hostile peer's outbound queue, the PX connect channel, a subscriber that never reads).

Level "exploration": this is model-GENERATED testing. The specification enumerates class combinations
(all pairs, a larger seeded sample in the thorough tier) and short sequences; it cannot show the absence
of panics for inputs it does not generate (DESIGN section 6).

Flow: MC -> Gen (TLC) -> covering arrays from the printed table (python; re-checked against the table by
WireTrace) -> replay in sharded driver processes with crash attribution (marker file, re-run of the
single frame alone, restart after the crashing scenario) -> WireTrace -> confirmation re-runs -> finish."""
import concurrent.futures as cf
import json, os, random, re, subprocess, time
from .. import vlib

LEVEL = "exploration"
FAMILY = "wire"
PKG = "./drivers/c12/"
DEAD_OBS = {"alive": False, "stream": "open", "gstream": "open", "hOut": True, "gOut": True,
            "recv": 0, "eval": False, "pub": False, "probe": False, "throttled": False, "dec": "na"}


# ----------------------------------------------------------------------------- covering arrays

def forbidden_idx(factors, forbidden):
    names = [f[0] for f in factors]
    out = set()
    for (f1, c1, f2, c2) in forbidden:
        if f1 in names and f2 in names:
            i, j = names.index(f1), names.index(f2)
            if c1 in factors[i][1] and c2 in factors[j][1]:
                a, b = factors[i][1].index(c1), factors[j][1].index(c2)
                out.add((i, a, j, b) if i < j else (j, b, i, a))
    return out


def row_ok(row, forbidden):
    return not any(row.get(f1) == c1 and row.get(f2) == c2 for (f1, c1, f2, c2) in forbidden)


def cover(factors, rng, forbidden=(), candidates=12):
    """Greedy (AETG-style) covering array of strength 2 over factors = [(name, [classes])]: returns rows
    (dicts) such that every allowed pair of classes of two different factors occurs in some row and no
    row contains a forbidden pair."""
    names = [f[0] for f in factors]
    vals = [f[1] for f in factors]
    n = len(factors)
    forb = forbidden_idx(factors, forbidden)
    unc = set()
    for i in range(n):
        for j in range(i + 1, n):
            for a in range(len(vals[i])):
                for b in range(len(vals[j])):
                    if (i, a, j, b) not in forb:
                        unc.add((i, a, j, b))
    rows = []
    while unc:
        best, best_gain = None, -1
        seeds = rng.sample(sorted(unc), min(candidates, len(unc)))
        for (i0, a0, j0, b0) in seeds:
            row = [None] * n
            row[i0], row[j0] = a0, b0
            order = [x for x in range(n) if row[x] is None]
            rng.shuffle(order)
            done = [i0, j0]
            for x in order:
                bg, bv = -1, []
                for v in range(len(vals[x])):
                    g = 0
                    for y in done:
                        key = (x, v, y, row[y]) if x < y else (y, row[y], x, v)
                        if key in unc:
                            g += 1
                        elif key in forb:
                            g = -1000
                            break
                    if g > bg:
                        bg, bv = g, [v]
                    elif g == bg:
                        bv.append(v)
                row[x] = rng.choice(bv)
                done.append(x)
            gain = 0
            for i in range(n):
                for j in range(i + 1, n):
                    if (i, row[i], j, row[j]) in unc:
                        gain += 1
            if gain > best_gain:
                best, best_gain = row, gain
        for i in range(n):
            for j in range(i + 1, n):
                unc.discard((i, best[i], j, best[j]))
        rows.append({names[i]: vals[i][best[i]] for i in range(n)})
    return rows


def pairs_of(rows, names):
    got = set()
    for r in rows:
        for i in range(len(names)):
            for j in range(i + 1, len(names)):
                got.add((names[i], r[names[i]], names[j], r[names[j]]))
    return got


def all_pairs(factors, forbidden=()):
    want = set()
    forb = {(f1, c1, f2, c2) for (f1, c1, f2, c2) in forbidden} | {(f2, c2, f1, c1) for (f1, c1, f2, c2) in forbidden}
    for i in range(len(factors)):
        for j in range(i + 1, len(factors)):
            for a in factors[i][1]:
                for b in factors[j][1]:
                    if (factors[i][0], a, factors[j][0], b) not in forb:
                        want.add((factors[i][0], a, factors[j][0], b))
    return want


def triple_fraction(rows, factors, rng, sample=4000):
    """Measured fraction of a random sample of class triples that some row contains."""
    if len(factors) < 3 or not rows:
        return 0.0
    hit = 0
    for _ in range(sample):
        fs = rng.sample(range(len(factors)), 3)
        want = [(factors[i][0], rng.choice(factors[i][1])) for i in fs]
        if any(all(r[k] == v for k, v in want) for r in rows):
            hit += 1
    return hit / sample


# ----------------------------------------------------------------------------- scenarios from the table

class Table:
    def __init__(self, t, alphabet):
        self.fields = t["fields"]
        self.deep = t["deep"]
        self.cfg = t["cfg"]
        self.cfg_deep = t["cfgDeep"]
        self.gossip_only = set(t["gossipOnly"])
        self.subkinds = t["subkinds"]
        self.forbidden = [tuple(x) for x in t["forbidden"]]
        self.caps = t["caps"]
        self.mal = t["mal"]
        self.mal_no_known = set(t["malNoKnown"])
        self.blank_m = {k: v[0] for k, v in self.mal.items()}
        self.letters = alphabet   # replaced by Letters (alphabet + anchor-only frames) when GenWire prints them
        self.alphabet = alphabet
        self.blank = {k: v[0] for k, v in self.fields.items()}
        self.blank_cfg = {k: v[0] for k, v in self.cfg.items()}

    def cfg_factors(self, router, deep=False, only=None):
        out = []
        for k, v in self.cfg.items():
            if k == "router" or (router != "gossipsub" and k in self.gossip_only):
                continue
            if only is not None and k not in only:
                continue
            out.append(("cfg." + k, list(self.cfg_deep[k]) if deep and k in self.cfg_deep else list(v)))
        return out

    def field_factors(self, deep=False):
        return [("f." + k, list(self.deep[k]) if deep and k in self.deep else list(v)) for k, v in self.fields.items()]

    def split(self, router, row):
        cfg = dict(self.blank_cfg)
        cfg["router"] = router
        f = dict(self.blank)
        for k, v in row.items():
            if k.startswith("cfg."):
                cfg[k[4:]] = v
            elif k.startswith("f."):
                f[k[2:]] = v
        return cfg, f

    def raw(self, kind, sub):
        return {"kind": kind, "sub": sub, "f": dict(self.blank), "m": dict(self.blank_m)}

    def malformed_frames(self):
        """The WHOLE product of the Malformed classes (it is small): every message type x unknown / known field x
        wire type x (for length-delimited) every length class x offset 0 / > 0."""
        out = []
        for where in self.mal["where"]:
            for field in self.mal["field"]:
                if field == "known" and where in self.mal_no_known:
                    continue
                for wt in self.mal["wt"]:
                    for ln in (self.mal["len"] if wt == "len" else self.mal["len"][:1]):
                        for pre in self.mal["pre"]:
                            out.append({"kind": "Malformed", "sub": "field", "f": dict(self.blank),
                                        "m": {"where": where, "field": field, "wt": wt, "len": ln, "pre": pre}})
        return out


def build_scenarios(ctx, tab, seqs, anchors):
    rng = random.Random(ctx.seed * 7919 + (1 if ctx.thorough else 0))
    scns, stats = [], {}
    routers = tab.cfg["router"]

    def add(origin, cfg, frames):
        scns.append({"id": len(scns), "origin": origin, "cfg": cfg, "frames": frames})

    # anchors: one short sequence per mechanism of the property, in a configuration known to reach it
    for a in anchors:
        add("anchor:" + a["name"], dict(tab.blank_cfg, **a["cfg"]), [tab.letters[x] for x in a["seq"]])
    stats["anchors"] = {"rows": len(anchors)}
    rounds = 3 if ctx.thorough else 1
    for router in routers:
        for deep in (False, True):
            factors = tab.cfg_factors(router, deep) + tab.field_factors(deep)
            want = all_pairs(factors, tab.forbidden)
            rows = []
            for _ in range(rounds):
                rows += cover(factors, rng, tab.forbidden)
            names = [f[0] for f in factors]
            missing = want - pairs_of(rows, names)
            if missing:
                raise vlib.Inconclusive("covering array misses %d pairs (e.g. %s)" % (len(missing), sorted(missing)[:2]))
            key = "%s-%s" % (router, "deep" if deep else "wide")
            extra = []
            if ctx.thorough:
                # a larger seeded sample on top of the all-pairs cover; the reached strength-3 coverage is measured
                while len(extra) < (600 if router == "gossipsub" else 150):
                    row = {n: rng.choice(v) for n, v in factors}
                    if row_ok(row, tab.forbidden):
                        extra.append(row)
            if not all(row_ok(r, tab.forbidden) for r in rows):
                raise vlib.Inconclusive("covering array contains a forbidden pair")
            stats[key] = {"factors": len(factors), "pairs": len(want), "rows": len(rows), "random_rows": len(extra),
                          "triples_covered_fraction": round(triple_fraction(rows + extra, factors, rng, 1500), 3)}
            for row in rows + extra:
                cfg, f = tab.split(router, row)
                add(key, cfg, [{"kind": "Rpc", "sub": "rpc", "f": f, "m": dict(tab.blank_m)}])
        # framing: every broken-framing sub-kind against every protocol / peer kind / log level of this router
        fr_factors = [("kind", [k + "/" + s for k, subs in tab.subkinds.items() if k not in ("Rpc", "Tick", "Malformed") for s in subs])] + \
            tab.cfg_factors(router, only={"proto", "hpeer", "rpclog", "score", "filter"})
        for row in cover(fr_factors, rng, tab.forbidden):
            kind, sub = row["kind"].split("/")
            cfg, _ = tab.split(router, row)
            add("framing-" + router, cfg, [tab.raw(kind, sub)])
    # malformed single fields: the whole class product, six frames per scenario (each one ends the stream, the peer
    # opens a new one), configurations rotating over the routers and the debug logger
    mal = tab.malformed_frames()
    rng.shuffle(mal)
    for n in range(0, len(mal), 6):
        router = routers[(n // 6) % len(routers)]
        add("malformed", dict(tab.blank_cfg, router=router, rpclog=tab.cfg["rpclog"][(n // 18) % 2]), mal[n:n + 6])
    stats["malformed"] = {"rows": (len(mal) + 5) // 6, "frames": len(mal), "whole_product": True}
    n_single = len(scns)

    # sequences of named frames (all of them in the thorough tier, a seeded sample of the length-3 ones otherwise);
    # their configurations rotate through an all-pairs cover of the configuration factors
    seq_cfgs = []
    for router in routers:
        rows = cover(tab.cfg_factors(router), rng, tab.forbidden)
        if router != "gossipsub":
            rows = rows[:max(3, len(rows) // 3)]
        for row in rows:
            seq_cfgs.append(tab.split(router, row)[0])
    seqs = sorted(seqs, key=lambda s: (len(s), s))   # TLC's workers print in no particular order
    short = [s for s in seqs if len(s) <= 2]
    long_ = [s for s in seqs if len(s) > 2]
    exhaustive = ctx.thorough
    if not exhaustive:
        rng.shuffle(long_)
        long_ = long_[:200]
    off = rng.randrange(len(seq_cfgs))
    for n, s in enumerate(short + long_):
        add("seq%d" % len(s), seq_cfgs[(n + off) % len(seq_cfgs)], [tab.alphabet[a] for a in s])
    stats["sequences"] = {"alphabet": len(tab.alphabet), "generated_by_tlc": len(seqs), "replayed": len(scns) - n_single,
                          "all_sequences_up_to_3": exhaustive, "configurations": len(seq_cfgs)}
    return scns, stats


# ----------------------------------------------------------------------------- replay with crash attribution

def parse_crash(log):
    """First panic / fatal error of a dead driver: message, the first decisive stack frame and who owns it."""
    m = re.search(r"^(panic: .*|fatal error: .*)$", log, re.M)
    if not m:
        return None
    msg = m.group(1).strip()
    if msg.startswith("panic: test timed out"):
        return {"panic": msg, "owner": "timeout", "fn": "", "stack": []}
    rest = log[m.end():]
    g = re.search(r"^goroutine \d+ [^\n]*\[running[^\n]*\]:\n((?:.+\n)+)", rest, re.M)
    frames = []
    if g:
        for line in g.group(1).splitlines():
            if not line.startswith("\t") and not line.startswith(" "):
                frames.append(line.strip())
    owner, fn = "unknown", ""
    for fr in frames:
        if "verifharness/" in fr:
            owner, fn = "harness", fr.split("(")[0] if not fr.startswith("verifharness") else re.sub(r"\(.*$", "", fr)
            break
        if "go-libp2p-pubsub" in fr:
            owner, fn = "library", re.sub(r"\([^()]*\)$", "", fr).strip()
            fn = re.sub(r"\(0x[0-9a-f, x{}.]*\)$", "", fn)
            break
    if owner == "unknown" and frames:
        fn = frames[0]
    return {"panic": msg, "owner": owner, "fn": fn[:200], "stack": frames[:12]}


class Replayer:
    def __init__(self, ctx, binary, scn_file, scns):
        self.ctx, self.binary, self.scn_file, self.scns = ctx, binary, scn_file, scns
        self.dir = ctx.sub("replay")
        self.nrun = 0
        self.restarts = 0
        self.hangs = 0
        self.cut_short = False

    def launch(self, tag, env, timeout=3000):
        self.nrun += 1
        e = dict(os.environ)
        e.update({"VERIF_IN": self.scn_file, "VERIF_SEED": str(self.ctx.seed), "VERIF_TIER": self.ctx.tier,
                  "VERIF_WORLD_OUT": os.devnull, "GOTRACEBACK": "all",
                  "VERIF_STALL_S": "60"})
        e.update({k: str(v) for k, v in env.items()})
        log = os.path.join(self.dir, "%s.log" % tag)
        with open(log, "w") as f:
            p = subprocess.run(["timeout", str(timeout + 30), self.binary, "-test.run", "^TestC12$", "-test.count", "1",
                                "-test.timeout", "%ds" % timeout], cwd=self.dir, env=e, stdout=f, stderr=subprocess.STDOUT)
        return p.returncode, log

    def marker(self, path):
        try:
            a, b = open(path).read().split()
            return int(a), int(b)
        except Exception:
            return None

    def shard(self, s, n):
        """Run shard s of n to the end, restarting after every scenario that killed the driver."""
        out = os.path.join(self.dir, "shard%d.ndjson" % s)
        mark = os.path.join(self.dir, "shard%d.marker" % s)
        events, start, attempt = [], 0, 0
        while True:
            attempt += 1
            rc, log = self.launch("shard%d-run%d" % (s, attempt),
                                  {"VERIF_OUT": out, "VERIF_MARKER": mark, "VERIF_SHARD": "%d/%d" % (s, n), "VERIF_FROM": start})
            if rc == 0 or self.cut_short:
                return out, events
            text = open(log, errors="replace").read()
            at = self.marker(mark)
            if at is None:
                raise vlib.Inconclusive("driver died before the first marker (rc=%s, see %s)" % (rc, log))
            i, k = at
            if rc == 6:
                raise vlib.Inconclusive("panic in the harness's own code at scenario %d frame %d (see %s)" % (i, k, out))
            if rc == 5:
                events.append({"type": "stall", "scn": i, "k": k, "log": log})
            elif rc == 4:
                events.append({"type": "hang", "scn": i, "k": k, "log": log})
            else:
                c = parse_crash(text)
                if c is None:
                    raise vlib.Inconclusive("driver failed without a panic at scenario %d frame %d (rc=%s, see %s)" % (i, k, rc, log))
                if c["owner"] == "harness":
                    raise vlib.Inconclusive("panic in harness code %s: %s (see %s)" % (c["fn"], c["panic"], log))
                if c["owner"] == "timeout":
                    events.append({"type": "hang", "scn": i, "k": k, "log": log})
                else:
                    events.append(dict(c, type="crash", scn=i, k=k, log=log))
            if events[-1]["type"] in ("hang", "stall"):
                self.hangs += 1
            if self.hangs >= 6:
                # every hang costs the watchdog's patience; the verdict no longer depends on the rest
                self.cut_short = True
                return out, events
            self.restarts += 1
            if self.restarts > 6000:
                raise vlib.Inconclusive("too many driver restarts")
            start = i + 1

    def run_all(self, nshards):
        with cf.ThreadPoolExecutor(max_workers=nshards) as ex:
            res = list(ex.map(lambda s: self.shard(s, nshards), range(nshards)))
        lines, events = [], []
        for out, ev in res:
            if os.path.exists(out):
                lines += vlib.read_ndjson(out)
            events += ev
        return lines, events

    def alone(self, tag, i, k=None):
        """Re-run scenario i alone (only frame k of it when k is given). Returns (lines, rc, crash or None)."""
        out = os.path.join(self.dir, "%s.ndjson" % tag)
        mark = os.path.join(self.dir, "%s.marker" % tag)
        env = {"VERIF_OUT": out, "VERIF_MARKER": mark, "VERIF_ONLY": i}
        if k is not None:
            env["VERIF_ONLY_FRAME"] = k
        rc, log = self.launch(tag, env, timeout=600)
        lines = vlib.read_ndjson(out) if os.path.exists(out) else []
        crash = None
        if rc not in (0, 4, 5, 6):
            crash = parse_crash(open(log, errors="replace").read())
        return lines, rc, crash, self.marker(mark)


# ----------------------------------------------------------------------------- trace validation

def validate(ctx, scn_lines, name, chunk=2500):
    """scn_lines: list of scenarios (each a list of lines starting with its reset line). Returns the printed
    VIOL / DRIFT / BAD tuples and the number of TLC states."""
    chunks = [scn_lines[i:i + chunk] for i in range(0, len(scn_lines), chunk)]

    def do(idx):
        rows = [ln for sc in chunks[idx] for ln in sc]
        path = os.path.join(ctx.work, "%s-chunk-%d.ndjson" % (name, idx))
        vlib.write_ndjson(path, rows)
        res = vlib.run_tlc(ctx, FAMILY, "WireTrace", "WireTrace.cfg", mode="trace", files={"trace.ndjson": path},
                           timeout=1200, name="%s-%d" % (name, idx), heap="4g")
        if res.hw is None or res.hw[0] < res.hw[1]:
            raise vlib.Inconclusive("trace validation did not reach the end of %s (hw=%s, see %s/tlc.out): %s" %
                                    (path, res.hw, res.dir, res.errors[:2]))
        got = {}
        for tag in ("VIOL", "DRIFT", "BAD"):
            got[tag] = []
            for raw in res.printed_raw(tag):
                a, b, c = [x.strip() for x in raw.split(",", 2)]
                got[tag].append((int(a), int(b), c.strip('"')))
        return got, res.distinct

    out, states = {"VIOL": [], "DRIFT": [], "BAD": []}, 0
    with cf.ThreadPoolExecutor(max_workers=max(1, min(vlib.NCPU // 2, 4, len(chunks) or 1))) as ex:
        for got, st in ex.map(do, range(len(chunks))):
            for k in out:
                out[k] += got[k]
            states += st
    return out, states


def group(lines):
    """scenario index -> [reset line, frame lines...] (lines that belong to TLC only)."""
    by = {}
    for ln in lines:
        if ln.get("e") == "reset":
            by[ln["scn"]] = [ln]
        elif ln.get("e") == "frame" and ln["scn"] in by:
            by[ln["scn"]].append(ln)
    return by


def tlc_line(ln):
    if ln["e"] == "reset":
        return {"e": "reset", "scn": ln["scn"], "cfg": ln["cfg"], "hOut": ln["hOut"], "gOut": ln["gOut"]}
    return {"e": "frame", "scn": ln["scn"], "k": ln["k"], "fr": ln["fr"], "obs": ln["obs"]}


def frame_sig(scn, k, extra):
    fr = scn["frames"][k] if k < len(scn["frames"]) else {"kind": "Tick", "sub": "hb", "f": {}}
    # kept small on purpose: violations are de-duplicated by signature (scenario, origin and router are in the detail / replay)
    sig = {"kind": fr["kind"], "sub": fr["sub"], "validator": scn["cfg"]["validator"], "seqno": fr["f"].get("seqno", "0")}
    if fr["kind"] == "Malformed":
        m = fr["m"]
        sig["mal"] = ".".join(m[k] for k in ("where", "field", "wt", "len", "pre"))
    sig.update(extra)
    return sig


# ----------------------------------------------------------------------------- the check

def run(ctx):
    states = transitions = 0
    # 1. model level (small on purpose; see MCWire) + the configuration that MUST fail; 2. Gen: table, alphabet,
    #    anchors, every sequence of <= 3 named frames (the three TLC runs are independent: run them side by side)
    #    plus the pipeline hand-off model (Pipe.tla): the non-blocking hand-off is live, the blocking one MUST fail.
    #    Never more than 4 TLC workers at a time.
    with cf.ThreadPoolExecutor(max_workers=3) as ex:
        f_gen = ex.submit(vlib.run_tlc, ctx, FAMILY, "GenWire",
                          vlib.cfg_text(constants={"Guarded": True, "L": 3}, invariants=["Emit", "P_C12_Alive"]),
                          timeout=1800, name="gen", workers=2, heap="4g")
        f_mc = ex.submit(vlib.run_tlc, ctx, FAMILY, "MCWire", "MCWire.cfg", timeout=900, name="mc", workers=1)
        f_bug = ex.submit(vlib.run_tlc, ctx, FAMILY, "MCWire", "MCWireBug.cfg", timeout=900, name="mc-bug", workers=1)
        f_pipe = [ex.submit(vlib.run_tlc, ctx, FAMILY, "Pipe", c + ".cfg", timeout=900, name=c.lower(), workers=1)
                  for c in ("MCPipe", "MCPipeBlocking", "MCPipeBlockingFits", "MCPipeBlockingAsync")]
        mc, bug, gen = f_mc.result(), f_bug.result(), f_gen.result()
        pipe, pipe_bug, pipe_fits, pipe_async = [f.result() for f in f_pipe]
    vlib.require_mc_ok(ctx, mc, "MCWire")
    vlib.require_mc_fails(ctx, bug, "MCWire (Guarded=FALSE: the code as found, D2)", "P_C12_Alive")
    states += mc.distinct; transitions += mc.generated
    vlib.require_mc_ok(ctx, pipe, "MCPipe (non-blocking hand-off to the validation queue)")
    vlib.require_mc_ok(ctx, pipe_fits, "MCPipeBlockingFits (blocking hand-off, the RPC fits into the pipeline)")
    vlib.require_mc_ok(ctx, pipe_async, "MCPipeBlockingAsync (blocking hand-off, asynchronous validators)")
    if pipe_bug.timed_out or not re.search(r"Error: Temporal properties .*violated", pipe_bug.out):
        raise vlib.Inconclusive("MCPipeBlocking: the blocking hand-off must violate P_C12_Liveness_Pipe (non-vacuity), see %s/tlc.out" % pipe_bug.dir)
    for r_ in (pipe, pipe_fits, pipe_async):
        states += r_.distinct; transitions += r_.generated
    vlib.require_mc_ok(ctx, gen, "GenWire")
    states += gen.distinct; transitions += gen.generated
    tabs, alphs, seqs, anch = gen.printed("TABLE"), gen.printed("ALPHABET"), gen.printed("SCN"), gen.printed("ANCHORS")
    if not tabs or not alphs or not seqs or not anch:
        raise vlib.Inconclusive("GenWire printed no table / alphabet / sequences (see %s/tlc.out)" % gen.dir)
    tab = Table(tabs[0], alphs[0])
    lets = gen.printed("LETTERS")
    if not lets:
        raise vlib.Inconclusive("GenWire printed no LETTERS")
    tab.letters = lets[0]
    na = len(tab.alphabet)
    if len(seqs) != na + na ** 2 + na ** 3:
        raise vlib.Inconclusive("GenWire emitted %d sequences, expected %d" % (len(seqs), na + na ** 2 + na ** 3))
    scns, gstats = build_scenarios(ctx, tab, seqs, anch[0])
    scn_file = os.path.join(ctx.work, "scenarios.ndjson")
    vlib.write_ndjson(scn_file, [{"id": -1, "origin": "blank", "cfg": tab.blank_cfg, "caps": tab.caps,
                                  "frames": [{"kind": "Tick", "sub": "hb", "f": tab.blank, "m": tab.blank_m}]}] + scns)
    ctx.log("scenarios: %d (%s)" % (len(scns), ", ".join("%s=%d" % (k, v.get("rows", 0) + v.get("random_rows", 0) or v.get("replayed", 0))
                                                         for k, v in gstats.items())))

    # 3. build the driver once, replay in shards
    binary = os.path.join(ctx.work, "c12.test")
    b = vlib.run_go(ctx, PKG, "^TestC12$", extra=["-c", "-o", binary], name="build", timeout=900)
    if b["rc"] != 0 or not os.path.exists(binary):
        raise vlib.Inconclusive("cannot build the driver (see %s)" % b["log"])
    rp = Replayer(ctx, binary, scn_file, scns)
    nshards = max(2, min(vlib.NCPU // 2, 8 if ctx.thorough else 6))
    t0 = time.time()
    lines, events = rp.run_all(nshards)
    ctx.log("replay: %d lines, %d driver restarts (%d crashes, %d stalls/hangs) in %.0fs" % (
        len(lines), rp.restarts, sum(e["type"] == "crash" for e in events), sum(e["type"] != "crash" for e in events), time.time() - t0))
    if rp.cut_short:
        ctx.notes.append("replay cut short after %d hangs/stalls of the node (each costs the watchdog's 60 s)" % rp.hangs)
    by = group(lines)
    bad_pipe = [ln["scn"] for ln in lines if ln.get("e") == "reset" and min(ln.get("pipe", {"q": -1}).values()) < 0]
    if bad_pipe:
        raise vlib.Inconclusive("cannot read cap(validateQ) / validateWorkers / cap(sendMsg) off the node (fields renamed?), scenarios %s" % bad_pipe[:3])
    bad_setup = [ln["scn"] for ln in lines if ln.get("e") == "reset" and not ln.get("ok")]
    if bad_setup:
        raise vlib.Inconclusive("setup failed (honest message not delivered before any hostile frame) in scenarios %s" % bad_setup[:5])

    # 4. dead drivers: attribute through the marker, confirm by re-running the single frame alone. Events are grouped
    #    by signature (what died where, on which kind of frame); three representatives of every group are re-run, the
    #    others inherit the group's confirmation (they are only counted, the reported replay is a re-run one).
    confirmed_cache, unconfirmed = {}, []
    jobs, per_group = [], {}
    for e in events:
        i, k = e["scn"], e["k"]
        if k < 0:
            raise vlib.Inconclusive("the node died during the setup of scenario %d, before any hostile frame (see %s)" % (i, e["log"]))
        sc = scns[i]
        e["key"] = json.dumps([e["type"], e.get("fn", ""), re.sub(r"\d+", "N", e.get("panic", "")), frame_sig(sc, k, {})], sort_keys=True)
        per_group.setdefault(e["key"], []).append(e)
    for key, members in per_group.items():
        confirmed_cache[key] = None
        jobs += members[:2]

    def confirm(e):
        i, k = e["scn"], e["k"]
        tag = "confirm-%d-%d" % (i, k)
        same = lambda c: c is not None and c["owner"] == e.get("owner") and c["fn"] == e.get("fn")
        l1, rc1, c1, m1 = rp.alone(tag + "-frame", i, k)
        if e["type"] == "crash" and same(c1):
            return "frame", c1
        if e["type"] in ("stall", "hang") and rc1 in (4, 5):
            return "frame", None
        l2, rc2, c2, m2 = rp.alone(tag + "-scn", i)
        if e["type"] == "crash" and same(c2) and m2 == (i, k):
            return "scenario", c2
        if e["type"] in ("stall", "hang") and rc2 in (4, 5) and m2 == (i, k):
            return "scenario", None
        return None, None

    with cf.ThreadPoolExecutor(max_workers=nshards) as ex:
        for e, (how, c) in zip(jobs, ex.map(confirm, jobs)):
            e["how"] = how
            if how is None:
                unconfirmed.append(e)
            elif confirmed_cache[e["key"]] is None:
                confirmed_cache[e["key"]] = how
    for e in events:
        how = e.get("how") if "how" in e else (confirmed_cache[e["key"]] and "signature")
        i, k = e["scn"], e["k"]
        if how is None:
            if e not in unconfirmed:
                unconfirmed.append(e)
            continue
        sc = scns[i]
        if i not in by:
            raise vlib.Inconclusive("no reset line for crashed scenario %d" % i)
        fr = sc["frames"][k] if k < len(sc["frames"]) else {"kind": "Tick", "sub": "hb", "f": tab.blank, "m": tab.blank_m}
        have = [ln for ln in by[i] if ln.get("e") == "frame" and ln["k"] == k]
        if e["type"] == "crash":
            by[i] = [ln for ln in by[i] if not (ln.get("e") == "frame" and ln["k"] >= k)]
            by[i].append({"e": "frame", "scn": i, "k": k, "fr": fr, "obs": dict(DEAD_OBS),
                          "info": {"panic": e["panic"], "fn": e["fn"], "stack": e["stack"], "confirmed": how, "log": e["log"]}})
        elif not have:
            # a hang: the driver could not even write the line; the observation is "no answer"
            prev = by[i][-1]   # streams as last observed: the synthesised line must only say "no answer"
            p_h, p_g = (prev["hOut"], prev["gOut"]) if prev["e"] == "reset" else (prev["obs"]["hOut"], prev["obs"]["gOut"])
            expect = "open" if fr["kind"] in ("Rpc", "Tick", "Empty", "Dup") else None
            by[i].append({"e": "frame", "scn": i, "k": k, "fr": fr,
                          "obs": dict(DEAD_OBS, alive=True, hOut=p_h, gOut=p_g), "info": {"hang": True, "confirmed": how, "log": e["log"]}})
            if expect is None:
                by[i][-1]["info"]["stream_unobserved"] = True
        else:
            have[0].setdefault("info", {})["confirmed"] = how

    # 5. TLC judges every line
    order = sorted(by)
    got, st = validate(ctx, [[tlc_line(ln) for ln in by[i]] for i in order], "tv")
    states += st
    if got["BAD"]:
        raise vlib.Inconclusive("lines that are not frames of the class table: %s" % got["BAD"][:3])
    line_at = {(ln["scn"], ln["k"]): ln for i in order for ln in by[i] if ln["e"] == "frame"}

    # 6. candidates -> confirmed violations (the failure must reproduce when the scenario is re-run alone;
    #    candidates are grouped by signature and a few representatives of every group are re-run)
    cand = {}
    for (i, k, pred) in got["VIOL"]:
        cand.setdefault((i, k), set()).add(pred)

    def sig_of(i, k, pred):
        ln, sc = line_at[(i, k)], scns[i]
        info = ln.get("info", {})
        if pred == "P_C12_Alive":
            return frame_sig(sc, k, {"panic": info.get("panic", ""), "fn": info.get("fn", "")})
        prev = [x for x in by[i] if x["e"] == "reset" or x["k"] < k][-1]
        prev_out = (prev["hOut"], prev["gOut"]) if prev["e"] == "reset" else (prev["obs"]["hOut"], prev["obs"]["gOut"])
        return frame_sig(sc, k, {"stream": ln["obs"]["stream"], "eval": ln["obs"]["eval"], "probe": ln["obs"]["probe"],
                                 "gstream": ln["obs"]["gstream"], "hang": bool(info.get("hang")),
                                 "outbound_changed": prev_out != (ln["obs"]["hOut"], ln["obs"]["gOut"])})

    groups = {}
    for (i, k), preds in sorted(cand.items()):
        for pred in sorted(preds):
            groups.setdefault(pred + json.dumps(sig_of(i, k, pred), sort_keys=True), []).append((i, k, pred))
    need_rerun = []
    for members in groups.values():
        todo = [(i, k, p) for (i, k, p) in members if "confirmed" not in line_at[(i, k)].get("info", {})]
        for (i, k, p) in todo[:2]:
            if i not in need_rerun and len(need_rerun) < 40:
                need_rerun.append(i)
    rer = {}
    if need_rerun:
        with cf.ThreadPoolExecutor(max_workers=nshards) as ex:
            outs = list(ex.map(lambda i: rp.alone("recheck-%d" % i, i), need_rerun))
        rby = {}
        for i, (l2, rc2, c2, m2) in zip(need_rerun, outs):
            g2 = group(l2)
            if i in g2:
                rby[i] = g2[i]
        if rby:
            got2, st2 = validate(ctx, [[tlc_line(ln) for ln in rby[i]] for i in sorted(rby)], "tv-recheck")
            states += st2
            for (i, k, pred) in got2["VIOL"]:
                rer.setdefault((i, k), set()).add(pred)
    flaky, same_sig = [], 0
    for gkey, members in sorted(groups.items()):
        reproduced = [(i, k, p) for (i, k, p) in members
                      if line_at[(i, k)].get("info", {}).get("confirmed") in ("frame", "scenario") or p in rer.get((i, k), set())]
        tried = [(i, k, p) for (i, k, p) in members if i in need_rerun or "confirmed" in line_at[(i, k)].get("info", {})]
        if not reproduced:
            flaky += tried or members[:1]
            continue
        same_sig += len(members) - len(reproduced)
        for (i, k, pred) in reproduced:
            ln, sc = line_at[(i, k)], scns[i]
            info = ln.get("info", {})
            if pred == "P_C12_Alive":
                detail = "the node died on frame %d of scenario %d (%s, %s): %s in %s" % (
                    k, i, sc["origin"], sc["cfg"]["router"], info.get("panic"), info.get("fn"))
            else:
                detail = "%s fails on frame %d (%s/%s) of scenario %d (%s, %s): observed %s" % (
                    pred, k, ln["fr"]["kind"], ln["fr"]["sub"], i, sc["origin"], sc["cfg"]["router"], json.dumps(ln["obs"]))
            vlib.add_violation(ctx, pred, sig_of(i, k, pred), detail,
                               {"scenario": sc, "frame": k, "lines": by[i], "seed": ctx.seed,
                                "how": "VERIF_ONLY=%d [VERIF_ONLY_FRAME=%d] with this scenario file" % (i, k)})
    if same_sig:
        ctx.notes.append("%d further lines fail with the signature of a reproduced failure (not re-run one by one)" % same_sig)
    # a line on which a predicate fails is reported as such; drift is what remains
    drift = sorted({d for d in got["DRIFT"] if (d[0], d[1]) not in cand})
    for (i, k, what) in drift[:5]:
        ln = line_at[(i, k)]
        print("MODEL-DRIFT property=C12 scenario=%d frame=%d %s: %s/%s observed stream=%s recv=%s" % (
            i, k, what, ln["fr"]["kind"], ln["fr"]["sub"], ln["obs"]["stream"], ln["obs"]["recv"]))
    if flaky:
        ctx.notes.append("%d candidate failures did not reproduce when the scenario was re-run alone: %s" % (len(flaky), flaky[:5]))
    if unconfirmed:
        ctx.notes.append("%d dead drivers did not reproduce alone: %s" % (
            len(unconfirmed), [(e["scn"], e["k"], e.get("panic", e["type"])) for e in unconfirmed[:5]]))
    if (flaky or unconfirmed) and not ctx.violations:
        raise vlib.Inconclusive("failures that do not reproduce in isolation: %d dead drivers, %d predicate failures (see %s)" % (
            len(unconfirmed), len(flaky), rp.dir))

    # 7. coverage obligations, measured on lines of the real node
    frames = [ln for i in order for ln in by[i] if ln["e"] == "frame"]
    live = [ln for ln in frames if ln["obs"]["alive"]]
    kinds_seen = {ln["fr"]["kind"] + "/" + ln["fr"]["sub"] for ln in live}
    need_kinds = {k + "/" + s for k, subs in tab.subkinds.items() for s in subs}
    classes_seen = {(f, v) for ln in frames if ln["fr"]["kind"] == "Rpc" and (ln["obs"]["recv"] > 0 or not ln["obs"]["alive"])
                    for f, v in ln["fr"]["f"].items()}
    need_classes = {(f, v) for f, vs in tab.fields.items() for v in vs}
    cfg_seen = {(f, v) for i in order for f, v in by[i][0]["cfg"].items()}
    need_cfg = {(f, v) for f, vs in tab.cfg.items() for v in vs}
    reach = {"reset_on_toolong": 0, "reset_on_garbage": 0, "eof_or_reset_on_truncated": 0, "rpc_reached_event_loop": 0,
             "hostile_message_delivered": 0, "hostile_message_rejected": 0, "iwant_sent_for_ihave": 0, "prune_sent_for_graft": 0,
             "message_sent_for_iwant": 0, "px_dial": 0, "partial_callback": 0, "testext_callback": 0, "seqno_validator_ran": 0,
             "filter_dropped_rpc": 0, "graylisted_rpc": 0,
             # flood-protection caps: filled exactly and then one more input inside the same heartbeat (the node's own counters
             # are read from the snapshot for this; they are evidence that the input hit the boundary, never a verdict)
             "ihave_budget_exact_then_more_scored": 0, "ihave_budget_exact_then_more_unscored": 0, "ihave_rpcs_over_cap": 0,
             "idontwant_rpcs_at_cap_then_more": 0, "px_flood_with_hanging_dials": 0, "px_flood_with_hanging_dials_scored": 0,
             # hand-offs from the event loop to other goroutines, overfull by remote input, with the liveness probe after it:
             # ONE RPC with more new valid messages than validateQ + workers + sendMsg can absorb (validation ending inside the
             # worker: signature only / inline validator; with an asynchronous validator; with the library's default capacities)
             "validation_pipeline_overfull_sync_then_probe": 0, "validation_pipeline_overfull_inline_then_probe": 0,
             "validation_pipeline_overfull_async_then_probe": 0, "validation_pipeline_overfull_default_caps_then_probe": 0,
             "peer_outbound_queue_overfull_then_probe": 0,
             # the seqno validator: distinct messages of one author with ONE numeric sequence number validated concurrently
             # (the loser is refused in the re-check under the write lock), then the probes (local Publish included)
             "seqno_recheck_refused_then_probes": 0, "seqno_sameprefix_inline_then_probes": 0, "seqno_replay_in_later_rpc": 0,
             # an unknown length-delimited field whose end offset is at the int overflow boundary, top level and nested
             "unknown_len_field_overflow_top_level": 0, "unknown_len_field_overflow_nested_message_types": 0,
             "known_len_field_overflow_message_types": 0, "malformed_frames_decoding": 0, "malformed_frames_not_decoding": 0}
    nested_unknown, nested_known = set(), set()
    for i in order:
        cfg = by[i][0]["cfg"]
        for ln in by[i][1:]:
            info, f, m, obs = ln.get("info", {}), ln["fr"]["f"], ln["fr"].get("m", {}), ln["obs"]
            if not obs["alive"]:
                continue
            if ln["fr"]["kind"] == "Malformed":
                reach["malformed_frames_decoding" if obs["dec"] == "yes" else "malformed_frames_not_decoding"] += 1
                if m["wt"] == "len" and m["len"] == "ovfl1" and m["pre"] == "known" and obs["stream"] == "reset":
                    if m["field"] == "unknown" and m["where"] == "rpc":
                        reach["unknown_len_field_overflow_top_level"] += 1
                    elif m["field"] == "unknown":
                        nested_unknown.add(m["where"])
                    else:
                        nested_known.add(m["where"])
            if ln["fr"]["kind"] == "Rpc" and obs["eval"] and obs["pub"] and obs["probe"] and f["nmsg"] not in ("0", "1"):
                if info.get("seqnoRecheckRefused", 0) > 0 and f["seqrel"] == "sameprefix":
                    reach["seqno_recheck_refused_then_probes"] += 1
                if cfg["validator"] == "inline" and f["seqrel"] == "sameprefix" and "Deliver:h" in " ".join(info.get("ev", [])):
                    reach["seqno_sameprefix_inline_then_probes"] += 1
                if cfg["validator"] != "none" and f["seqrel"] == "prevprefix" and ln["k"] > 0:
                    reach["seqno_replay_in_later_rpc"] += 1
    reach["unknown_len_field_overflow_nested_message_types"] = len(nested_unknown)
    reach["known_len_field_overflow_message_types"] = len(nested_known)
    if len(nested_unknown) < len(tab.mal["where"]) - 1 and not ctx.violations:
        raise vlib.Inconclusive("coverage obligation not met: overflowing unknown field never sent nested in %s" %
                                sorted(set(tab.mal["where"]) - {"rpc"} - nested_unknown))
    for i in order:
        cfg, pipe_caps = by[i][0]["cfg"], by[i][0].get("pipe", {})
        for ln in by[i][1:]:
            info, f, obs = ln.get("info", {}), ln["fr"]["f"], ln["obs"]
            if not obs["alive"] or not (obs["eval"] and obs["probe"]):
                continue
            ev = " ".join(info.get("ev", []))
            if cfg["hslow"] == "on" and "Drop:h" in ev:
                reach["peer_outbound_queue_overfull_then_probe"] += 1
            if (ln["fr"]["kind"] == "Rpc" and info.get("nmsgs", 0) > pipe_caps["q"] + pipe_caps["w"] + pipe_caps["s"]
                    and f["msgTopic"] == "known" and f["from"] in ("own", "other") and f["sig"] == "signed" and f["key"] in ("absent", "match")
                    and f["seqno"] in ("8", "9") and cfg["sign"] != "nosign" and not (cfg["score"] == "on" and cfg["hscore"] == "low")
                    and "validation queue full" in ev and "Deliver:h" in ev):
                kind = {"none": "sync", "inline": "inline", "seqno": "async"}[cfg["validator"]]
                reach["validation_pipeline_overfull_%s_then_probe" % kind] += 1
                if cfg["valq"] == "default":
                    reach["validation_pipeline_overfull_default_caps_then_probe"] += 1
    caps = tab.caps
    for i in order:
        fl = [ln for ln in by[i][1:] if ln["obs"]["alive"] and "iasked" in ln.get("info", {})]
        cfg = by[i][0]["cfg"]
        if cfg["router"] != "gossipsub":
            continue
        px_ok = cfg["score"] == "off" or cfg["hscore"] == "high"
        for a, b in zip(fl, fl[1:] + [None]):
            fa, ia = a["fr"]["f"], a["info"]
            if a["fr"]["kind"] == "Rpc" and fa["nihave"] != "0" and ia["peerhave"] > caps["MaxIHaveMessages"]:
                reach["ihave_rpcs_over_cap"] += 1
            if b is None or b["k"] != a["k"] + 1 or b["fr"]["kind"] != "Rpc":
                continue
            fb, ib = b["fr"]["f"], b["info"]
            same_hb = ib["ticks"] == ia["ticks"]
            if (same_hb and ia["iasked"] == caps["MaxIHaveLength"] and fb["nihave"] != "0" and fb["ihaveTopic"] == "known"
                    and fb["ihaveN"] != "0" and fb["ihaveId"] in ("unknown", "huge")
                    and ib["peerhave"] == ia["peerhave"] + 1 <= caps["MaxIHaveMessages"] and not (cfg["score"] == "on" and cfg["hscore"] == "low")):
                reach["ihave_budget_exact_then_more_scored" if cfg["score"] == "on" else "ihave_budget_exact_then_more_unscored"] += 1
            if same_hb and ia["peerdontwant"] == caps["MaxIDontWantMessages"] and fa["nidw"] != "0" and fb["nidw"] != "0":
                reach["idontwant_rpcs_at_cap_then_more"] += 1
        for a, b in zip(fl, fl[1:]):
            fa = a["fr"]["f"]
            if (a["fr"]["kind"] == "Rpc" and fa["pxId"] == "fresh" and fa["pxRec"] == "valid" and fa["nprune"] == "many"
                    and fa["pruneTopic"] == "known" and fa["npx"] != "0" and px_ok and cfg["hpeer"] == "known"
                    and a["info"]["dials"] == caps["Connectors"] and b["k"] == a["k"] + 1 and b["info"]["dials"] == 0):
                reach["px_flood_with_hanging_dials_scored" if cfg["score"] == "on" else "px_flood_with_hanging_dials"] += 1
    for ln in live:
        fr, obs, info, f = ln["fr"], ln["obs"], ln.get("info", {}), ln["fr"]["f"]
        ev = " ".join(info.get("ev", []))
        sent = " ".join(info.get("sent", []))
        cfg = by[ln["scn"]][0]["cfg"]
        reach["reset_on_toolong"] += fr["kind"] == "TooLong" and obs["stream"] == "reset"
        reach["reset_on_garbage"] += fr["kind"] == "Garbage" and obs["stream"] == "reset"
        reach["eof_or_reset_on_truncated"] += fr["kind"] == "Truncated" and obs["stream"] != "open"
        reach["rpc_reached_event_loop"] += fr["kind"] == "Rpc" and obs["recv"] > 0
        reach["hostile_message_delivered"] += "Deliver:h" in ev
        reach["hostile_message_rejected"] += "Reject:h" in ev
        reach["iwant_sent_for_ihave"] += "iwant=" in sent and f.get("nihave", "0") != "0"
        reach["prune_sent_for_graft"] += "prune=" in sent and f.get("ngraft", "0") != "0"
        reach["message_sent_for_iwant"] += "msgs=" in sent and f.get("niwant", "0") != "0"
        reach["px_dial"] += info.get("dials", 0) > 0 and f.get("npx", "0") != "0"
        reach["seqno_validator_ran"] += cfg["validator"] == "seqno" and ("Deliver:h" in ev or "validation ignored" in ev)
        reach["filter_dropped_rpc"] += cfg["filter"] == "limit" and f.get("nsub") == "many" and obs["recv"] > 0
        reach["graylisted_rpc"] += cfg["score"] == "on" and cfg["hscore"] == "low" and obs["recv"] > 0
    last = {}
    for ln in live:
        last[ln["scn"]] = ln
    reach["partial_callback"] = sum(1 for ln in last.values() if ln.get("info", {}).get("partialCalls", 0) > 0)
    reach["testext_callback"] = sum(1 for ln in last.values() if ln.get("info", {}).get("testExtCalls", 0) > 0)
    missing = []
    if need_kinds - kinds_seen:
        missing.append("frame kinds never replayed: %s" % sorted(need_kinds - kinds_seen))
    if need_classes - classes_seen:
        missing.append("field classes never handed to the event loop: %s" % sorted(need_classes - classes_seen)[:6])
    if need_cfg - cfg_seen:
        missing.append("configuration classes never used: %s" % sorted(need_cfg - cfg_seen)[:6])
    # seqno_validator_ran needs a live line: as long as D2 is open every such frame may kill the node, so it is not required
    optional = {"seqno_validator_ran"}
    zero = [k for k, v in reach.items() if not v and k not in optional]
    if zero:
        missing.append("mechanisms never reached: %s" % zero)
    if missing and not ctx.violations:
        raise vlib.Inconclusive("coverage obligation not met: " + "; ".join(missing))

    # evidence
    nontrivial = set()
    for ln in frames:
        if ln["fr"]["kind"] in ("TooLong", "Garbage", "Truncated", "Empty", "Malformed", "Dup") or ln["obs"]["recv"] > 0 or not ln["obs"]["alive"]:
            nontrivial.add(json.dumps([by[ln["scn"]][0]["cfg"], ln["fr"]], sort_keys=True))
    samples = []
    for want in ("TooLong", "Garbage", "Rpc"):
        for ln in live:
            if ln["fr"]["kind"] == want and (want != "Rpc" or ln["fr"]["f"]["nmsg"] != "0"):
                samples.append({"cfg": by[ln["scn"]][0]["cfg"], "frame": {"kind": ln["fr"]["kind"], "sub": ln["fr"]["sub"],
                                "non_blank_fields": {k: v for k, v in ln["fr"]["f"].items() if v != tab.blank[k]}},
                                "obs": ln["obs"], "info": {k: v for k, v in ln.get("info", {}).items() if k in ("bytes", "ev", "sent", "dials")}})
                break
    dead = [ln for ln in frames if not ln["obs"]["alive"]]
    if dead:
        d = dead[0]
        samples.append({"cfg": by[d["scn"]][0]["cfg"], "frame_non_blank": {k: v for k, v in d["fr"]["f"].items() if v != tab.blank.get(k)},
                        "obs": d["obs"], "panic": d["info"]["panic"], "fn": d["info"]["fn"]})
    cov = {"states": states, "transitions": transitions, "traces_validated_against_impl": len(order),
           "evaluations": len(frames), "distinct_nontrivial": len(nontrivial),
           "rule": "evaluation = one frame written to a real inbound stream of a real node and judged by WireTrace (P_C12_Alive, "
                   "P_C12_Isolation, P_C12_Liveness); non-trivial = a broken-framing frame, or an RPC that the node handed to its "
                   "event loop (Recv observed) or that killed it; distinct by (configuration classes, frame classes)",
           "samples": samples, "exhaustive": False, "generation": gstats,
           "frame_kinds": sorted(kinds_seen), "mechanisms_reached": reach,
           "field_classes_covered": "%d/%d" % (len(classes_seen & need_classes), len(need_classes)),
           "cfg_classes_covered": "%d/%d" % (len(cfg_seen & need_cfg), len(need_cfg)),
           "driver_restarts": rp.restarts, "crashes": sum(e["type"] == "crash" for e in events),
           "confirmation_runs": len(jobs), "drift_lines": len(drift), "drift_sample": drift[:5],
           "mc": {"MCWire": [mc.distinct, mc.generated], "bug_config_fails_P_C12_Alive": True}}
    return vlib.finish(ctx, LEVEL, cov, [
        "EXPLORATION, not proof: inputs are the class combinations (all pairs of classes; plus a seeded random sample in the thorough "
        "tier) and the sequences of <= 3 named frames that the specification generates; byte streams outside these classes are not covered",
        "one concretisation per class (e.g. 'huge' = 64 KiB, at most two such elements per RPC; 'many' = 10..40 elements)",
        "a panic is attributed to the library when the first frame of the panicking goroutine that belongs to the library or to the "
        "harness belongs to the library; the node runs in the driver's process, so a library panic kills the driver",
        "liveness is probed after quiescence (virtual time, synctest): eval round-trip within 5 s and delivery of one honest message, "
        "unless the node recorded that it throttled the honest peer (peer gater)",
        "goroutine interleavings are those the Go runtime happens to choose"])
