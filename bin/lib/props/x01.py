"""X01 - the gossipsub peer gater (peer_gater.go): random early drop in front of the validation queue.

spec/gater: Gater.tla (model at the grain of the code: one pure operator per critical section of peerGater, exact
fixed-point counters, properties X01.a-g in the header), GenGater.tla (environment: exhaustive model checking of the
properties, must-fail configurations, scenario generation, -simulate walks), GaterTrace.tla (deterministic replay of the
histories recorded on the REAL gater, stand-alone and inside a node; Bugs mode = coverage obligations by refutation),
GaterParams.tla / GaterParamsTrace.tla (parameter domain).  Drivers: harness/drivers/x01 (TestX01Unit, TestX01Node,
TestX01Params)."""
import concurrent.futures as cf
import json, os, random, re, threading
from .. import vlib

_TLC = threading.BoundedSemaphore(4)       # at most 4 TLC JVMs of this check at a time (the phases run side by side)


def tlc(ctx, *a, **kw):
    with _TLC:
        return vlib.run_tlc(ctx, *a, **kw)

LEVEL = "model_checking"
FAMILY = "gater"
S = 4096
PEERS3 = '{"p1", "p2", "p3"}'
IPS2 = '{"A", "B"}'

# parameter sets of GenGater.tla (ParamSets); kept in step by check_param_sets()
PS = {
    1: dict(gd=2, sd=2, dtz=S // 8, di=1000, t0=0, retain=2500, quiet=3000, thN=1, thD=4, dwd=8, iw=1, rw=16,
            tw={"t1": 2 * S, "t2": 0, "t3": S // 2}),
    2: dict(gd=4, sd=2, dtz=S // 4, di=1000, t0=0, retain=2000, quiet=2000, thN=1, thD=2, dwd=2, iw=2, rw=4,
            tw={"t1": S, "t3": 4 * S}),
    3: dict(gd=2, sd=4, dtz=S // 16, di=2000, t0=0, retain=0, quiet=1000, thN=1, thD=1, dwd=1, iw=1, rw=1,
            tw={"t1": 3 * S}),
    4: dict(gd=4, sd=2, dtz=S // 2, di=1000, t0=0, retain=1000, quiet=8000, thN=3, thD=2, dwd=4, iw=3, rw=2,
            tw={"t2": S // 4}),
}
# parameter sets for the in-node scenarios (retention far from the tick instants, a tiny chance for a bad IP)
NPS = {
    1: dict(gd=2, sd=2, dtz=S // 8, di=1000, t0=0, retain=2000, quiet=3000, thN=1, thD=4, dwd=2, iw=1, rw=1024,
            tw={"t1": 2 * S, "t2": 0}),
    2: dict(gd=2, sd=2, dtz=S // 4, di=1000, t0=0, retain=3000, quiet=2000, thN=1, thD=2, dwd=4, iw=2, rw=512,
            tw={"t1": S // 2, "t3": 3 * S}),
}
IPOF = {"p1": "A", "p2": "A", "p3": "B"}

# seeded defects of the MODEL.  At model level (MUST_FAIL) each one must violate a property inside small bounds
# (non-vacuity of the properties); at trace level (every name in BUGS) the REAL traces must refute the defective model
# (coverage obligation: a real, validated step exercised the clause).
BUGS = ["noStoreIP", "noExpireSet", "noGuard", "inCloseDecrements", "noDeleteOnClose", "noValidate", "noStamp",
        "queueFullAsReject", "throttledAsIgnore", "ignoreAsReject", "rejectAsIgnore", "noTopicWeight", "zeroWeightKept",
        "dupAsDeliver", "noDtz", "dtzLE", "expireLE", "decayRetained", "globalUsesSource", "sourceUsesGlobal",
        "skip:d", "skip:u", "skip:i", "skip:r", "skip:gval", "skip:gthr", "quietGE", "noQuiet", "thrZeroSkip", "noRatio",
        "ratioLE", "ratioInv", "dupWeight1", "swapIR", "noBias", "cmpInv"]
# bug -> (ps, warm, L, property that must fail); quick tier runs the starred subset
MUST_FAIL = [
    ("quietGE", 1, 1, 3, "P_X01ab_Decision", True), ("noQuiet", 3, 1, 3, "P_X01ab_Decision", False),
    ("thrZeroSkip", 4, 1, 2, "P_X01ab_Decision", False), ("ratioLE", 1, 1, 3, "P_X01ab_Decision", False),
    ("ratioInv", 1, 1, 2, "P_X01ab_Decision", False), ("noRatio", 1, 1, 3, "P_X01ab_Decision", False),
    ("noBias", 1, 1, 2, "P_X01ab_Decision", True), ("cmpInv", 1, 1, 2, "P_X01ab_Decision", False),
    ("dupWeight1", 1, 2, 2, "P_X01ab_Decision", False), ("swapIR", 1, 2, 2, "P_X01ab_Decision", False),
    ("queueFullAsReject", 1, 0, 3, "P_X01_Steps", True), ("throttledAsIgnore", 1, 0, 3, "P_X01_Steps", False),
    ("noStoreIP", 1, 0, 3, "P_X01d_Share", True), ("decayRetained", 1, 3, 3, "P_X01_Steps", True),
    ("expireLE", 1, 3, 3, "P_X01_Steps", False), ("noExpireSet", 1, 3, 3, "P_X01_Steps", False),
    ("noDeleteOnClose", 1, 0, 3, "P_X01e_NoLeak", True), ("noGuard", 1, 0, 3, "P_X01e_Conn", False),
    ("inCloseDecrements", 1, 0, 3, "P_X01e_Conn", False),
]
INVS = ["P_X01ab_Decision", "P_X01b_GoodNeverThrottled", "P_X01b_AlwaysAChance", "P_X01a_QuietOff", "P_X01d_Share",
        "P_X01e_NoLeak", "P_X01e_Conn", "P_X01d_SameChance"]
COV_NAMES = {
    1: "AcceptFrom after the quiet period elapsed", 2: "AcceptFrom exactly Quiet after the last throttle (gate still on)",
    3: "AcceptFrom with the throttle counter decayed to zero inside the quiet period", 4: "throttle/validate below Threshold",
    5: "throttle/validate exactly at Threshold (gate on)", 6: "gate on, IP without history", 7: "draw below the chance (AcceptAll)",
    8: "draw above the chance (AcceptControl)", 9: "decision for a peer whose record is shared with a colocated peer",
    10: "gate on, deliveries only", 11: "per-IP counter decays to zero", 12: "global counter decays to zero",
    13: "expired record dropped by a tick", 14: "tick exactly at the expiry instant (record kept)",
    15: "retained record frozen across a tick", 16: "returning peer finds the retained record", 17: "delivery with a topic weight",
    18: "delivery on a topic with weight 0 (counts 1)", 19: "delivery on a topic without weight", 20: "unmatched outbound close",
    21: "inbound close while the record counts a connection", 22: "inbound close of the last reference",
    23: "reject reasons other than validation failed", 24: "IP change",
    25: "node: throttled probe RPC with GRAFT and IWANT", 26: "node: direct peer while the gater would throttle",
    27: "node: graylisted peer", 28: "node: payload of a throttled RPC re-sent by an accepted peer",
    29: "node: router decision for a direct peer", 30: "node: router decision for a graylisted peer",
    31: "node: probe RPC accepted after the quiet period", 32: "node: counters fed by the real validation pipeline",
}
NEED_COV = list(range(1, 33))


def consts(ps, L, warm=0, bug="none", patched=True, late=False, maxnow=8500, unmatched=1, moves=1, sim=False, full=False):
    return {"Peers": PEERS3, "IPs": IPS2, "BugC": '"%s"' % bug, "Patched": patched, "PS": ps, "L": L, "Warm": warm,
            "MaxNow": maxnow, "Late": late, "MaxUnmatched": unmatched, "MaxMoves": moves, "Sim": sim, "Full": full}


def printed(out, tag):
    """JSON payloads of PrintT(<<tag, ToJson(x)>>), whether or not TLC wrapped the tuple over several lines."""
    res = []
    for m in re.finditer(r'<<\s*"%s",\s*"((?:[^"\\]|\\.)*)"\s*>>' % tag, out, re.S):
        res.append(json.loads(m.group(1).replace('\\"', '"').replace("\\\\", "\\")))
    return res


# --------------------------------------------------------------------------------------------- model level

def model_check(ctx):
    jobs = []
    mc_plan = [("mc-ps1", consts(1, 3)), ("mc-ps1-w1", consts(1, 2, warm=1, full=True)), ("mc-ps2-w2", consts(2, 2, warm=2)),
               ("mc-ps3-w3", consts(3, 2, warm=3))]
    if ctx.thorough:
        mc_plan = [("mc-ps1", consts(1, 5)), ("mc-ps2", consts(2, 5)), ("mc-ps3", consts(3, 5, maxnow=12500)), ("mc-ps4", consts(4, 4)),
                   ("mc-ps1-w1", consts(1, 4, warm=1)), ("mc-ps1-w1-full", consts(1, 3, warm=1, full=True)), ("mc-ps2-w2", consts(2, 4, warm=2)), ("mc-ps3-w3", consts(3, 4, warm=3)),
                   ("mc-ps4-w4", consts(4, 4, warm=4)), ("mc-ps3-w1", consts(3, 4, warm=1)), ("mc-ps4-w1", consts(4, 4, warm=1))]
    for name, c in mc_plan:
        jobs.append(("mc", name, c, INVS, None))
    # the pinned code's bookkeeping must violate the ideal predicates (findings D14 / X01-F1 exist in the model)
    for inv in ("P_X01e_NoLeak", "P_X01d_Share", "P_X01e_Conn", "P_X01d_SameChance") if ctx.thorough else ("P_X01e_NoLeak", "P_X01d_SameChance"):
        jobs.append(("fail", "asfound-" + inv, consts(1, 4, patched=False), [inv], inv))
    jobs.append(("fail", "late-verdict", consts(1, 4, late=True), ["P_X01e_NoLeak"], "P_X01e_NoLeak"))
    for bug, ps, warm, L, prop, quick in MUST_FAIL:
        if quick or ctx.thorough:
            jobs.append(("fail", "bug-" + bug.replace(":", "_"), consts(ps, L, warm=warm, bug=bug), [prop], prop))
    # reachability of the interesting situations (each NV_* MUST be violated)
    nvs = [("NV_Throttled", consts(1, 2, warm=1)), ("NV_Shared", consts(1, 3)), ("NV_Retained", consts(1, 4, warm=3)),
           ("NV_Zeroed", consts(4, 2, warm=1))]
    for nv, c in nvs if ctx.thorough else nvs[:1]:
        jobs.append(("fail", "nv-" + nv, c, [nv], nv))

    def one(job):
        kind, name, c, invs, prop = job
        if invs == ["P_X01_Steps"]:
            cfg = vlib.cfg_text(constants=c, properties=invs, view="StateView")
        else:
            cfg = vlib.cfg_text(constants=c, invariants=invs, properties=["P_X01_Steps"] if len(invs) > 1 else [], view="StateView")
        return job, tlc(ctx, FAMILY, "GenGater", cfg, timeout=1500 if ctx.thorough else 400, name=name,
                                 workers=2 if ctx.thorough else 1, heap="3g")

    states = trans = 0
    mcs, failed = {}, []
    with cf.ThreadPoolExecutor(max_workers=4) as ex:
        for (kind, name, c, invs, prop), r in ex.map(one, jobs):
            if kind == "mc":
                vlib.require_mc_ok(ctx, r, "GenGater %s" % name)
                states += r.distinct; trans += r.generated
                mcs[name] = [r.distinct, r.generated]
            else:
                vlib.require_mc_fails(ctx, r, "GenGater %s (must fail)" % name, prop)
                failed.append(name)
    return states, trans, mcs, failed


# --------------------------------------------------------------------------------------------- scenarios

def check_param_sets(scns):
    for s in scns:
        if s["par"] != PS[s["ps"]]:
            raise vlib.Inconclusive("parameter set %d of GenGater.tla and of x01.py differ" % s["ps"])


def E(e, **kw):
    d = {"e": e}
    d.update(kw)
    return d


def directed():
    """Hand-written histories that reach the corners the coverage obligations name (inputs only)."""
    oo, oc = lambda p: E("outopen", p=p), lambda p: E("outclose", p=p)
    rej = lambda p, r="validation failed": E("reject", p=p, reason=r)
    acc = lambda p, k: E("accept", p=p, k=k)
    adv = lambda ms=1000: E("adv", ms=ms)
    full, thr = "validation queue full", "validation throttled"
    D = []

    def add(tag, ps, acts, ipof=None):
        D.append({"ps": ps, "warm": 0, "par": PS[ps], "ipof": ipof or IPOF, "acts": acts, "tag": "directed:" + tag})

    # quiet boundary: exactly Quiet after the last throttle the gate is still on, one second later it is off
    add("quiet", 1, [oo("p1"), E("validate")] + [rej("p1", full), rej("p1", thr)] * 2 + [rej("p1")] * 4 + [adv()] * 3 +
        [acc("p1", 63), acc("p1", 0), adv(), acc("p1", 63)])
    # the throttle counter decays to zero inside the quiet period
    add("throttle-zero", 4, [oo("p1"), rej("p1", full), rej("p1"), rej("p1"), adv(), acc("p1", 63), acc("p1", 0)])
    # ratio exactly at, then below the threshold
    add("ratio", 1, [oo("p1"), rej("p1")] + [E("validate")] * 4 + [rej("p1", full), acc("p1", 63), acc("p1", 3), acc("p1", 4),
                                                                    E("validate"), acc("p1", 63)])
    add("ratio-ps2", 2, [oo("p3"), rej("p3", "invalid signature"), E("validate"), E("validate"), rej("p3", thr), acc("p3", 63),
                         E("validate"), acc("p3", 63), rej("p3", full), rej("p3", full), acc("p3", 63), acc("p3", 12), acc("p3", 13)])
    # duplicate weight 1/8: eight duplicates weigh one
    add("dup-weight", 1, [oo("p1"), rej("p1", full)] + [E("dup", p="p1")] * 8 + [acc("p1", 31), acc("p1", 32), adv(), acc("p1", 63),
                                                                                 acc("p1", 41), acc("p1", 43)])
    # ignore weight 2, reject weight 4 (swapped weights show)
    add("ignore-vs-reject", 2, [oo("p1"), rej("p1", thr), rej("p1", "validation ignored"), acc("p1", 21), acc("p1", 22),
                                rej("p1", "unexpected signature"), acc("p1", 9), acc("p1", 10)])
    # global and per-IP decay differ
    add("decays", 2, [oo("p1")] + [E("validate")] * 4 + [rej("p1", full)] * 4 + [rej("p1")] * 2 + [adv(), acc("p1", 63), adv(), adv()])
    add("decays-ps3", 3, [oo("p1")] + [E("validate")] * 4 + [rej("p1", full)] * 4 + [rej("p1")] * 4 + [adv(), adv(), acc("p1", 63), adv(), adv()])
    # one record per IP: the colocated peer pays, the other IP does not; deliveries only are never throttled
    add("sharing", 1, [oo("p1"), oo("p2"), oo("p3"), rej("p3", full), rej("p2"), acc("p1", 63), acc("p1", 3), acc("p3", 63),
                       E("deliver", p="p3", topic="t1"), acc("p3", 63), E("deliver", p="p1", topic="t3"), acc("p2", 5), acc("p2", 6)])
    # retention: frozen, tick exactly at the expiry instant keeps, the next one drops; a returning peer finds / does not find it
    add("retention", 1, [oo("p1")] + [rej("p1")] * 8 + [rej("p1", full), oc("p1"), adv(), adv(), adv(), oo("p1"), acc("p1", 63),
                                                        oc("p1"), adv(3000), adv(), oo("p1"), rej("p1", full), acc("p1", 63)])
    add("retention-zero", 3, [oo("p1"), rej("p1"), oc("p1"), adv(), oo("p1"), oc("p1"), adv(), oo("p1")])
    add("retention-ps2", 2, [oo("p3"), rej("p3"), rej("p3", thr), oc("p3"), adv(), adv(), oo("p3"), acc("p3", 63), oc("p3"), adv(3000), oo("p3")])
    # inbound-only peers, inbound close with and without a connection counted, IP change while away
    add("inbound", 1, [E("inopen", p="p2"), rej("p2", "invalid signature"), E("inclose", p="p2"), E("setip", p="p2", ip="B"),
                       E("inopen", p="p2"), E("deliver", p="p2", topic="t3"), oo("p2"), E("inclose", p="p2"), oc("p2"), adv(3000), adv()])
    # late verdict (D14), then the record expires under the entry
    add("late-verdict", 1, [oo("p1"), oc("p1"), rej("p1"), adv(3000), adv(), oo("p1"), rej("p1"), adv(), adv()], )
    # unmatched outbound close (peer blacklisted / dead while its stream was being opened)
    add("unmatched", 1, [E("inopen", p="p2"), E("dup", p="p2"), oc("p2"), oo("p1"), E("inopen", p="p2"), E("dup", p="p2"), oc("p2"), adv(3000), adv()])
    # every reject reason
    reasons = ["validation failed", "invalid signature", "missing signature", "unexpected signature", "unexpected auth info",
               "blacklisted peer", "blacklisted source", "self originated message", "validation ignored", "validation queue full",
               "validation throttled"]
    add("reasons", 1, [oo("p1")] + [rej("p1", r) for r in reasons] + [acc("p1", 63), adv()])
    add("reasons-ps4", 4, [oo("p3")] + [rej("p3", r) for r in reversed(reasons)] + [acc("p3", 63), acc("p3", 0), adv(), acc("p3", 2)])
    # topic weights: 2, 0 (counts 1), 1/2, absent (1)
    add("topics", 1, [oo("p1")] + [E("deliver", p="p1", topic=t) for t in ("t1", "t2", "t3", "t4")] +
        [rej("p1", thr), E("dup", p="p1"), acc("p1", 63), adv(), adv(), adv(), adv()])
    # decay to zero, per IP and global
    add("zeroing", 1, [oo("p1"), E("deliver", p="p1", topic="t3"), E("validate"), rej("p1", full), E("dup", p="p1"),
                       rej("p1", "validation ignored"), adv(), adv(), adv(), adv()])
    return D


def generate(ctx):
    ex_plan = [("ex-ps1", consts(1, 3, patched=False), 1200), ("ex-ps1-w1", consts(1, 2, warm=1, patched=False), 700),
               ("ex-ps2-w2", consts(2, 2, warm=2, patched=False), 500), ("ex-ps3-w3-late", consts(3, 2, warm=3, patched=False, late=True), 400),
               ("ex-ps4-w1", consts(4, 2, warm=1, patched=False), 300)]
    sim_n, sim_keep, sim_L = 120, 100, [16]
    if ctx.thorough:
        ex_plan = [("ex-ps%d" % ps, consts(ps, 3, patched=False), 4000) for ps in (1, 2, 3, 4)]
        ex_plan += [("ex-ps%d-w%d" % (ps, w), consts(ps, 3, warm=w, patched=False), 3000)
                    for ps, w in ((1, 1), (1, 2), (1, 4), (2, 1), (2, 2), (3, 1), (4, 1), (4, 4))]
        ex_plan += [("ex-ps%d-w%d-late" % (ps, w), consts(ps, 3, warm=w, patched=False, late=True), 2500) for ps, w in ((1, 3), (2, 3), (3, 3))]
        sim_n, sim_keep, sim_L = 600, 500, [14, 22]
    sim_plan = [("sim-ps%d-L%d" % (ps, L), consts(ps, L, patched=False, late=(ps == 3), maxnow=40500, unmatched=2, moves=2, sim=True), L)
                for ps in ((1, 2, 3, 4) if ctx.thorough else (1 + ctx.seed % 2, 3 + ctx.seed % 2)) for L in sim_L]
    rnd = random.Random(ctx.seed)

    def gen(job):
        kind, name, c, x = job
        if kind == "ex":
            cfg = vlib.cfg_text(constants=c, invariants=["Emit"], view="GenView")
            return job, tlc(ctx, FAMILY, "GenGater", cfg, timeout=1500, name=name, heap="4g", workers=2 if ctx.thorough else 1)
        cfg = vlib.cfg_text(constants=c, invariants=["Emit"])
        return job, tlc(ctx, FAMILY, "GenGater", cfg, mode="sim", simulate="num=%d" % sim_n, depth=x + 2, timeout=900,
                                 name=name, workers=1, heap="2g")

    jobs = [("ex", n, c, lim) for n, c, lim in ex_plan] + [("sim", n, c, L) for n, c, L in sim_plan]
    scns, states, trans, n_ex, exhaustive = [], 0, 0, 0, True
    with cf.ThreadPoolExecutor(max_workers=4) as ex:
        results = list(ex.map(gen, jobs))
    for (kind, name, c, x), g in results:
        got = sorted(printed(g.out, "SCN"), key=lambda s: json.dumps(s["acts"], sort_keys=True))
        if kind == "ex":
            vlib.require_mc_ok(ctx, g, "GenGater %s" % name)
            states += g.distinct
            if len(got) > x:
                exhaustive = False
                rnd.shuffle(got)
                got = got[:x]
            n_ex += len(got)
        else:
            if g.timed_out or g.errors:
                raise vlib.Inconclusive("simulation %s failed: %s (see %s)" % (name, g.errors[:2], g.dir))
            rnd.shuffle(got)
            got = got[:sim_keep]
        if not got:
            raise vlib.Inconclusive("generator %s emitted nothing (see %s)" % (name, g.dir))
        m = re.search(r"The number of states generated: (\d+)", g.out)
        trans += g.generated or (int(m.group(1)) if m else 0)
        for s in got:
            s["tag"] = name
        scns += got
    check_param_sets(scns)
    seen, uniq = set(), []
    for s in directed() + scns:
        k = json.dumps([s["ps"], s["ipof"], s["acts"]], sort_keys=True)
        if k not in seen:
            seen.add(k); uniq.append(s)
    return uniq, n_ex, exhaustive, states, trans


def node_scenarios(ctx):
    """Programs for the in-node driver: the same skeleton (good traffic, a bad colocated peer, overload, probes under
    throttling / direct / graylisted, release, quiet period, disconnects and retention), varied by seed."""
    rnd = random.Random(ctx.seed * 7919 + 11)
    out = []
    n = 4 if not ctx.thorough else 14
    for v in range(n):
        nps = 1 + v % 2
        par = NPS[nps]
        share = v % 3 != 2                     # p2 (the offender) shares p1's address
        ipof = {"p1": "A", "p2": "A" if share else "D", "p3": "B", "p4": "C"}
        victim = "p1" if share else "p2"       # the peer whose RPCs the gater throttles
        acts = []
        A = acts.append
        own = [0]

        def probe(p, g):
            own[0] += 1
            o = "own%d" % own[0]
            A({"a": "publish", "t": "t1", "m": o})
            A({"a": "rpcx", "p": p, "msgs": [{"m": "prb%d" % own[0], "t": "t1"}], "graft": g, "iwant": o, "probe": True})
            return "prb%d" % own[0]

        for t in ["t1", "t2", "t3", "ta", "g1", "g2", "g3", "g4", "g5", "g6", "g7"]:
            A({"a": "subscribe", "t": t})
        for p in ["p1", "p2", "p3", "p4"]:
            A({"a": "peer", "p": p, "proto": rnd.choice(["v11", "v12"]), "dir": rnd.choice(["in", "out"]), "subs": ["t1", "t2", "ta"]})
        if v % 2 == 1 or ctx.thorough:
            # an inbound-only peer: the node's own stream to p5 is held back; its verdicts create an entry that only the
            # closing of the INBOUND stream removes
            ipof["p5"] = "E"
            A({"a": "hold", "p": "p5", "on": True})
            A({"a": "peer", "p": "p5", "proto": "v11", "dir": "in", "subs": ["t1"]})
            A({"a": "msg", "p": "p5", "t": "t1", "m": "rejh1"})
            A({"a": "closeOut", "p": "p5"})
            A({"a": "openOut", "p": "p5"})
            A({"a": "msg", "p": "p5", "t": "t1", "m": "rejh2"})
            A({"a": "hold", "p": "p5", "on": False})
        good = [("t1", "acc1"), ("t2", "acc2")] + ([("t3", "acc3x")] if nps == 2 else [])
        for t, m in good:
            A({"a": "msg", "p": "p3", "t": t, "m": m})
        nrej = rnd.randint(3, 5)
        for i in range(nrej):
            A({"a": "msg", "p": "p2", "t": rnd.choice(["t1", "t2"]), "m": "rej%d" % i})
        A({"a": "msg", "p": "p2", "t": "t1", "m": "ign1"})
        A({"a": "resend", "p": "p2", "m": "acc1"})                       # duplicate
        A({"a": "msg", "p": "p2", "t": "t1", "m": "bad1", "badsig": True})   # invalid signature
        if v % 2 == 0:
            # asynchronous validator of concurrency one: the second message is "validation throttled"
            A({"a": "block", "i": 1, "on": True})
            A({"a": "msg", "p": "p3", "t": "ta", "m": "asy1"})
            A({"a": "msg", "p": "p3", "t": "ta", "m": "asy2"})
            A({"a": "block", "i": 1, "on": False})
        A({"a": "block", "i": 0, "on": True})
        for i in range(rnd.randint(5, 7)):
            A({"a": "msg", "p": "p3", "t": "t1", "m": "ovl%d" % i})
        first = probe(victim, "g1")
        A({"a": "acc", "p": victim, "k": 0}); A({"a": "acc", "p": victim, "k": 1}); A({"a": "acc", "p": victim, "k": 63})
        A({"a": "acc", "p": "p3", "k": 63}); A({"a": "acc", "p": "p4", "k": 63})
        probe("p3", "g2")
        A({"a": "direct", "p": "p2", "on": True})
        A({"a": "acc", "p": "p2", "k": 63})
        probe("p2", "g3")
        A({"a": "direct", "p": "p2", "on": False})
        A({"a": "score", "p": victim, "v": -10})
        A({"a": "acc", "p": victim, "k": 0})
        probe(victim, "g4")
        A({"a": "score", "p": victim, "v": 0})
        second = probe(victim, "g5")
        A({"a": "block", "i": 0, "on": False})
        A({"a": "direct", "p": "p4", "on": True})
        A({"a": "resend", "p": "p4", "m": first, "expect": "fresh"})
        A({"a": "resend", "p": "p4", "m": second, "expect": "fresh"})
        for i in range(par["quiet"] // 1000 + 1):
            A({"a": "hb"})
        probe(victim, "g6")
        order = ["p2", "p1"] if v % 4 < 2 else ["p1", "p2"]
        A({"a": rnd.choice(["down", "down", "closeOut"]), "p": order[0]})
        A({"a": "hb"})
        A({"a": "down", "p": order[1]})
        for i in range(par["retain"] // 1000 + 1):
            A({"a": "hb"})
        A({"a": "peer", "p": "p1", "proto": "v11", "dir": "in", "subs": ["t1"]})
        A({"a": "msg", "p": "p1", "t": "t1", "m": "rejz"})
        out.append({"par": par, "ipof": ipof, "acts": acts, "tag": "node:v%d" % v})
    return out


# --------------------------------------------------------------------------------------------- replay and judgement

def run_driver(ctx, test, scns, extra_env=None):
    vin = os.path.join(ctx.work, test + ".in.ndjson")
    outp = os.path.join(ctx.work, test + ".ndjson")
    marker = os.path.join(ctx.work, test + ".marker")
    vlib.write_ndjson(vin, scns)
    env = {"VERIF_IN": vin, "VERIF_OUT": outp, "VERIF_MARKER": marker, "VERIF_SINK": os.path.join(ctx.work, test + ".sink.ndjson"),
           "GODEBUG": "randseednop=0"}
    env.update(extra_env or {})
    r = vlib.run_go(ctx, "./drivers/x01/", "^%s$" % test, env=env, timeout=1500)
    if r["rc"] != 0:
        # a panic inside the library is an observation of the real code if the scenario alone reproduces it
        at = int(open(marker).read() or -1) if os.path.exists(marker) else -1
        if "panic:" in r["out"] and 0 <= at < len(scns) and test != "TestX01Params":
            vlib.write_ndjson(vin + ".one", [scns[at]])
            env2 = dict(env, VERIF_IN=vin + ".one", VERIF_OUT=outp + ".one")
            r2 = vlib.run_go(ctx, "./drivers/x01/", "^%s$" % test, env=env2, timeout=600, name=test + "-one")
            lib = re.search(r"go-libp2p-pubsub[^\n]*/(peer_gater|gossipsub|pubsub|validation|trace)\.go:\d+", r2["out"]) or \
                re.search(re.escape(os.path.realpath(vlib.REPO)) + r"/\w+\.go:\d+", r2["out"])
            if r2["rc"] != 0 and "panic:" in r2["out"] and lib:
                m = re.search(r"panic: ([^\n]*)", r2["out"])
                vlib.add_violation(ctx, "P_X01_NoPanic", {"kind": "panic", "driver": test, "where": lib.group(0).split("/")[-1].split(":")[0]},
                                   "the library panicked while replaying scenario %d (%s): %s" % (at, scns[at].get("tag"), m.group(1) if m else "?"),
                                   {"driver": test, "scenario": scns[at]})
                return None
        raise vlib.Inconclusive("driver %s failed (rc=%s, see %s)" % (test, r["rc"], r["log"]))
    if not os.path.exists(outp) or os.path.getsize(outp) == 0:
        raise vlib.Inconclusive("driver %s produced no trace (see %s)" % (test, r["log"]))
    return outp


def split_file(path):
    """[(scenario index, [raw lines])] of a driver output."""
    res, cur = [], None
    with open(path) as f:
        for text in f:
            if not text.strip():
                continue
            if text.startswith('{"e":"reset"'):
                cur = []
                res.append(cur)
            if cur is None:
                raise vlib.Inconclusive("trace %s does not start with a reset line" % path)
            cur.append(text)
    return res


def trace_cfg(patched, bugs):
    return vlib.cfg_text(spec="TraceSpec", constants={"Peers": '{"p1", "p2", "p3", "p4", "p5"}', "IPs": '{"A", "B", "C", "D", "E", "U"}',
                                                      "Patched": patched, "Bugs": "{" + ", ".join('"%s"' % b for b in bugs) + "}"},
                         constraint="HW", postcondition="Accepted")


def judge(ctx, name, traces, patched=False):
    """Replay traces (list of lists of raw lines) through GaterTrace; returns (viols, ideals, cov, states).
    viols / ideals: (scenario position in `traces`, line offset inside the scenario, payload)."""
    nchunks = 4 if len(traces) > 40 else 1
    per = (len(traces) + nchunks - 1) // nchunks
    chunks = [list(range(i, min(i + per, len(traces)))) for i in range(0, len(traces), per)]

    def one(idx):
        path = os.path.join(ctx.work, "%s-chunk-%d.ndjson" % (name, idx[0]))
        owner = []
        with open(path, "w") as f:
            for i in idx:
                for k, text in enumerate(traces[i]):
                    f.write(text)
                    owner.append((i, k))
        res = tlc(ctx, FAMILY, "GaterTrace", trace_cfg(patched, ["none"]), mode="trace", files={"trace.ndjson": path},
                           timeout=1500, name="%s-%d" % (name, idx[0]), heap="3g")
        if res.hw is None or res.hw[0] < res.hw[1] or not res.no_error:
            raise vlib.Inconclusive("trace replay did not reach the end of the file (see %s/tlc.out): hw=%s errors=%s" %
                                    (res.dir, res.hw, res.errors[:2]))
        cov = {int(a): int(b) for a, b in re.findall(r'<<"COV", (\d+), (\d+)>>', res.out)}
        v = [(owner[p["line"] - 1], p) for p in printed(res.out, "VIOL")]
        d = [(owner[p["line"] - 1], p) for p in printed(res.out, "IDEAL")]
        os.remove(path)
        return v, d, cov, res.distinct

    viols, ideals, cov, states = [], [], {}, 0
    with cf.ThreadPoolExecutor(max_workers=4) as ex:
        for v, d, c, st in ex.map(one, chunks):
            viols += v; ideals += d; states += st
            for k, n in c.items():
                cov[k] = cov.get(k, 0) + n
    return viols, ideals, cov, states


def refute(ctx, traces):
    """Coverage obligations by refutation: every seeded defect of the model must disagree with some real line."""
    path = os.path.join(ctx.work, "refute.ndjson")
    with open(path, "w") as f:
        for t in traces:
            f.writelines(t)
    res = tlc(ctx, FAMILY, "GaterTrace", trace_cfg(False, BUGS), mode="trace", files={"trace.ndjson": path},
                       timeout=1500, name="refute", heap="3g", workers=4)
    if not res.no_error:
        raise vlib.Inconclusive("refutation run failed (see %s/tlc.out): %s" % (res.dir, res.errors[:2]))
    got = set(re.findall(r'<<"REFUTED", "([^"]+)", \d+>>', res.out))
    return got, res.distinct


def report(ctx, src, scns, traces, viols, ideals):
    for (i, k), p in viols:
        f = p["f"]
        pred, kind = f[0], f[1]
        ev = json.loads(traces[i][k])
        scn = scns[json.loads(traces[i][0])["scn"]]
        if pred == "MACH":
            raise vlib.Inconclusive("%s scenario %s, line %d: %s (%s)" % (src, scn.get("tag"), k, kind, json.dumps(f[2:])[:200]))
        sig = {"src": src, "kind": kind, "event": ev.get("e")}
        small = {x: ev[x] for x in ev if x != "st"}
        vlib.add_violation(ctx, pred, sig, "%s history %s, line %d %s: %s; expected/observed = %s" % (
            src, scn.get("tag"), k, json.dumps(small), kind, json.dumps(f[2:])[:500]),
            {"driver": "TestX01Unit" if src == "unit" else "TestX01Node", "scenario": scn, "failing_line": k, "observed": ev})
    seen_ideal = {}
    for (i, k), p in ideals:
        key = json.dumps(sorted((x[0], x[1]) for x in p["f"]))
        seen_ideal[key] = seen_ideal.get(key, 0) + 1
        if seen_ideal[key] > 25:       # (thousands of histories re-observe the known findings: keep the records few)
            continue
        ev = json.loads(traces[i][k])
        scn = scns[json.loads(traces[i][0])["scn"]]
        for pred, cond, who in p["f"]:
            sig = {"src": src, "kind": "ideal-bookkeeping", "cond": cond}
            small = {x: ev[x] for x in ev if x != "st"}
            vlib.add_violation(ctx, pred, sig, "%s history %s, after line %d %s: %s fails for %s on the gater's real bookkeeping (cause: %s)" % (
                src, scn.get("tag"), k, json.dumps(small), pred, who, cond),
                {"driver": "TestX01Unit" if src == "unit" else "TestX01Node", "scenario": scn, "failing_line": k, "observed": ev.get("st")})


def params_part(ctx):
    g = tlc(ctx, FAMILY, "GaterParams", vlib.cfg_text(invariants=["Emit"]), timeout=300, name="params-grid", workers=1)
    vlib.require_mc_ok(ctx, g, "GaterParams grid")
    vecs = sorted(printed(g.out, "VEC"), key=lambda v: json.dumps(v, sort_keys=True))
    if len(vecs) < 100:
        raise vlib.Inconclusive("GaterParams emitted only %d vectors" % len(vecs))
    outp = run_driver(ctx, "TestX01Params", vecs)
    rows = vlib.read_ndjson(outp)
    if len(rows) != len(vecs):
        raise vlib.Inconclusive("TestX01Params judged %d of %d vectors" % (len(rows), len(vecs)))
    res = tlc(ctx, FAMILY, "GaterParamsTrace", "GaterParamsTrace.cfg", mode="trace", files={"trace.ndjson": outp},
                       timeout=300, name="params-judge")
    if res.hw is None or res.hw[0] < res.hw[1] or not res.no_error:
        raise vlib.Inconclusive("parameter judgement did not finish (see %s/tlc.out)" % res.dir)
    hits = {"accepted": sum(1 for r in rows if r["validate"]), "refused": sum(1 for r in rows if not r["validate"])}
    for p in printed(res.out, "VIOL"):
        pred, kind, off = p["f"]
        nan = sorted(f for f in off if p["v"][f] == "NaN")
        sig = {"src": "params", "kind": kind, "fields": "+".join(nan if kind == "nan-accepted" else sorted(off))}
        vlib.add_violation(ctx, pred, sig, "parameter vector %s: %s" % (json.dumps({f: p["v"][f] for f in off}), kind),
                           {"driver": "TestX01Params", "vector": p["v"], "observed": rows[p["line"] - 1]})
    if not hits["accepted"] or not hits["refused"]:
        raise vlib.Inconclusive("parameter grid is one-sided: %s" % hits)
    return len(vecs), hits, g.distinct


def nontrivial(raw):
    """A history is non-trivial when the gater throttled (an AcceptControl answer), or a tick changed a record
    (decay / expiry), or two peers shared a record."""
    ctl = shared = ticked = False
    for text in raw[1:]:
        if '"res":"ctl"' in text or '"thr":1' in text:
            ctl = True
        if '"e":"adv"' in text or '"a":"hb"' in text:
            ticked = True
        if re.search(r'"peers":\["p\d","p\d"', text):
            shared = True
    return ctl or (ticked and shared)


def unit_part(ctx):
    scns, n_ex, exhaustive, gstates, gtrans = generate(ctx)
    ctx.log("generated %d histories (%d from exhaustive enumeration, all kept=%s, %d directed)" % (
        len(scns), n_ex, exhaustive, sum(1 for s in scns if s["tag"].startswith("directed"))))
    outp = run_driver(ctx, "TestX01Unit", scns)
    return judged(ctx, "unit", outp, scns) + (n_ex, exhaustive, gstates, gtrans)


def node_part(ctx):
    scns = node_scenarios(ctx)
    outp = run_driver(ctx, "TestX01Node", scns)
    return judged(ctx, "node", outp, scns)


def judged(ctx, src, outp, sc):
    """-> (src, scenarios, traces, viols, ideals, cov, states)"""
    if outp is None:
        return (src, sc, [], [], [], {}, 0)
    traces = split_file(outp)
    if len(traces) != len(sc):
        raise vlib.Inconclusive("driver replayed %d of %d %s histories" % (len(traces), len(sc), src))
    viols, ideals, c, st = judge(ctx, "tv-" + src, traces)
    if any(p["f"][0] != "MACH" for _, p in viols):
        # the tree may carry the patch proposed for X01-F1: judge against the repaired bookkeeping before reporting
        v2, i2, c2, st2 = judge(ctx, "tvp-" + src, traces, patched=True)
        if not v2:
            ctx.notes.append("%s traces agree with the REPAIRED bookkeeping model (Patched=TRUE), not with the pinned one" % src)
            viols, ideals, c, st = v2, i2, c2, st + st2
    return (src, sc, traces, viols, ideals, c, st)


def run(ctx):
    # the four parts are independent: model level, parameter domain, stand-alone gater, gater inside a node
    with cf.ThreadPoolExecutor(max_workers=4) as ex:
        f_mc = ex.submit(model_check, ctx)
        f_par = ex.submit(params_part, ctx)
        f_node = ex.submit(node_part, ctx)
        f_unit = ex.submit(unit_part, ctx)
        futs = [f_mc, f_par, f_node, f_unit]
        cf.wait(futs)
    # a part that could not reach a verdict makes the run inconclusive - unless another part observed a violation
    # on the real code (reported below; exit 1 needs nothing else)
    broken = [f.exception() for f in futs if f.exception() is not None]
    for e in broken:
        if not isinstance(e, vlib.Inconclusive):
            raise e
    states, trans, mcs, failed = f_mc.result() if not f_mc.exception() else (0, 0, {}, [])
    ctx.log("model checking: %d distinct states in %d configurations; %d must-fail configurations failed as required" % (states, len(mcs), len(failed)))
    nvec, phits, pstates = f_par.result() if not f_par.exception() else (0, {}, 0)
    states += pstates
    u = f_unit.result() if not f_unit.exception() else ("unit", [], [], [], [], {}, 0, 0, False, 0, 0)
    n_ex, exhaustive, gstates, gtrans = u[7:]
    states += gstates; trans += gtrans
    samples, cov, got_bugs, parts, total_lines = [], {}, set(), [], 0
    for (src, sc, traces, viols, ideals, c, st) in (u[:7], f_node.result() if not f_node.exception() else ("node", [], [], [], [], {}, 0)):
        if not traces:
            continue
        total_lines += sum(len(t) for t in traces)
        states += st
        for k, n in c.items():
            cov[k] = cov.get(k, 0) + n
        report(ctx, src, sc, traces, viols, ideals)
        parts.append((src, sc, traces))
        mid = traces[len(traces) // 3]
        samples.append({"driver": "TestX01Unit" if src == "unit" else "TestX01Node", "tag": json.loads(mid[0]).get("tag"),
                        "trace": [json.loads(x) for x in mid[1:7]]})
    ctx.log("replayed on the real gater: %d histories, %d lines; %d violation records" % (
        sum(len(t) for _, _, t in parts), total_lines, len(ctx.violations)))
    # 4. coverage obligations
    real_viol = [v for v in ctx.violations if v["sig"].get("kind") != "ideal-bookkeeping" and v["sig"].get("kind") != "nan-accepted"]
    if broken and not real_viol:
        raise broken[0]
    for e in broken:
        ctx.notes.append("a part of the check was inconclusive: %s" % e)
    if not real_viol and parts:
        sel = []
        for src, sc, traces in parts:
            for t in traces:
                tag = json.loads(t[0]).get("tag", "")
                if tag.startswith("directed") or tag.startswith("node") or len(sel) < 400:
                    sel.append(t)
        got_bugs, st = refute(ctx, sel)
        states += st
        missing = [b for b in BUGS if b not in got_bugs]
        if missing:
            raise vlib.Inconclusive("coverage obligation not met: no real step refutes the seeded model defects %s" % missing)
        miss_cov = [k for k in NEED_COV if not cov.get(k)]
        if miss_cov:
            raise vlib.Inconclusive("coverage obligation not met: situations never exercised by a validated real step: %s" %
                                    ["%d %s" % (k, COV_NAMES[k]) for k in miss_cov])
    distinct = set()
    for src, sc, traces in parts:
        for t in traces:
            if nontrivial(t):
                distinct.add(json.dumps(sc[json.loads(t[0])["scn"]]["acts"], sort_keys=True))
    ntr = sum(len(t) for _, _, t in parts)
    covd = {"states": max(states, 1), "transitions": max(trans, 1), "traces_validated_against_impl": ntr, "samples": samples,
            "evaluations": total_lines + nvec, "distinct_nontrivial": len(distinct),
            "rule": "history = call sequence emitted by GenGater (every (state, event) pair up to the bound, sampled by seed above the "
                    "per-configuration limit), a -simulate walk, a directed history or an in-node program; non-trivial = the real gater "
                    "answered AcceptControl at least once, or a decay tick passed while two peers shared a record; distinct by input sequence",
            "exhaustive": bool(exhaustive), "generated_exhaustive": n_ex,
            "situations": {COV_NAMES[k]: cov.get(k, 0) for k in sorted(COV_NAMES)},
            "model_defects_refuted_by_real_traces": sorted(got_bugs), "must_fail_configs": failed, "mc": mcs,
            "parameter_vectors": nvec, "parameter_hits": phits}
    return vlib.finish(ctx, LEVEL, covd, [
        "math/rand's global source seeded with s yields the same first Float64 as rand.New(rand.NewSource(s)) (checked by the driver at start); "
        "nothing else draws from it between the seeding and AcceptFrom (the synctest bubble is quiescent)",
        "the uniform draw is known to its cell of width 1/64: a decision whose chance lies inside the drawn cell is accepted either way",
        "counters are compared exactly as dyadic rationals (units 1/4096); histories whose decays would need more bits are not generated",
        "in-node: the order of concurrent tracer callbacks is the recorder's; inbound stream closings are taken from the stimulus "
        "(expiry stamps compared with 60 ms tolerance); AcceptFrom's answer for a wire RPC is inferred from ThrottlePeer / message events",
        "stand-alone gater: IPs come from the scenario through the unit-test hook getIP; the real getPeerIP is exercised in-node only "
        "(single connection per peer)"])
