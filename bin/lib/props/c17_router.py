"""C17, router part - gossip stays within its protocol bounds (IHAVE / IWANT / IDONTWANT / promises).

spec/gossip: Gossip.tla (one node's gossip machinery, implementation-shaped, with monitors and the
predicates P_C17_Serve / Advertise / Ask / IDontWantIn / IDontWantOut / Promise), MCGossip.tla (exhaustive
MC, one configuration per property group, plus seeded-defect configurations that MUST fail),
GenGossip.tla (scenario generator: every behaviour of a focused alphabet up to a bound, or -simulate over
the whole alphabet), GossipTrace.tla (the same monitors rebuilt from the events of the REAL node and the
predicates evaluated on what it did, one step line at a time).

Pipeline of run_router(ctx): MC -> Gen -> replay through harness/drivers/router (TestRouterReplay, plus
seeded TestRouterWalk) -> GossipTrace on the recorded lines -> coverage obligations.  The caller
(c17.py / c17r.py) calls vlib.finish."""
import concurrent.futures as cf
import json, os, random

from .. import vlib

FAMILY = "gossip"
PART = "router"

REQUIRED_TAGS = [
    # DESIGN C17 obligations
    "serve_last", "serve_first_unserved",        # IWANT at the last served and the first unserved heartbeat
    "adv_first", "adv_last", "adv_stopped",      # advertisement at the first and last advertised heartbeat, silent after
    "retx_last", "retx_reached",                 # retransmission limit reached
    "idw_honoured", "idw_expired", "idw_ttl_expired",   # IDONTWANT honoured and expired
    "cap_ihave_len", "cap_ihave_msgs", "reset_ihave_len", "reset_ihave_msgs", "ihave_last_honoured",   # caps reached and reset at the heartbeat
    "cap_idw_len", "cap_idw_msgs", "reset_idw",
    "promise_kept_third", "promise_broken",      # promise kept by a third party; promise broken
    "ask_sum_third_batch", "ask_sum_refused",   # >= 3 IHAVE batches of one peer in one heartbeat: the running total is capped
    "promise_kept_validating",                   # requested message still in (slow) validation when the follow-up time ran out
    # ONE RPC carrying >= 2 control entries of a kind, each within its bound, together beyond it
    "idw_multi_entry_over", "ihave_multi_entry_over", "iwant_multi_entry_over", "ihave_same_topic_entries", "ihave_two_topics_over",
    # every mechanism a change could touch
    "idw_out_sent", "idw_out_small", "idw_out_sender", "idw_out_old_proto",
    "adv_mesh_excluded", "adv_low_score_excluded", "adv_direct_excluded", "adv_flood_excluded", "adv_subset", "adv_truncated",
    "ihave_all_seen", "promise_kept_promiser", "asked",
]


def S(*xs):
    return {'"%s"' % x for x in xs}


def base_consts(**over):
    c = {"Peers": S("p1", "p2", "p3"), "Ids": S("m1", "m2", "m3"), "SelfIds": set(), "Big": S("m1"),
         "Mesh": S("p1"), "Direct": set(), "V12": S("p1", "p3"), "Flood": set(),
         "H": 3, "G": 2, "Retx": 2, "MaxIHaveLen": 2, "MaxIHaveMsgs": 2, "MaxIDWLen": 2, "MaxIDWMsgs": 2,
         "IDWTTL": 2, "FollowUpHb": 2, "Dlazy": 1, "FactorPct": 50, "GossipThr": "GossipThr <- ThrM2",
         "MaxHb": 5, "MaxStim": 2,
         "AccArgs": "AccArgs <- NoArgs", "IHaveArgs": "IHaveArgs <- NoArgs", "IWantArgs": "IWantArgs <- NoArgs",
         "IDWArgs": "IDWArgs <- NoArgs", "ScoreArgs": "ScoreArgs <- NoArgs", "Bug": set()}
    for k, v in over.items():
        if k in ("AccArgs", "IHaveArgs", "IWantArgs", "IDWArgs", "ScoreArgs"):
            v = "%s <- %s" % (k, v)
        c[k] = v
    return c


ACTION_PROPS = ["A_Serve", "A_Advertise", "A_Ask", "A_IDontWantIn", "A_IDontWantOut", "A_Promise"]

# exhaustive configurations (name, constants)
def mc_ok(thorough):
    t = thorough
    return [
        ("serve", dict(Ids=S("m1"), Big=S("m1"), AccArgs="Acc_serve", IWantArgs="IWant_serve", IDWArgs="IDW_serve",
                       ScoreArgs="Score_serve" if t else "NoArgs", MaxHb=7 if t else 4, MaxStim=2)),
        ("ask", dict(AccArgs="Acc_ask", IHaveArgs="IHave_ask", IWantArgs="IWant_ask", ScoreArgs="Score_ask" if t else "NoArgs",
                     MaxHb=3 if t else 2, MaxStim=3)),
        ("adv", dict(SelfIds=S("m3"), AccArgs="Acc_adv", ScoreArgs="Score_adv", MaxHb=7 if t else 5, MaxStim=3 if t else 2)),
        ("idw", dict(Ids=S("m1", "m2"), AccArgs="Acc_idw", IDWArgs="IDW_idw", IWantArgs="IWant_idw", Mesh=S("p1", "p3"), V12=S("p1", "p2"),
                     Big=S("m1"), MaxHb=5 if t else 3, MaxStim=3 if t else 2)),
    ]


# seeded defects: (name, base configuration, Bug, property that must be violated)
MC_BUG = [
    ("AdvertiseWholeHistory", "adv", "A_Advertise"),
    ("ShiftEarly", "serve", "A_Serve"),
    ("RetxOffByOne", "serve", "A_Serve"),
    ("KeepIAsked", "ask", "A_Ask"),
    ("TTLOffByOne", "idw", "P_C17_IDontWantIn"),
    ("IDWToSender", "idw", "A_IDontWantOut"),
    ("PenaliseKept", "ask", "A_Promise"),
    ("IHaveMsgsOffByOne", "ask3len", "A_Ask"),      # needs MaxIHaveLength > MaxIHaveMessages to show
    ("AskSeen", "ask", "A_Ask"),
    ("KeepPeerDontWant", "idw", "P_C17_IDontWantIn"),
    ("IDWNoFeature", "idw", "A_IDontWantOut"),
    ("GossipBelowThreshold", "adv", "A_Advertise"),
    ("IDWLenPerEntry", "idw1", "A_IDontWantIn"),    # MaxIDontWantLength budget restarted for every IDONTWANT entry of one RPC
]
QUICK_BUGS = ("AdvertiseWholeHistory", "ShiftEarly", "RetxOffByOne", "KeepIAsked", "TTLOffByOne", "IDWToSender", "PenaliseKept",
              "IDWLenPerEntry")


def mc_cfg(over, bug=None):
    c = base_consts(**over)
    if bug:
        c["Bug"] = S(bug)
    return vlib.cfg_text(constants=c, invariants=["P_C17_IDontWantIn"], properties=ACTION_PROPS, view="View")


def model_check(ctx):
    ok_jobs = mc_ok(ctx.thorough)
    bug_jobs = [b for b in MC_BUG if ctx.thorough or b[0] in QUICK_BUGS]
    overs = dict(mc_ok(False))
    overs["ask3len"] = dict(overs["ask"], MaxIHaveLen=3)
    overs["idw1"] = dict(overs["idw"], MaxIDWLen=1)

    def run_ok(job):
        name, over = job
        return vlib.run_tlc(ctx, FAMILY, "MCGossip", mc_cfg(over), timeout=900 if not ctx.thorough else 1800,
                            name="mc-" + name, workers=1)

    def run_bug(job):
        bug, basecfg, prop = job
        return vlib.run_tlc(ctx, FAMILY, "MCGossip", mc_cfg(overs[basecfg], bug), timeout=600, name="mcbug-" + bug, workers=1)

    with cf.ThreadPoolExecutor(max_workers=2) as ex:      # at most 4 TLC workers in all: 2 here, 2 in generation / validation
        ok_f = [ex.submit(run_ok, j) for j in ok_jobs]
        bug_f = [ex.submit(run_bug, j) for j in bug_jobs]
        ok_res = [f.result() for f in ok_f]
        bug_res = [f.result() for f in bug_f]
    states = transitions = 0
    info = {}
    for (name, _), res in zip(ok_jobs, ok_res):
        vlib.require_mc_ok(ctx, res, "MCGossip %s" % name)
        states += res.distinct
        transitions += res.generated
        info[name] = [res.distinct, res.generated]
    for (bug, basecfg, prop), res in zip(bug_jobs, bug_res):
        vlib.require_mc_fails(ctx, res, "MCGossip %s with Bug={%s}" % (basecfg, bug), prop)
        info["bug:" + bug] = "violates %s as required" % prop
    ctx.log("router MC: %d distinct states in %d configurations; %d seeded-defect configurations fail as required" %
            (states, len(ok_jobs), len(bug_jobs)))
    return states, transitions, info


# ----------------------------------------------------------------------------- scenario generation

# (name, constants, L, mode, harness parameter overrides)
def families(ctx):
    t = ctx.thorough
    fams = [
        ("serve", dict(Ids=S("m1"), AccArgs="Acc_serve", IWantArgs="IWant_serve", MaxHb=6, MaxStim=3), 9 if t else 8, "bfs", {}),
        ("serve2", dict(Ids=S("m1"), AccArgs="Acc_serve", IWantArgs="IWant_serve", IDWArgs="IDW_serve2", MaxHb=5, MaxStim=2),
         8 if t else 7, "bfs", {}),
        ("serve3", dict(Ids=S("m1"), AccArgs="Acc_serve", IWantArgs="IWant_serve3", ScoreArgs="Score_serve3", MaxHb=5, MaxStim=2),
         7 if t else 6, "bfs", {}),
        ("ask", dict(AccArgs="Acc_ask", IHaveArgs="IHave_ask", IWantArgs="IWant_ask", MaxHb=3, MaxStim=4),
         6 if t else 5, "bfs", {}),
        ("ask2", dict(AccArgs="Acc_ask", IHaveArgs="IHave_ask2", MaxHb=3, MaxStim=4, MaxIHaveLen=3), 6 if t else 5, "bfs", {}),
        ("ask3", dict(Ids=S(*["x%d" % i for i in range(1, 10)]), Big=set(), IHaveArgs="IHave_ask3", MaxHb=2, MaxStim=5,
                      MaxIHaveLen=5, MaxIHaveMsgs=4), 5, "bfs", {}),
        ("multi1", dict(Ids=S("m1", "m2", "m3", "m4"), AccArgs="Acc_multi", IDWArgs="IDW_multi", IWantArgs="IWant_serve",
                        MaxHb=3, MaxStim=3), 5 if t else 4, "bfs", {}),
        ("multi2", dict(Ids=S("m1", "m2", "m3", "m4"), AccArgs="Acc_ask", IHaveArgs="IHave_multi", MaxHb=3, MaxStim=3),
         5 if t else 4, "bfs", {}),
        ("multi3", dict(Ids=S("m1", "m2", "m3", "m4"), AccArgs="Acc_multi", IWantArgs="IWant_multi", MaxHb=4, MaxStim=3),
         6 if t else 5, "bfs", {}),
        ("prom", dict(AccArgs="Acc_prom", IHaveArgs="IHave_prom", MaxHb=5, MaxStim=2), 7 if t else 6, "bfs", {}),
        ("adv", dict(SelfIds=S("m3"), AccArgs="Acc_adv", ScoreArgs="Score_adv", MaxHb=6, MaxStim=2), 7 if t else 6, "bfs", {}),
        ("adv2", dict(SelfIds=S("m3"), AccArgs="Acc_adv", ScoreArgs="Score_adv", MaxHb=6, MaxStim=3, Dlazy=2, FactorPct=25,
                      Mesh=S("p1"), MaxIHaveLen=3), 6 if t else 5, "bfs", {}),
        ("adv3", dict(SelfIds=S("m3"), AccArgs="Acc_adv", MaxHb=6, MaxStim=3, Direct=S("p3"), Flood=S("p2"), V12=S("p1"),
                      Mesh=S("p1")), 6, "bfs", {}),
        ("idw", dict(AccArgs="Acc_idw", IDWArgs="IDW_idw", IWantArgs="IWant_idw", Big=S("m1", "m3"), MaxHb=4, MaxStim=3),
         6 if t else 5, "bfs", {}),
        ("out", dict(SelfIds=S("m3"), AccArgs="Acc_out", Mesh=S("p1", "p3"), V12=S("p1", "p2"), Big=S("m1", "m3"), MaxHb=2, MaxStim=3),
         3, "bfs", {}),
        ("out2", dict(SelfIds=S("m3"), AccArgs="Acc_out", Mesh=S("p1", "p3"), V12=S("p1", "p2", "p3"), Big=S("m2"), MaxHb=2, MaxStim=3),
         3, "bfs", {}),
        ("all", dict(SelfIds=S("m3"), AccArgs="Acc_all", IHaveArgs="IHave_all", IWantArgs="IWant_all", IDWArgs="IDW_all",
                     ScoreArgs="Score_all", Mesh=S("p1"), V12=S("p1", "p3"), Big=S("m1", "m3"), MaxHb=8, MaxStim=4),
         22, "sim:%d" % (700 if t else 120), {}),
        ("all2", dict(SelfIds=S("m3"), AccArgs="Acc_all", IHaveArgs="IHave_all", IWantArgs="IWant_all", IDWArgs="IDW_all",
                      ScoreArgs="Score_all", Mesh=S("p1", "p3"), V12=S("p1", "p2"), Big=S("m2", "m3"), MaxHb=8, MaxStim=4,
                      MaxIHaveLen=3, Dlazy=2, FactorPct=100, H=4, G=3, Retx=3, IDWTTL=3, MaxIDWMsgs=3, MaxIHaveMsgs=3),
         24, "sim:%d" % (700 if t else 120), {}),
    ]
    return fams


def generate(ctx):
    fams = families(ctx)

    def one(f):
        name, over, L, mode, _ = f
        c = base_consts(**over)
        c["L"] = L
        cfg = vlib.cfg_text(spec="GSpec", constants=c, invariants=["Emit"], view="GenView" if mode == "bfs" else None)
        if mode == "bfs":
            return vlib.run_tlc(ctx, FAMILY, "GenGossip", cfg, timeout=900, name="gen-" + name, workers=1, heap="4g")
        n = mode.split(":")[1]
        return vlib.run_tlc(ctx, FAMILY, "GenGossip", cfg, mode="sim", simulate="num=%s" % n, depth=L + 2, timeout=900,
                            name="gen-" + name, workers=1, heap="4g")

    with cf.ThreadPoolExecutor(max_workers=2) as ex:
        results = list(ex.map(one, fams))
    out, states, transitions = [], 0, 0
    for f, res in zip(fams, results):
        name = f[0]
        if res.timed_out or res.violated or res.errors:
            raise vlib.Inconclusive("GenGossip %s failed: %s (see %s/tlc.out)" % (name, (res.errors or res.violated)[:2], res.dir))
        got = res.printed("SCN")
        if not got:
            raise vlib.Inconclusive("GenGossip %s emitted nothing (see %s/tlc.out)" % (name, res.dir))
        states += res.distinct
        transitions += res.generated
        out.append((f, got))
        ctx.log("gen %s: %d behaviours" % (name, len(got)))
    return out, states, transitions


def select(ctx, fam, behaviours, budget, per_tag):
    """Pick a seeded subset: for every model-level tag up to per_tag behaviours showing it (rarest first), then random fill."""
    rng = random.Random(ctx.seed * 7919 + sum(ord(ch) for ch in fam))
    uniq, seen = [], set()
    for b in behaviours:
        k = json.dumps(b["hist"], sort_keys=True)
        if k not in seen:
            seen.add(k)
            uniq.append(b)
    uniq.sort(key=lambda b: json.dumps(b["hist"], sort_keys=True))
    rng.shuffle(uniq)
    if len(uniq) <= budget:
        return uniq, True
    by_tag = {}
    for i, b in enumerate(uniq):
        for t in b["cov"]:
            by_tag.setdefault(t, []).append(i)
    chosen = []
    chosen_set = set()
    for t in sorted(by_tag, key=lambda t: (len(by_tag[t]), t)):
        for i in by_tag[t][:per_tag]:
            if i not in chosen_set:
                chosen_set.add(i)
                chosen.append(i)
    for i in range(len(uniq)):
        if len(chosen) >= budget:
            break
        if i not in chosen_set:
            chosen_set.add(i)
            chosen.append(i)
    return [uniq[i] for i in chosen[:max(budget, 0)]], False


def unq(s):
    return sorted(x.strip('"') for x in s)


def to_scenario(fam, consts, hist, variant):
    """Turn a model behaviour into actions of the router replay driver. The prefix builds the static
    situation of the model: the node subscribed to T1, peers p1..p3 subscribed (protocol by V12 / Flood),
    `pa` = author of all remote messages (created up front with mkmsg so that their ids can be advertised
    before they are sent), mesh = GRAFTs from Mesh, direct peers."""
    mesh, direct, v12, flood = unq(consts["Mesh"]), unq(consts["Direct"]), unq(consts["V12"]), unq(consts["Flood"])
    big, selfids = unq(consts["Big"]), unq(consts["SelfIds"])
    cfg = {"score": True, "penWeight": 0, "hosts": 6, "flood": False, "px": False,
           "D": 2, "Dlo": 1, "Dhi": 3, "Dscore": 1, "Dout": 0, "oppTicks": 100000,
           "Dlazy": consts["Dlazy"], "gossipFactorPct": consts["FactorPct"],
           "H": consts["H"], "G": consts["G"], "retx": consts["Retx"],
           "maxIHaveLen": consts["MaxIHaveLen"], "maxIHaveMsgs": consts["MaxIHaveMsgs"],
           "maxIDWLen": consts["MaxIDWLen"], "maxIDWMsgs": consts["MaxIDWMsgs"], "idwTTL": consts["IDWTTL"],
           "idwThreshold": 64, "followupMs": 1000 * (consts["FollowUpHb"] - 1),
           "thr": {"gossip": -2, "publish": -4, "graylist": -6, "acceptPX": 2, "oppGraft": 1}}
    def size(m):   # both size classes, every other scenario exactly at the IDONTWANT threshold (64) and one below
        return (64 if variant % 2 else 100) if m in big else (63 if variant % 2 else 16)

    acts = [{"a": "subscribe", "t": "T1"}]
    for p in unq(consts["Peers"]):
        proto = "flood" if p in flood else (("v13" if variant % 2 and p == "p3" else "v12") if p in v12 else ("v10" if variant % 3 == 1 else "v11"))
        acts.append({"a": "peer", "p": p, "proto": proto, "dir": "out" if (variant % 2 and p == "p1") else "in", "subs": ["T1"]})
    acts.append({"a": "peer", "p": "pa", "proto": "v11", "dir": "in", "subs": []})
    for p in direct:
        acts.append({"a": "direct", "p": p, "on": True})
    for m in unq(consts["Ids"]):
        if m not in selfids and not m.startswith("x"):      # x* = invented ids: never created, never seen
            acts.append({"a": "mkmsg", "p": "pa", "t": "T1", "m": m, "size": size(m)})
    for p in mesh:
        acts.append({"a": "graft", "p": p, "t": "T1"})
    acts.append({"a": "hb"})
    for s in hist:
        a = s["a"]
        if a == "accept":
            if s["p"] == "self":
                acts.append({"a": "publish", "t": "T1", "m": s["m"], "size": size(s["m"])})
            else:
                acts.append({"a": "msg", "p": s["p"], "t": "T1", "m": s["m"]})
        elif a == "ihave":
            acts.append({"a": "ihave", "p": s["p"], "t": "T1", "ids": list(s["ids"])})
        elif a in ("iwant", "idontwant"):
            acts.append({"a": a, "p": s["p"], "ids": list(s["ids"])})
        elif a == "score":
            acts.append({"a": "score", "p": s["p"], "v": s["v"]})
        elif a == "hb":
            acts.append({"a": "hb"})
        else:
            raise vlib.Inconclusive("unknown stimulus in generated behaviour: %r" % (s,))
        if a in ("ihave", "iwant", "idontwant") and s.get("split"):
            acts[-1]["split"] = list(s["split"])        # several control entries in ONE RPC
    acts += [{"a": "hb"}] * 3
    return {"cfg": cfg, "acts": acts, "fam": fam, "cov": None}


def slow_scenarios(ctx):
    """Directed promise scenarios for the slow-validator driver (harness/drivers/c17): p2 advertises s1, the node asks
    for it, s1 arrives right away (from the promiser or from a third peer) but its asynchronous validator holds it
    longer than IWantFollowupTime: the promise was kept when s1 entered validation - no penalty at any heartbeat.
    Controls: the same with a fast message (m1), and one where nothing arrives (penalty due)."""
    out = []
    rng = random.Random(ctx.seed)
    slows = [1300, 2300, 3300] if not ctx.thorough else [1100, 1300, 1900, 2300, 2900, 3300, 4300]
    for slow in slows:
        for deliverer in ("p2", "p3", "p1"):
            for verdict in ("accept", "reject", "ignore"):
                if verdict != "accept" and not (ctx.thorough or rng.random() < 0.4):
                    continue
                for extra in (0, 1):
                    acts = [{"a": "subscribe", "t": "T1"},
                            {"a": "peer", "p": "p1", "proto": "v12", "dir": "in", "subs": ["T1"]},
                            {"a": "peer", "p": "p2", "proto": "v11", "dir": "in", "subs": ["T1"]},
                            {"a": "peer", "p": "p3", "proto": "v12", "dir": "in", "subs": ["T1"]},
                            {"a": "peer", "p": "pa", "proto": "v11", "dir": "in", "subs": []},
                            {"a": "mkmsg", "p": "pa", "t": "T1", "m": "s1", "size": 100},
                            {"a": "mkmsg", "p": "pa", "t": "T1", "m": "m1", "size": 16},
                            {"a": "mkmsg", "p": "pa", "t": "T1", "m": "m2", "size": 16},
                            {"a": "graft", "p": "p1", "t": "T1"}, {"a": "hb"}]
                    if extra:      # a second, unrelated promise of p3 that is broken: exactly one penalty, for p3
                        acts.append({"a": "ihave", "p": "p3", "t": "T1", "ids": ["m2"]})
                    acts += [{"a": "ihave", "p": "p2", "t": "T1", "ids": ["s1", "m1"]},
                             {"a": "msg", "p": deliverer, "t": "T1", "m": "s1"},
                             {"a": "msg", "p": deliverer, "t": "T1", "m": "m1"}]
                    acts += [{"a": "hb"}] * 6
                    out.append({"cfg": {"followupMs": 1000, "slowMs": slow, "slowPrefix": "s", "slowVerdict": verdict,
                                        "maxIHaveLen": 3}, "acts": acts, "fam": "slow", "cov": []})
    return out


def multi_scenarios(ctx):
    """Directed scenarios with SEVERAL control entries of a kind in ONE RPC (world's optional `split` / `ts`), the node
    subscribed to two topics: IDONTWANT 2 x 2 ids with bound 2 and 3 x 4 ids with the library's bound 10, followed by
    probes (message arrives, IWANT); IHAVE entries of the same topic and of two topics whose unseen ids together exceed
    MaxIHaveLength; IWANT entries repeating an id beyond GossipRetransmission."""
    out = []
    xs = ["x%d" % i for i in range(1, 13)]
    for variant in range(6 if not ctx.thorough else 18):
        big = variant % 2 == 1
        cfg = {"score": True, "penWeight": 0, "hosts": 6, "flood": False, "px": False, "D": 2, "Dlo": 1, "Dhi": 3, "Dscore": 1, "Dout": 0,
               "oppTicks": 100000, "Dlazy": 1, "gossipFactorPct": 50, "followupMs": 1000, "idwThreshold": 64,
               "maxIDWLen": 10 if big else 2, "maxIDWMsgs": 3, "maxIHaveLen": 5 if big else 2, "maxIHaveMsgs": 4, "retx": 2,
               "thr": {"gossip": -2, "publish": -4, "graylist": -6, "acceptPX": 2, "oppGraft": 1}}
        acts = [{"a": "subscribe", "t": "T1"}, {"a": "subscribe", "t": "T2"}]
        for p, proto in (("p1", "v12"), ("p2", "v12" if variant % 3 else "v11"), ("p3", "v11")):
            acts.append({"a": "peer", "p": p, "proto": proto, "dir": "in", "subs": ["T1", "T2"]})
        acts.append({"a": "peer", "p": "pa", "proto": "v11", "dir": "in", "subs": []})
        for m in ("m1", "m2", "m3", "m4"):
            acts.append({"a": "mkmsg", "p": "pa", "t": "T1" if m != "m4" else "T2", "m": m, "size": 100 if m == "m1" else 16})
        acts += [{"a": "graft", "p": "p1", "t": "T1"}, {"a": "graft", "p": "p1", "t": "T2"}]
        if variant % 3 == 2:          # the declaring peer is a mesh peer: forwarding to it is suppressed too
            acts.append({"a": "graft", "p": "p2", "t": "T1"})
        acts.append({"a": "hb"})
        # IHAVE: entries of the same topic / of two topics, each within MaxIHaveLength, together beyond it
        if big:
            acts.append({"a": "ihave", "p": "p3", "t": "T1", "ids": xs[:9], "split": [3, 3, 3], "ts": ["T1", "T2", "T1"]})
        else:
            acts.append({"a": "ihave", "p": "p3", "t": "T1", "ids": ["x1", "x2", "x3", "x4"], "split": [2, 2],
                         "ts": ["T1", "T2"] if variant % 4 < 2 else ["T1", "T1"]})
        acts.append({"a": "ihave", "p": "p2", "t": "T1", "ids": ["x5", "x6", "x7"], "split": [1, 1, 1]})
        acts.append({"a": "hb"})
        # IDONTWANT: entries within MaxIDontWantLength each, beyond it together; then the probes
        if big:
            acts.append({"a": "idontwant", "p": "p2", "ids": ["m1", "m2", "m3", "m4"] + xs[:8], "split": [4, 4, 4]})
        else:
            acts.append({"a": "idontwant", "p": "p2", "ids": ["m1", "m2", "m3", "m4"], "split": [2, 2]})
        acts += [{"a": "msg", "p": "p1", "t": "T1", "m": "m1"}, {"a": "msg", "p": "p3", "t": "T1", "m": "m3"},
                 {"a": "msg", "p": "p1", "t": "T2", "m": "m4"},
                 {"a": "iwant", "p": "p2", "ids": ["m3", "m4", "m1"], "split": [1, 2]},
                 {"a": "hb"},
                 # IWANT: the same id once per entry, three entries, GossipRetransmission 2
                 {"a": "iwant", "p": "p3", "ids": ["m3", "m3", "m3"], "split": [1, 1, 1]},
                 {"a": "iwant", "p": "p3", "ids": ["m3"]},
                 {"a": "idontwant", "p": "p3", "ids": ["m2", "m4", "m1"], "split": [1, 1, 1]},
                 {"a": "iwant", "p": "p3", "ids": ["m1", "m4"], "split": [1, 1]}]
        acts += [{"a": "hb"}] * 4
        out.append({"cfg": cfg, "acts": acts, "fam": "multi-directed", "cov": []})
    return out


# ----------------------------------------------------------------------------- replay and validation

def hbn(t, ms, hb0=100):
    return 0 if t < hb0 else (t - hb0) // ms + 1


def split_and_cut(lines):
    """Split the recorded file at reset lines; cut a scenario at the first step the trace specification
    does not cover: a stimulus sharing its step with a heartbeat, a dead node, or a symbolic message name
    that has come to stand for two different messages (the random walks may re-use the name of a message
    the node published for a message of a fake peer)."""
    scns, cur, cuts = [], None, 0
    for d in lines:
        a = d["act"]
        if a["a"] == "reset":
            cur = {"lines": [d], "ms": a["cfg"]["hbMs"], "hb0": d["t"] + 100, "prev": d["t"], "stop": False, "pub": set(), "fake": set()}
            scns.append(cur)
            continue
        if cur is None or cur["stop"]:
            continue
        b0, b1 = hbn(cur["prev"], cur["ms"], cur["hb0"]), hbn(d["t"], cur["ms"], cur["hb0"])
        bad = (b1 != b0 and (a["a"] != "hb" or b1 != b0 + 1)) or d["st"].get("dead") or d.get("hb") != b1 - b0
        if a["a"] in ("msg", "mkmsg"):
            bad = bad or a.get("m") in cur["pub"]
            cur["fake"].add(a.get("m"))
        if a["a"] == "publish":
            bad = bad or a.get("m") in cur["pub"] or a.get("m") in cur["fake"]
            cur["pub"].add(a.get("m"))
        if bad:
            cur["stop"] = True
            cuts += 1
            continue
        cur["prev"] = d["t"]
        cur["lines"].append(d)
    return [s["lines"] for s in scns], cuts


_BUILT = {}


def build_driver(ctx, pkg):
    """Compile the test binary of a driver package once (vlib.run_go handles the module file for scratch trees);
    the scenario shards then run the binary side by side."""
    key = (ctx.work, pkg)
    if key not in _BUILT:
        binp = os.path.join(ctx.work, pkg.strip("./").replace("/", "_") + ".test")
        r = vlib.run_go(ctx, pkg, "^$", extra=("-c", "-o", binp), name="build-" + os.path.basename(binp))
        if r["rc"] != 0 or not os.path.exists(binp):
            raise vlib.Inconclusive("go build of %s failed (see %s)" % (pkg, r["log"]))
        _BUILT[key] = binp
    return _BUILT[key]


def run_driver(ctx, test, env, name, timeout=1500, pkg="./drivers/router/"):
    import subprocess
    binp = build_driver(ctx, pkg)
    outp = os.path.join(ctx.work, name + "-out.ndjson")
    marker = os.path.join(ctx.work, name + ".marker")
    logf = os.path.join(ctx.work, "go-%s.log" % name)
    e = dict(os.environ)
    e.update({"VERIF_SEED": str(ctx.seed), "VERIF_TIER": ctx.tier})
    e.update({k: str(v) for k, v in env.items()})
    e.update({"VERIF_OUT": outp, "VERIF_MARKER": marker})
    p = subprocess.run(["timeout", str(timeout + 30), binp, "-test.run", "^%s$" % test, "-test.count", "1",
                        "-test.timeout", "%ds" % timeout], cwd=ctx.work, env=e, stdout=subprocess.PIPE,
                       stderr=subprocess.STDOUT, text=True, errors="replace")
    with open(logf, "w") as f:
        f.write(p.stdout)
    if p.returncode != 0:
        where = open(marker).read() if os.path.exists(marker) else "?"
        lib_panic = "panic:" in p.stdout and "go-libp2p-pubsub" in p.stdout
        raise vlib.Inconclusive("driver %s died in scenario %s (rc=%s%s, see %s)" %
                                (test, where, p.returncode, ", panic with library frames" if lib_panic else "", logf))
    if not os.path.exists(outp) or os.path.getsize(outp) == 0:
        raise vlib.Inconclusive("driver %s produced no trace (see %s)" % (test, logf))
    return vlib.read_ndjson(outp)


def _one(ctx, scns):
    f = os.path.join(ctx.work, "router-scenarios-warm.ndjson")
    vlib.write_ndjson(f, scns)
    return f


def validate(ctx, traces, name, lines_per_chunk=5000):
    """Run GossipTrace over the recorded scenarios (chunks in parallel). Returns (viols, hits, states)."""
    chunks, cur, n = [], [], 0
    for tr in traces:
        cur.append(tr)
        n += len(tr)
        if n >= lines_per_chunk:
            chunks.append(cur)
            cur, n = [], 0
    if cur:
        chunks.append(cur)

    def one(arg):
        ci, chunk = arg
        path = os.path.join(ctx.work, "%s-chunk-%d.ndjson" % (name, ci))
        lines = [ln for tr in chunk for ln in tr]
        vlib.write_ndjson(path, lines)
        res = vlib.run_tlc(ctx, FAMILY, "GossipTrace", "GossipTrace.cfg", mode="trace", files={"trace.ndjson": path},
                           timeout=1200, name="%s-%d" % (name, ci), heap="3g")
        if res.timed_out:
            raise vlib.Inconclusive("%s: trace validation timed out (see %s/tlc.out)" % (name, res.dir))
        if res.hw is None:
            raise vlib.Inconclusive("%s: trace validation produced no verdict (see %s/tlc.out): %s" % (name, res.dir, res.errors[:2]))
        hw, end = res.hw
        if hw < end:
            raise vlib.Inconclusive("%s: trace line %d of %s cannot be read by GossipTrace: %s" %
                                    (name, hw, path, json.dumps(lines[hw - 1])[:300] if hw - 1 < len(lines) else "?"))
        return res.printed("VIOL"), res.printed("HIT"), res.distinct

    viols, hits, states = [], [], 0
    with cf.ThreadPoolExecutor(max_workers=max(1, min(vlib.NCPU // 2, 2, len(chunks)))) as ex:
        for v, h, st in ex.map(one, list(enumerate(chunks))):
            viols += v
            hits += h
            states += st
    return viols, hits, states


def serve_line(trace):
    """Index of a step where an IWANT was answered and HAD to be: the peer's first request, no IDONTWANT / score change before."""
    asked = set()
    for k, ln in enumerate(trace):
        a = ln["act"]
        if a["a"] in ("idontwant", "score", "down", "blacklist"):
            return None
        if a["a"] == "iwant":
            if a["p"] not in asked and any(e["k"] == "Send" and e["rpc"]["msgs"] for e in ln["ev"]):
                return k
            asked.add(a["p"])
    return None


def selftest(ctx, trace):
    """Non-vacuity of the trace specification: doctored copies of a real recorded scenario (an IWANT answer
    removed, an IHAVE extended with an old id, an IDONTWANT addressed to the sender, a penalty without a
    promise) must make it report exactly those predicates."""
    t = json.loads(json.dumps(trace))
    want = set()
    done = set()
    putline = {}
    for k, ln in enumerate(t):
        a = ln["act"]["a"]
        for e in ln["ev"]:
            if e["k"] == "Deliver" and e["m"] not in putline:
                putline[e["m"]] = k
        if a == "iwant" and "serve" not in done and k == serve_line(trace):
            sends = [e for e in ln["ev"] if e["k"] == "Send" and e["rpc"]["msgs"]]
            if sends:
                ln["ev"] = [e for e in ln["ev"] if e not in sends]
                want.add("P_C17_Serve")
                done.add("serve")
        if a == "hb" and "adv" not in done:
            for e in ln["ev"]:
                if e["k"] == "Send" and e["rpc"]["ihave"]:
                    e["rpc"]["ihave"][0]["ids"] = list(e["rpc"]["ihave"][0]["ids"]) + ["never-put"]
                    want.add("P_C17_Advertise")
                    done.add("adv")
                    break
        if a == "msg" and "out" not in done:
            recv = [e for e in ln["ev"] if e["k"] == "Recv" and e["rpc"]["msgs"]]
            if recv:
                shape = json.loads(json.dumps(recv[0]["rpc"]))
                shape.update({"msgs": [], "idontwant": [[recv[0]["rpc"]["msgs"][0]["m"]]]})
                ln["ev"].append({"k": "Send", "p": recv[0]["p"], "n": 99999, "t": ln["t"], "rpc": shape})
                want.add("P_C17_IDontWantOut")
                done.add("out")
        if a == "hb" and "pen" not in done and k > 3 and ln["st"].get("pen"):
            p = sorted(ln["st"]["pen"])[0]
            for later in t[k:]:
                if p in later["st"].get("pen", {}):
                    later["st"]["pen"][p] += 1
            want.add("P_C17_Promise")
            done.add("pen")
    res = vlib.run_tlc(ctx, FAMILY, "GossipTrace", "GossipTrace.cfg", mode="trace",
                       files={"trace.ndjson": "".join(json.dumps(l) + "\n" for l in t)}, timeout=300, name="tv-selftest")
    got = {v["pred"] for v in res.printed("VIOL")}
    if res.hw is None or res.hw[0] < res.hw[1] or not want or not want <= got:
        raise vlib.Inconclusive("GossipTrace self-test: doctored trace should violate %s, trace spec reported %s (see %s/tlc.out)" %
                                (sorted(want), sorted(got), res.dir))
    return sorted(want)


def run_router(ctx):
    # the exhaustive model checks are independent of the conformance pipeline: run them alongside it
    mc_pool = cf.ThreadPoolExecutor(max_workers=1)
    mc_future = mc_pool.submit(model_check, ctx)
    try:
        part = conformance(ctx)
        try:
            states, transitions, mcinfo = mc_future.result()
        except vlib.Inconclusive as e:
            if not ctx.violations:
                raise
            # failures observed on the real code are reported even when a model-level check is inconclusive
            ctx.notes.append("router model checking inconclusive: %s" % e)
            states, transitions, mcinfo = 0, 0, {"inconclusive": str(e)}
    finally:
        mc_pool.shutdown(wait=True)
    part["states"] += states
    part["transitions"] += transitions
    part["mc"] = mcinfo
    return part


def conformance(ctx):
    states = transitions = 0
    gen, gs, gt = generate(ctx)
    states += gs
    transitions += gt
    scenarios, exhaustive = [], True
    budget = {"bfs": 200 if ctx.thorough else 30, "sim": 700 if ctx.thorough else 120}
    for (name, over, L, mode, _), behaviours in gen:
        consts = base_consts(**over)
        chosen, full = select(ctx, name, behaviours, budget[mode.split(":")[0]], per_tag=6 if ctx.thorough else 3)
        exhaustive = exhaustive and full and mode == "bfs"
        for k, b in enumerate(chosen):
            s = to_scenario(name, consts, b["hist"], k)
            s["cov"] = sorted(b["cov"])
            scenarios.append(s)
    scenarios += multi_scenarios(ctx)
    scn_file = os.path.join(ctx.work, "router-scenarios.ndjson")
    vlib.write_ndjson(scn_file, scenarios)
    ctx.log("router: %d generated scenarios selected (all behaviours of every family: %s)" % (len(scenarios), exhaustive))

    nshard = 6 if ctx.thorough else 4
    shards = [scenarios[i::nshard] for i in range(nshard)]

    def replay_shard(k):
        f = os.path.join(ctx.work, "router-scenarios-%d.ndjson" % k)
        vlib.write_ndjson(f, shards[k])
        return run_driver(ctx, "TestRouterReplay", {"VERIF_IN": f}, "router-replay%d" % k)

    build_driver(ctx, "./drivers/router/")
    build_driver(ctx, "./drivers/c17/")
    with cf.ThreadPoolExecutor(max_workers=nshard) as ex:
        shard_lines = list(ex.map(replay_shard, range(nshard)))
    replay_traces, cuts1 = [None] * len(scenarios), 0
    for k, sl in enumerate(shard_lines):
        tr, c = split_and_cut(sl)
        if len(tr) != len(shards[k]):
            raise vlib.Inconclusive("replay driver recorded %d of %d scenarios (shard %d)" % (len(tr), len(shards[k]), k))
        cuts1 += c
        for j, t_ in enumerate(tr):
            replay_traces[k + j * nshard] = t_
    if len(replay_traces) != len(scenarios):
        raise vlib.Inconclusive("replay driver recorded %d of %d scenarios" % (len(replay_traces), len(scenarios)))
    slow_in = slow_scenarios(ctx)
    slow_file = os.path.join(ctx.work, "router-slow-scenarios.ndjson")
    vlib.write_ndjson(slow_file, slow_in)
    slow_traces, c = split_and_cut(run_driver(ctx, "TestC17Slow", {"VERIF_IN": slow_file}, "router-slow", pkg="./drivers/c17/"))
    if len(slow_traces) != len(slow_in):
        raise vlib.Inconclusive("slow-validator driver recorded %d of %d scenarios" % (len(slow_traces), len(slow_in)))
    cuts1 += c
    walks = []
    walk_cfgs = [{"score": True, "penWeight": 0, "followupMs": 1000},
                 {"score": True, "penWeight": 0, "followupMs": 1500, "D": 2, "Dlo": 1, "Dhi": 3, "Dscore": 1, "Dout": 0,
                  "maxIHaveLen": 2, "gossipFactorPct": 50, "Dlazy": 1, "flood": False}]
    if ctx.thorough:      # the library's default parameters (heartbeat stays 1 s)
        walk_cfgs.append({"score": True, "penWeight": 0, "D": 6, "Dlo": 5, "Dhi": 12, "Dscore": 4, "Dout": 2, "Dlazy": 6,
                          "H": 5, "G": 3, "retx": 3, "maxIHaveLen": 5000, "maxIHaveMsgs": 10, "maxIDWLen": 10, "maxIDWMsgs": 1000,
                          "idwTTL": 3, "idwThreshold": 1024, "followupMs": 3000, "gossipFactorPct": 25})
    nwalk = 120 if ctx.thorough else 20
    for wi, wc in enumerate(walk_cfgs):
        wl = run_driver(ctx, "TestRouterWalk", {"VERIF_WALKS": nwalk, "VERIF_STEPS": 70, "VERIF_CFG": json.dumps(wc),
                                                "VERIF_SEED": ctx.seed * 10 + wi}, "router-walk%d" % wi)
        tr, c = split_and_cut(wl)
        walks.append(tr)
        cuts1 += c
    ctx.log("router: recorded %d replay scenarios (%d lines), %d walks; %d scenarios cut short" %
            (len(replay_traces), sum(len(t) for t in replay_traces), sum(len(w) for w in walks), cuts1))

    # non-vacuity of the trace specification itself
    probe = next((t for t in replay_traces if serve_line(t) is not None and any(l["act"]["a"] == "msg" for l in t)), None)
    doctored = selftest(ctx, probe) if probe else []

    sources = [("replay", replay_traces), ("slow", slow_traces)] + [("walk%d" % i, w) for i, w in enumerate(walks)]
    inputs = {"replay": scenarios, "slow": slow_in}
    hits, evals, nontrivial, total, samples = {}, 0, set(), 0, []
    for src, traces in sources:
        # scenario indices restart in every recorded file: renumber so that VIOL/HIT lines can be attributed
        for i, tr in enumerate(traces):
            for ln in tr:
                ln["scn"] = i
        viols, hitl, st = validate(ctx, traces, "tv-" + src)
        states += st
        total += len(traces)
        per_scn = {}
        for hrec in hitl:
            evals += hrec.get("evals", 0)
            for t in hrec.get("tags", []):
                hits[t] = hits.get(t, 0) + 1
                per_scn.setdefault(hrec["scn"], set()).add(t)
        for i, tags in per_scn.items():
            if len(tags) >= 2:
                nontrivial.add((src, json.dumps([l["act"] for l in traces[i]], sort_keys=True)))
        for v in viols:
            tr = traces[v["scn"]]
            k = next((j for j, ln in enumerate(tr) if ln["i"] == v["i"]), None)
            sig = {"what": v["what"], "act": v["act"], "source": src if src in inputs else "walk"}
            inp = inputs[src][v["scn"]] if src in inputs else {"walk": src, "acts": [ln["act"] for ln in tr[1:]], "cfg": tr[0]["act"]["cfg"]}
            vlib.add_violation(ctx, v["pred"], sig,
                               "%s (%s) at step %s (%s) of %s scenario %d: peer=%s msg=%s %s" %
                               (v["pred"], v["what"], v["i"], v["act"], src, v["scn"], v["p"], v["m"], json.dumps(v["info"])[:400]),
                               {"source": src, "scenario": inp, "failing_step": v["i"],
                                "failing_line": tr[k] if k is not None else None, "violation": v})
        if traces and src == "replay":
            best = max(range(len(traces)), key=lambda i: len(per_scn.get(i, ())))
            samples.append({"source": src, "family": scenarios[best].get("fam"), "tags": sorted(per_scn.get(best, ())),
                            "acts": scenarios[best]["acts"][:40]})
    missing = [t for t in REQUIRED_TAGS if not hits.get(t)]
    if missing and not ctx.violations:
        raise vlib.Inconclusive("router coverage obligations not met on the real traces: never observed %s" % missing)
    return {"part": PART, "states": states, "transitions": transitions, "traces": total, "samples": samples,
            "evaluations": evals, "distinct_nontrivial": len(nontrivial),
            "rule": "router: scenario = behaviour of Gossip.tla emitted by GenGossip (all behaviours of each focused family up to its bound, "
                    "seeded selection covering every model-level edge when above the budget; -simulate for the whole alphabet) or seeded random walk; "
                    "evaluation = one predicate instance judged on a real step (requested id, IHAVE entry, gossip topic, IDONTWANT, penalty); "
                    "non-trivial = the real trace hit at least two different window edges / caps; distinct by action sequence",
            "hits": hits, "exhaustive": False, "mc": {}, "cut_short": cuts1, "trace_spec_selftest": doctored,
            "assumptions": [
                "router: heartbeats are numbered from virtual time (creation of the node + 100 ms + k * HeartbeatInterval); stimuli never share a step with a heartbeat",
                "router: score = application score set by the scenario (BehaviourPenaltyWeight 0); pen is read from the score inspector",
                "router: must-serve / must-ask / must-take-effect are demanded only under conditions that are sufficient for every reading of the "
                "per-heartbeat counters (every control RPC of a peer counts against MaxIHaveMessages, every requested occurrence against GossipRetransmission)",
                "router: the seen cache outlives every scenario (TimeCacheDuration 120 s > scenario length)"]}
