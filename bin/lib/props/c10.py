"""C10 - peer scores equal the GossipSub v1.1 scoring function of the peer's history.

spec/score: Score.tla (exact fixed-point model: the scoring function P1..P7 and the tracer /
maintenance events), GenScore.tla (event histories: exhaustive short ones after forced prefixes,
seeded `-simulate` long ones; model-level properties), ScoreTrace.tla (deterministic replay of the
histories recorded on the REAL peerScore: equality of every reported score with Score(p), bounds,
penalties-only-lower, retention), ScoreParams.tla (validators over the extended-value grid).
harness/drivers/c10: TestC10Replay, TestC10Params."""
import json, os, random, re, concurrent.futures as cf
from .. import vlib

LEVEL = "model_checking"
FAMILY = "score"
POOL, WORKERS = 2, 2     # concurrent TLC runs x workers each (at most 4 TLC workers in total)

COV_NAMES = {
    1: "first-delivery counter reaches its cap", 2: "refresh decays a counter that sits at its cap",
    3: "disconnect with score <= 0 (retained)", 4: "disconnect with score > 0 (forgotten)",
    5: "reconnect of a retained peer with a negative score", 6: "graft of a peer that carries penalties",
    7: "duplicate before validation ends (mesh peer)", 8: "retroactive near-first credit at delivery",
    9: "duplicate strictly inside the delivery window", 10: "duplicate exactly at the end of the delivery window",
    11: "duplicate after the delivery window", 12: "duplicate of an invalid message",
    13: "parameter update that lowers a cap below a live counter", 14: "parameter update that starts scoring a topic",
    15: "two topics with positive scores cut by the topic score cap", 16: "IP colocation above the threshold",
    17: "colocated peers on a whitelisted IP", 18: "decay-to-zero", 19: "purge of a retained peer after expiry",
    20: "refresh leaves a retained negative score alone", 21: "refresh exactly at the expiry instant (peer kept)",
    22: "P3 deficit penalty active", 23: "sticky P3b penalty applied on prune/disconnect", 24: "P7 above its threshold",
    25: "P1 above its cap", 26: "refresh exactly at the activation time (not yet active)", 27: "activation of P3",
    28: "delivery record expired and collected", 29: "mesh-delivery counter reaches its cap", 30: "P3b of a pruned peer",
    31: "IP colocation surplus of two or more (the square matters)",
    32: "update lowers ONLY the first-delivery cap while a counter of some peer is above the new cap",
    33: "update lowers ONLY the mesh-delivery cap while a counter of some peer is above the new cap",
    34: "update lowers both caps while a counter is above a new cap", 35: "update refused by validation (old parameters stay)",
    36: "update that lowers no cap (weights/decays/thresholds/window/activation/quantum or raised caps) on a topic with history",
    37: "update re-caps a counter of a retained (disconnected) peer",
}
# the obligations of DESIGN section 4 C10 in terms of the tags above (every listed tag must be hit)
OBLIGATIONS = {
    "cap hit then decay": [1, 2],
    "retention with reconnect": [3, 4, 5, 19, 20, 21],
    "duplicate before / inside / after the delivery window": [7, 8, 9, 10, 11, 12],
    "recap on parameter update": [13, 14, 32, 33, 34, 35, 36, 37],
    "two topics under the topic cap": [15],
    "colocation above threshold, with and without whitelist": [16, 17, 31],
    "decay-to-zero": [18],
    "P3 activation, sticky P3b, P7, P1 cap": [22, 23, 24, 25, 26, 27, 29, 30],
    "delivery record GC": [28],
}
REASONS = ["missing signature", "invalid signature", "unexpected signature", "unexpected auth info",
           "self originated message", "blacklisted peer", "blacklisted source", "validation queue full",
           "validation throttled", "validation ignored", "validation failed"]


def consts(ps, L, peers=("p1", "p2"), topics=("t1", "t2"), ids=("m1", "m2", "m3"), maxref=4, maxnow=6,
           ipsets="NoIPs", app="App2", rich=False, sim=False, warm=0):
    q = lambda xs: "{" + ", ".join('"%s"' % x for x in xs) + "}"
    return {"Peers": q(peers), "Topics": q(topics), "Ids": q(ids), "PS": ps, "L": L, "MaxRefresh": maxref,
            "MaxNow": maxnow, "IPSets": "IPSets <- " + ipsets, "AppVals": "AppVals <- " + app,
            "Rich": rich, "Sim": sim, "Warm": warm}


def model_check(ctx):
    """Model level: Bounds / PenaltiesOnlyLower / Forgotten as invariants, Retention as an action
    property, over all histories up to the bound (VIEW merges histories reaching the same scorer state)."""
    states = trans = 0
    invs = ["P_C10_Bounds", "P_C10_PenaltiesOnlyLower", "P_C10_Forgotten"]
    plan = [("mc-ps1", consts(1, 5, ids=("m1", "m2"), maxref=3, maxnow=4)),
            ("mc-ps3-rich", consts(3, 4, ids=("m1", "m2"), maxref=3, maxnow=4, rich=True, ipsets="SomeIPs")),
            ("mc-warm1", consts(1, 3, topics=("t1",), maxnow=7, warm=1)),
            ("mc-warm3", consts(1, 4, topics=("t1",), maxnow=7, warm=3))]
    if ctx.thorough:
        plan = [("mc-ps1", consts(1, 6, ids=("m1", "m2"), maxref=3, maxnow=4)),
                # (rich alphabet: ~35 one-aspect parameter updates per topic, two per history; one event shorter than the core runs)
                ("mc-ps2-rich", consts(2, 4, ids=("m1", "m2"), maxref=3, maxnow=4, rich=True, ipsets="SomeIPs")),
                ("mc-ps3-rich", consts(3, 4, ids=("m1", "m2"), maxref=3, maxnow=5, rich=True, ipsets="SomeIPs")),
                ("mc-warm2-rich", consts(1, 3, topics=("t1",), maxnow=7, warm=2, rich=True)),
                ("mc-warm4-rich", consts(1, 3, topics=("t1",), maxnow=7, warm=4, rich=True)),
                ("mc-ps4", consts(4, 5, ids=("m1", "m2"), maxref=3, maxnow=4)),
                ("mc-warm1", consts(1, 4, topics=("t1",), maxnow=7, warm=1)),
                ("mc-warm2", consts(1, 4, topics=("t1",), maxnow=7, warm=2)),
                ("mc-warm3", consts(1, 5, topics=("t1",), maxnow=8, warm=3))]
    mcs = {}
    nv = [("NV_CapHit", consts(1, 1, topics=("t1",), maxnow=7, warm=2)),
          ("NV_Retained", consts(1, 1, topics=("t1",), maxnow=7, warm=3)),
          ("NV_TopicCap", consts(2, 5, topics=("t1",), ids=("m1",), maxnow=3)),
          ("NV_Sticky", consts(1, 2, topics=("t1",), maxnow=7, warm=1))]

    def one(job):
        kind, name, c = job
        if kind == "mc":
            cfg = vlib.cfg_text(constants=c, invariants=invs, properties=["P_C10_Retention"], view="View")
            return job, vlib.run_tlc(ctx, FAMILY, "GenScore", cfg, timeout=2400 if ctx.thorough else 900, name=name, workers=WORKERS)
        # non-vacuity: the interesting situations are reachable inside those bounds (each NV_* must be violated)
        return job, vlib.run_tlc(ctx, FAMILY, "GenScore", vlib.cfg_text(constants=c, invariants=[name], view="View"),
                                 timeout=900, name="mc-" + name, workers=WORKERS)

    jobs = [("mc", n, c) for n, c in plan] + [("nv", n, c) for n, c in nv]
    with cf.ThreadPoolExecutor(max_workers=POOL - 1) as ex:    # (the parameter grid runs beside these: 1 x 2 + 2 workers)
        for (kind, name, c), r in ex.map(one, jobs):
            if kind == "mc":
                vlib.require_mc_ok(ctx, r, "GenScore %s" % name)
                states += r.distinct; trans += r.generated
                mcs[name] = [r.distinct, r.generated]
            else:
                vlib.require_mc_fails(ctx, r, "GenScore non-vacuity", name)
    return states, trans, mcs


def scn_key(s):
    return json.dumps([s["ps"], s["ev"]], sort_keys=True)


def generate(ctx):
    """TLC emits the histories: exhaustive short ones (all event sequences of length L after a forced
    prefix) and simulated long ones (seed = VERIF_SEED)."""
    states = trans = 0
    ex_plan, sim_plan = [], []
    core = dict(topics=("t1",), ids=("m1",), maxnow=3)
    if not ctx.thorough:
        ex_plan += [("ex-ps%d" % ps, consts(ps, 3, **core), 1200) for ps in (1, 2, 3)]
        ex_plan += [("ex-w%d" % w, consts(1, 2, topics=("t1",), ids=("m1", "m2", "m3"), maxnow=8, warm=w, rich=(w == 2)), 1200) for w in (1, 2, 3)]
        ex_plan += [("ex-w3-ps3", consts(3, 2, topics=("t1",), ids=("m1", "m2", "m3"), maxnow=8, warm=3), 800)]
        sim_n, sim_keep = 200, 400
        sim_L = [24]
    else:
        ex_plan += [("ex-ps%d" % ps, consts(ps, 3, **core), 7000) for ps in (1, 2, 3, 4)]
        ex_plan += [("ex-w%d" % w, consts(1, 3, topics=("t1",), ids=("m1", "m2", "m3"), maxnow=8, warm=w, rich=(w == 2)), 12000) for w in (1, 2, 3)]
        ex_plan += [("ex-w%d-ps3" % w, consts(3, 3, topics=("t1",), ids=("m1", "m2", "m3"), maxnow=8, warm=w), 6000) for w in (1, 3)]
        sim_n, sim_keep = 1200, 2400
        sim_L = [18, 26, 34]
    # every single event - in particular every one-aspect parameter update (each cap lowered alone, both, raised, every
    # weight/decay/threshold/window/activation/quantum, refused records) - on counters that sit above the lowered caps,
    # with a retained peer (warm 3, 4) and past activation (warm 1); never sampled
    ex_plan += [("ex-w%d-L1" % w, consts(1, 1, topics=("t1",), ids=("m1", "m2", "m3"), maxnow=8, warm=w, rich=True), 10 ** 9) for w in (1, 2, 3, 4)]
    ex_plan += [("ex-w2-ps3-L1", consts(3, 1, topics=("t1",), ids=("m1", "m2", "m3"), maxnow=8, warm=2, rich=True), 10 ** 9)]
    for ps in (1, 2, 3, 4):
        for L in sim_L:
            sim_plan.append(("sim-ps%d-L%d" % (ps, L),
                             consts(ps, L, ids=("m1", "m2", "m3"), maxref=L, maxnow=L + 1, ipsets="SomeIPs", app="App3",
                                    rich=True, sim=True), L))
    # three peers on one address (a colocation surplus of 2: the square of P6 matters)
    sim_plan.append(("sim-ps1-3peers", consts(1, 20, peers=("p1", "p2", "p3"), topics=("t1",), ids=("m1", "m2"), maxref=20, maxnow=21,
                                              ipsets="SomeIPs", app="App2", rich=True, sim=True), 20))
    scns, exhaustive_all = [], True
    rnd = random.Random(ctx.seed)

    def gen(job):
        kind, name, c, x = job
        cfg = vlib.cfg_text(constants=c, invariants=["Emit"])
        if kind == "ex":
            return job, vlib.run_tlc(ctx, FAMILY, "GenScore", cfg, timeout=1800, name=name, heap="4g", workers=WORKERS)
        return job, vlib.run_tlc(ctx, FAMILY, "GenScore", cfg, mode="sim", simulate="num=%d" % sim_n, depth=x + 2, timeout=1800,
                                 name=name, workers=WORKERS, heap="2g")

    jobs = [("ex", n, c, lim) for n, c, lim in ex_plan] + [("sim", n, c, L) for n, c, L in sim_plan]
    n_ex = 0
    with cf.ThreadPoolExecutor(max_workers=POOL) as ex:
        results = list(ex.map(gen, jobs))
    for (kind, name, c, x), g in results:
        got = sorted(g.printed("SCN"), key=scn_key)   # (the order of TLC's output lines depends on worker scheduling)
        if kind == "ex":
            vlib.require_mc_ok(ctx, g, "GenScore %s" % name)
            states += g.distinct
            if len(got) > x:
                exhaustive_all = False
                rnd.shuffle(got)
                got = got[:x]
            n_ex += len(got)
        else:
            if g.timed_out or g.errors:
                raise vlib.Inconclusive("simulation %s failed: %s (see %s)" % (name, g.errors[:2], g.dir))
            rnd.shuffle(got)
            got = got[:sim_keep]
        if not got:
            raise vlib.Inconclusive("generator %s emitted nothing (see %s)" % (name, g.dir))
        m = re.search(r"The number of states generated: (\d+)", g.out)      # (simulation mode prints its own counter)
        trans += g.generated or (int(m.group(1)) if m else 0)
        for s in got:
            s["src"] = name
        scns += got
    seen, uniq = set(), []
    for s in scns:
        k = scn_key(s)
        if k not in seen:
            seen.add(k); uniq.append(s)
    return uniq, n_ex, exhaustive_all, states, trans


def stream_traces(path):
    """Yield (raw text lines, parsed lines) per scenario of the driver's output (a scenario starts with reset)."""
    raw, cur = None, None
    with open(path) as f:
        for text in f:
            if not text.strip():
                continue
            ln = json.loads(text)
            if ln.get("e") in ("reset", "badparams"):
                if cur is not None:
                    yield raw, cur
                raw, cur = [text], [ln]
            elif cur is not None:
                raw.append(text); cur.append(ln)
    if cur is not None:
        yield raw, cur


def validate_chunk(ctx, c):
    """Deterministic replay of one chunk file by TLC (ScoreTrace)."""
    res = vlib.run_tlc(ctx, FAMILY, "ScoreTrace", "ScoreTrace.cfg", mode="trace", files={"trace.ndjson": c["path"]},
                       timeout=2400, name="tv-%d" % c["first"], heap="3g")
    if res.hw is None or res.hw[0] < res.hw[1] or not res.no_error:
        raise vlib.Inconclusive("trace replay did not reach the end of the file (see %s/tlc.out): hw=%s errors=%s" %
                                (res.dir, res.hw, res.errors[:2]))
    m = re.search(r'<<\s*"COV",\s*"(\[[\d,]*\])"\s*>>', res.out)
    if not m:
        raise vlib.Inconclusive("trace replay printed no coverage line (see %s/tlc.out)" % res.dir)
    cov = json.loads(m.group(1))
    viols = []
    # <<"VIOL", ToJson(<<line, pred, peer, what, expected, observed>>)>> (possibly wrapped over two lines)
    for vm in re.finditer(r'<<\s*"VIOL",\s*"(.*?)"\s*>>', res.out, re.S):
        try:
            v = json.loads(vm.group(1).replace('\\"', '"').replace("\\\\", "\\"))
        except Exception:
            raise vlib.Inconclusive("unparsable VIOL line in %s/tlc.out" % res.dir)
        viols.append((c, v[0], v[1], v[2:]))
    return viols, cov, res.distinct


def replay_part(ctx, given=None):
    if given is None:
        uniq, n_ex, exhaustive, gstates, gtrans = generate(ctx)
    else:
        uniq, n_ex, exhaustive, gstates, gtrans = given, 0, False, 0, 0
    scn_file = os.path.join(ctx.work, "scenarios.ndjson")
    vlib.write_ndjson(scn_file, uniq)
    ctx.log("generated %d histories (%d from exhaustive enumeration, all kept=%s)" % (len(uniq), n_ex, exhaustive))
    outp = os.path.join(ctx.work, "TestC10Replay.ndjson")
    r = vlib.run_go(ctx, "./drivers/c10/", "^TestC10Replay$", env={"VERIF_IN": scn_file, "VERIF_OUT": outp}, timeout=1500)
    if not os.path.exists(outp) or os.path.getsize(outp) == 0 or r["rc"] != 0:
        raise vlib.Inconclusive("driver TestC10Replay failed (rc=%s, see %s)" % (r["rc"], r["log"]))

    # one pass over the driver's output: observations python makes itself (panics, per-reason coverage, re-graft after
    # retention, non-triviality) and the chunk files for TLC; nothing of the trace is kept in memory
    per_chunk = 1200 if not ctx.thorough else 2500
    chunks, cur = [], None
    reason_hits, regraft, nontrivial, ntraces, nevents = {}, 0, 0, 0, 0
    sample, sample_vals = None, 0
    for raw, t in stream_traces(outp):
        if t[0]["e"] == "badparams" or any(l["e"] == "drivererror" for l in t):
            raise vlib.Inconclusive("the library rejected a parameter set of the exact-arithmetic family or the driver failed: %s" % json.dumps(t[:1] + t[-1:])[:400])
        if cur is None or len(cur["scn"]) >= per_chunk:
            if cur is not None:
                cur["f"].close()
            path = os.path.join(ctx.work, "tv-chunk-%d.ndjson" % ntraces)
            cur = {"path": path, "first": ntraces, "scn": [], "f": open(path, "w")}
            chunks.append(cur)
        cur["scn"].append((t[0]["scn"], len(t)))
        cur["f"].writelines(raw)
        ntraces += 1
        nevents += len(t) - 1
        was_retained, reconnected, vals = set(), set(), set()
        for l in t[1:]:
            if l["e"] == "panic":
                vlib.add_violation(ctx, "P_C10_Function", {"part": "replay", "kind": "panic", "where": l["msg"].split("|")[-1].strip()},
                                   "the scorer panicked at event %d (%s) of a history: %s" % (l["at"], l["ev"], l["msg"]),
                                   {"scenario": uniq[t[0]["scn"]], "failing_event": l["at"]})
                break
            obs = l["obs"]
            for o in obs.values():
                vals.add(o["score"])
            e = l["e"]
            if e == "reject" and obs.get(l["p"], {}).get("tracked") and l["t"] in t[0]["par"]["topics"]:
                reason_hits[l["reason"]] = reason_hits.get(l["reason"], 0) + 1
            elif e == "disconnect" and obs[l["p"]]["tracked"]:
                was_retained.add(l["p"])
            elif e == "connect" and l["p"] in was_retained:
                reconnected.add(l["p"])
            elif e == "refresh":
                was_retained = {p for p in was_retained if obs[p]["tracked"]}
                reconnected = {p for p in reconnected if obs[p]["tracked"]}
            elif e == "graft" and l["p"] in reconnected and obs[l["p"]]["top"].get(l["t"], {}).get("in"):
                regraft += 1
        if len(vals) >= 3:
            nontrivial += 1
        if len(vals) > sample_vals and ntraces <= 4000:
            sample_vals = len(vals)
            sample = {"driver": "TestC10Replay", "history": [{k: v for k, v in l.items() if k != "obs"} for l in t[1:13]],
                      "scores_x4096": [{p: o["score"] for p, o in l["obs"].items()} for l in t[1:13] if "obs" in l]}
    if cur is not None:
        cur["f"].close()
    if ntraces != len(uniq):
        raise vlib.Inconclusive("driver replayed %d of %d histories" % (ntraces, len(uniq)))
    ctx.log("replayed on the real scorer: %d histories, %d events" % (ntraces, nevents))
    os.remove(outp)

    viols, cov, tstates = [], [0] * 64, 0
    with cf.ThreadPoolExecutor(max_workers=max(1, min(vlib.NCPU // 2, 4, len(chunks)))) as ex:
        for v, c, st in ex.map(lambda c: validate_chunk(ctx, c), chunks):
            viols += v
            tstates += st
            for i, n in enumerate(c):
                cov[i] += n
    mach = [v for v in viols if v[2] == "MACH"]
    if mach:
        raise vlib.Inconclusive("virtual clock of the driver and of the model disagree: %s" % (mach[0][1:],))
    for (c, lineno, pred, rest) in viols:
        # line number inside the chunk file -> (scenario, event index)
        n, scn, k = lineno, None, None
        for (s, cnt) in c["scn"]:
            if n <= cnt:
                scn, k = s, n - 1
                break
            n -= cnt
        with open(c["path"]) as f:
            for i, text in enumerate(f, 1):
                if i == lineno:
                    ev = json.loads(text)
                    break
        peer, what = (rest + ["?", "?"])[:2]
        tail = json.dumps(rest[2:])
        sig = {"part": "replay", "what": str(what).split(" (")[0], "event": ev.get("e")}
        detail = "after event %d (%s) of a %s history, peer %s: %s; model %s" % (
            k, json.dumps({x: ev[x] for x in ev if x not in ("obs",)}), uniq[scn].get("src"), peer, what,
            ("expected/observed = " + tail)[:600])
        vlib.add_violation(ctx, pred, sig, detail, {"scenario": uniq[scn], "failing_event": k, "observed": ev.get("obs")})
    for c in chunks:
        os.remove(c["path"])
    return dict(ntraces=ntraces, n_ex=n_ex, exhaustive=exhaustive, gstates=gstates, gtrans=gtrans, cov=cov, sample=sample,
                tstates=tstates, reason_hits=reason_hits, regraft=regraft, nontrivial=nontrivial, events=nevents)


WEIGHT_OF = {"P1": "TimeInMeshWeight", "P2": "FirstMessageDeliveriesWeight", "P3": "MeshMessageDeliveriesWeight",
             "P3b": "MeshFailurePenaltyWeight", "P4": "InvalidMessageDeliveriesWeight", "TW": "TopicWeight",
             "P5": "AppSpecificWeight", "P6": "IPColocationFactorWeight", "P7": "BehaviourPenaltyWeight"}
DEFAULTS = {"TimeInMeshWeight": "1", "FirstMessageDeliveriesWeight": "1", "MeshMessageDeliveriesWeight": "-1",
            "MeshFailurePenaltyWeight": "-1", "InvalidMessageDeliveriesWeight": "-1", "TopicWeight": "1",
            "AppSpecificWeight": "1", "IPColocationFactorWeight": "-1", "BehaviourPenaltyWeight": "-1",
            "TimeInMeshQuantum": "1s"}
HISTORY_STEPS = 30


def params_grid(ctx):
    return vlib.run_tlc(ctx, FAMILY, "ScoreParams", vlib.cfg_text(invariants=["Emit"]), timeout=1800, name="params-grid", workers=WORKERS)


def params_part(ctx, g):
    """Second half of the property: every parameter vector of the grid through the REAL validators and,
    when they accept it, through a fixed history.  Violation = accepted by the real code and NaN or panic."""
    if isinstance(g, list):
        vecs, gd, gg = g, 0, 0           # --replay: the given vectors
    else:
        vlib.require_mc_ok(ctx, g, "ScoreParams grid")
        vecs, gd, gg = g.printed("VEC"), g.distinct, g.generated
        if len(vecs) < 5000:
            raise vlib.Inconclusive("ScoreParams emitted only %d vectors" % len(vecs))
    vecs.sort(key=lambda v: json.dumps(v, sort_keys=True))
    vin = os.path.join(ctx.work, "vectors.ndjson")
    vlib.write_ndjson(vin, vecs)
    outp = os.path.join(ctx.work, "TestC10Params.ndjson")
    r = vlib.run_go(ctx, "./drivers/c10/", "^TestC10Params$", env={"VERIF_IN": vin, "VERIF_OUT": outp}, timeout=900)
    if r["rc"] != 0 or not os.path.exists(outp):
        raise vlib.Inconclusive("driver TestC10Params failed (rc=%s, see %s)" % (r["rc"], r["log"]))
    rows = vlib.read_ndjson(outp)
    if len(rows) != len(vecs):
        raise vlib.Inconclusive("driver TestC10Params judged %d of %d vectors" % (len(rows), len(vecs)))
    drift, accepted, clean, predicted_unseen, seen_unpredicted = [], 0, 0, 0, 0
    per_group = {}
    for row in rows:
        grp = row["grp"]
        pg = per_group.setdefault(grp, {"vectors": 0, "accepted": 0, "nan_or_panic": 0})
        pg["vectors"] += 1
        if row["accept_real"] != row["accept_model"]:
            drift.append(row)
        if not row["accept_real"] or row["kind"] == "thresholds":
            pg["accepted"] += 1 if row["accept_real"] else 0
            continue
        accepted += 1
        pg["accepted"] += 1
        broken = row.get("nan") or row.get("panic")
        if not broken:
            if row.get("steps") != HISTORY_STEPS:
                raise vlib.Inconclusive("fixed history stopped early without a panic: %s" % json.dumps(row)[:300])
            clean += 1
            if row["hazard_model"]:
                predicted_unseen += 1
            continue
        pg["nan_or_panic"] += 1
        if not row["hazard_model"]:
            seen_unpredicted += 1
        f = row["f"]
        nonfinite = "+".join(k for k in sorted(f) if f[k] in ("NaN", "-Inf", "+Inf"))
        wf = WEIGHT_OF.get(grp)
        weight = f.get(wf, DEFAULTS.get(wf, "")) if wf else ""
        if row.get("panic"):
            msg = row.get("panic_msg", "")
            q = f.get("TimeInMeshQuantum", DEFAULTS["TimeInMeshQuantum"])
            cause = "TimeInMeshQuantum=0" if ("divide by zero" in msg and q == "0") else msg[:120]
            sig = {"part": "params", "kind": "panic", "cause": cause, "group": grp, "skip": row["skip"]}
            detail = "accepted by the real validators (SkipAtomicValidation=%s) and the scorer panicked at step %s of the fixed history: %s; fields %s" % (
                row["skip"], row.get("steps"), msg, json.dumps(f))
        else:
            sig = {"part": "params", "kind": "nan", "group": grp, "field": nonfinite, "weight": weight, "skip": row["skip"]}
            detail = "accepted by the real validators (SkipAtomicValidation=%s) and Score() returned NaN after '%s'; fields %s" % (
                row["skip"], row.get("nan_at"), json.dumps(f))
        vlib.add_violation(ctx, "P_C10_Total", sig, detail, {"vector": row})
    if drift:
        ctx.notes.append("MODEL-DRIFT: real validators and ScoreParams.tla disagree on %d of %d vectors, e.g. %s" % (
            len(drift), len(rows), json.dumps({k: drift[0][k] for k in ("grp", "skip", "f", "accept_model", "accept_real")})))
    if predicted_unseen:
        ctx.notes.append("%d accepted vectors are hazardous according to ScoreParams!Hazard (some history breaks them) but the fixed history did not break them" % predicted_unseen)
    if seen_unpredicted:
        ctx.notes.append("%d accepted vectors broke the real scorer although ScoreParams!Hazard did not predict it" % seen_unpredicted)
    need = set(WEIGHT_OF) | {"CAP", "DECAY", "TH", "THX"}
    missing = [x for x in sorted(need) if per_group.get(x, {}).get("accepted", 0) == 0]
    if missing and not isinstance(g, list):
        raise vlib.Inconclusive("parameter groups without a single accepted vector: %s" % missing)
    if clean < 500 and not isinstance(g, list):
        raise vlib.Inconclusive("only %d accepted vectors ran the whole fixed history" % clean)
    sample = next((r for r in rows if r["accept_real"] and r["kind"] != "thresholds" and not (r.get("nan") or r.get("panic")) and not r["skip"]), None)
    return dict(vectors=len(rows), accepted=accepted, clean=clean, drift=len(drift), per_group=per_group,
                hazard_model=sum(1 for v in vecs if v["hazard"]), states=gd, trans=gg, sample=sample)


def run_replay(ctx):
    """bin/check C10 --replay replays/C10-....json : re-run one recorded failure on the current tree."""
    payload = json.load(open(ctx.replay)).get("replay") or {}
    n = 0
    ctx.evid_dir = ctx.work        # a replay must not overwrite the evidence of the full run
    if "scenario" in payload:
        rp = replay_part(ctx, [payload["scenario"]])
        n = rp["events"]
    elif "vector" in payload:
        v = payload["vector"]
        pp = params_part(ctx, [{"kind": v["kind"], "grp": v["grp"], "skip": v["skip"], "f": v["f"],
                                "accept": v["accept_model"], "hazard": v["hazard_model"]}])
        n = pp["vectors"]
    else:
        raise vlib.Inconclusive("nothing to replay in %s" % ctx.replay)
    return vlib.finish(ctx, LEVEL, {"states": 1, "transitions": 1, "traces_validated_against_impl": 1, "evaluations": n,
                                    "distinct_nontrivial": 0, "rule": "replay of one recorded failure", "samples": [payload]}, [])


def run(ctx):
    if ctx.replay:
        return run_replay(ctx)
    with cf.ThreadPoolExecutor(max_workers=1) as bg:
        grid = bg.submit(params_grid, ctx)          # the grid enumeration runs beside the model checking
        states, trans, mcs = model_check(ctx)
        rp = replay_part(ctx)
        states += rp["gstates"] + rp["tstates"]; trans += rp["gtrans"] + rp["tstates"]
        pp = params_part(ctx, grid.result())
    states += pp["states"]; trans += pp["trans"]

    # coverage obligations (DESIGN C10): unmet => inconclusive, unless a violation was already found
    cov = rp["cov"]
    hits = {COV_NAMES[i]: cov[i - 1] for i in COV_NAMES}
    missing = []
    for name, tags in OBLIGATIONS.items():
        miss = [COV_NAMES[i] for i in tags if cov[i - 1] == 0]
        if miss:
            missing.append("%s: %s" % (name, miss))
    miss_r = [r for r in REASONS if not rp["reason_hits"].get(r)]
    if miss_r:
        missing.append("reject reasons never replayed on a tracked peer: %s" % miss_r)
    if rp["regraft"] == 0:
        missing.append("retention with reconnect and re-graft")
    if missing and not ctx.violations:
        raise vlib.Inconclusive("coverage obligations not met: " + "; ".join(missing))

    samples = [rp["sample"]] if rp["sample"] else []
    covd = {"states": states, "transitions": trans, "traces_validated_against_impl": rp["ntraces"],
            "samples": samples, "evaluations": rp["events"], "distinct_nontrivial": rp["nontrivial"],
            "parameter_vectors_judged": pp["vectors"],
            "rule": "evaluation = one event replayed on the real peerScore with the score of every peer compared for equality with Score(p) "
                    "(plus bounds, penalties-only-lower, retention); history distinct by (parameter set, event list); non-trivial = at least three different score values observed",
            "exhaustive": rp["exhaustive"], "histories_exhaustive_part": rp["n_ex"], "situations_hit": hits,
            "reject_reasons_hit": rp["reason_hits"], "regraft_after_retention": rp["regraft"], "mc": mcs,
            "parameter_grid": {k: pp[k] for k in ("vectors", "accepted", "clean", "drift", "hazard_model", "per_group")}}
    if pp["sample"]:
        samples.append({"driver": "TestC10Params", "vector": pp["sample"]})
    return vlib.finish(ctx, LEVEL, covd, [
        "the exact-arithmetic parameter family (decays 1/2 and 1/4, dyadic DecayToZero, integer weights/caps/thresholds, whole-second durations) exercises the same code paths as arbitrary parameters",
        "the scorer is driven through its tracer/maintenance entry points directly (no router): which router event produces which scoring call is outside this check",
        "IPs are assigned through VerifSetPeerIPs (the host's connection list is not modelled)",
        "testing/synctest virtual time: every event happens at a whole second",
        "parameter space: groups of fields over the grid {NaN,-Inf,-1,0,1/2,1,2,+Inf} with the other groups at valid defaults (hazards that need two groups at once are not enumerated); accepted vectors are judged on one fixed 30-step history"])
