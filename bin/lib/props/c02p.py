"""Stand-alone entry for the pipeline part of C02 (bin/check C02P): for testing; the C02 check merges the parts."""
from .. import vlib
from .c02_pipeline import run_pipeline

LEVEL = "model_checking"


def run(ctx):
    p = run_pipeline(ctx)
    cov = {"states": p["states"], "transitions": p["transitions"], "traces_validated_against_impl": p["traces"],
           "samples": p["samples"], "evaluations": p["evaluations"], "distinct_nontrivial": p["distinct_nontrivial"],
           "rule": p["rule"], "exhaustive": False, "hits": p["hits"], "obligations": p["obligations"], "mc": p["mc"],
           "generated_scenarios": p["generated"], "directed_scenarios": p["directed"], "model_drift": p["drift"]}
    return vlib.finish(ctx, LEVEL, cov, p["assumptions"])
