"""C14 - after shutdown every API call returns and every library goroutine exits.

spec/lifecycle: Lifecycle (event loop, API calls by hand-off pattern, validation worker, timers,
stream goroutines, cancellation at any point; as-found constants MUST fail), GenLifecycle (positions
of every call at the instant of the cancellation that the harness can force), LifecycleTrace
(return-by-deadline and exit facts observed on the real code), LifecyclePatterns (api -> pattern).

The driver (harness/drivers/c14) parks the real event loop with a blocking RawTracer callback or
an application callback, cancels, releases, and reports which calls returned within 30 s of virtual
time and which library goroutines survived the closing of the hosts."""
import json, os, random, re
from .. import vlib

LEVEL = "model_checking"
FAMILY = "lifecycle"

ROUTERS = ["gossipsub", "floodsub", "randomsub"]
APIS = {
    "SelSend_Recv": ["PubSub.Join", "PubSub.Subscribe", "Topic.Subscribe", "Topic.Relay", "PubSub.GetTopics",
                     "PubSub.RegisterTopicValidator", "PubSub.UnregisterTopicValidator", "Topic.Close",
                     "Topic.SetScoreParams", "Topic.EventHandler"],
    "SelSend_SelRecv": ["PubSub.AddDirectPeer", "PubSub.RemoveDirectPeer", "PubSub.PeerFeedback", "PublishPartial"],
    "SelSend": ["Subscription.Cancel", "PubSub.BlacklistPeer", "RelayCancelFunc"],
    "SelSend_Unbuf": ["PubSub.ListPeers", "Topic.ListPeers"],
    "Publish": ["Topic.Publish", "PubSub.Publish", "Topic.PublishReady", "Topic.AddToBatch", "Topic.PublishNotReady"],
    "PublishBatch": ["PubSub.PublishBatch"],
    "SubscribeDisc": ["Topic.Subscribe", "Topic.Relay"],
}
# the APIs whose FIRST blocking step is discover.Discover (PubSub.Subscribe starts with tryJoin's hand-off)
USES_DISCQ = {"Topic.Subscribe", "Topic.Relay"}
GOSSIP_ONLY = {"PubSub.AddDirectPeer", "PubSub.RemoveDirectPeer", "PubSub.PeerFeedback", "PubSub.PublishBatch"}
# requests whose handling calls back into the harness on the loop goroutine (so the loop can be parked there)
PARKABLE = {"SelSend_Recv": ["Topic.Subscribe", "PubSub.Subscribe", "Topic.Relay"],
            "SubscribeDisc": ["Topic.Subscribe", "Topic.Relay"],
            "SelSend_SelRecv": ["PublishPartial"],          # gossipsub only (the actions function)
            "SelSend": ["Subscription.Cancel", "RelayCancelFunc"]}
CALLER_CTX = ["Subscription.Next", "TopicEventHandler.NextPeerEvent"]
DURING = {"handling", "handoff", "validator", "sendq", "barefull"}


# (goroutine, blocking point) obligations: every goroutine the library starts must have been observed alive and
# blocked at each of its blocking points at the instant of the cancellation in at least one scenario. A point is
# "root function | innermost library function | statement" as rendered by the driver from the goroutine dump
# and the source line (a select is rendered with the heads of its cases, so a dropped arm changes the name).
# Third element: families in which the point counts (two selects of one function can read the same).
CTX = r"case <-(gs\.p\.|d\.p\.|v\.p\.|p\.)?ctx\.Done\(\)"
GOROUTINE_POINTS = [
    ("processLoop: main select", r"^PubSub\.processLoop \| PubSub\.processLoop \| select\{.*case thunk := <-p\.eval;.*case <-ctx\.Done\(\)\}$", None),
    ("processLoop: inside an application callback (parked)", r"^PubSub\.processLoop \| (pubsubTracer\.\w+|partialmessages\.PartialMessagesExtension) \| ", None),
    ("watchForNewPeers: select", r"^PubSub\.watchForNewPeers \| PubSub\.watchForNewPeers \| select\{case <-ctx\.Done\(\); case ev = <-sub\.Out\(\)\}$", None),
    ("handleNewPeer: in host.NewStream", r"^PubSub\.handleNewPeer \| PubSub\.handleNewPeer \| s, err := p\.host\.NewStream\(ctx", None),
    ("handleNewPeer: newPeerError hand-off", r"^PubSub\.handleNewPeer \| PubSub\.handleNewPeer \| select\{case p\.newPeerError <- pid; case <-ctx\.Done\(\)\}$", None),
    ("handleNewPeer: newPeerStream hand-off", r"^PubSub\.handleNewPeer \| PubSub\.handleNewPeer \| select\{case p\.newPeerStream <- peerOutgoingStream\{.*; case <-ctx\.Done\(\)\}$", None),
    ("handleNewPeerWithBackoff: back-off timer", r"^PubSub\.handleNewPeerWithBackoff \| PubSub\.handleNewPeerWithBackoff \| select\{case <-time\.After\(backoff\); case <-ctx\.Done\(\)\}$", None),
    ("announceRetry: sleeping", r"^PubSub\.announceRetry \| PubSub\.announceRetry \| time\.Sleep\(", None),
    ("announceRetry: eval hand-off", r"^PubSub\.announceRetry \| PubSub\.announceRetry \| select\{case p\.eval <- retry; case <-p\.ctx\.Done\(\)\}$", None),
    ("handleNewStream: waiting for the previous handler", r"\| PubSub\.handleNewStream \| select\{case <-prev\.done; case <-p\.ctx\.Done\(\)\}$", None),
    ("handleNewStream: NewStream hand-off (incoming full)", r"\| PubSub\.handleNewStream \| select\{case p\.incoming <- incomingUnion\{kind: incomingKindNewStream, s: s\}; case <-p\.ctx\.Done\(\)\}$", None),
    ("handleNewStream: reading the stream", r"\| PubSub\.handleNewStream \| .*r\.(NextMsgLen|ReadMsg)\(\)", None),
    ("handleNewStream: RPC hand-off (incoming full)", r"\| PubSub\.handleNewStream \| select\{case p\.incoming <- incomingUnion; case <-p\.ctx\.Done\(\)\}$", None),
    ("handleNewStream: ClosedStream hand-off (incoming full)", r"\| PubSub\.handleNewStream\.func1 \| select\{case p\.incoming <- incomingUnion\{kind: incomingKindClosedStream, s: s\}; case <-p\.ctx\.Done\(\)\}$", None),
    ("handleSendingMessages: waiting for the hello", r"^PubSub\.handleSendingMessages \| PubSub\.handleSendingMessages \| select\{case rpc := <-firstMessage; case <-ctx\.Done\(\)\}$", None),
    ("handleSendingMessages: in rpcQueue.Pop", r"^PubSub\.handleSendingMessages \| rpcQueue\.Pop \| q\.dataAvailable\.Wait\(\)$", None),
    ("handleSendingMessages: in a stalled stream write", r"^PubSub\.handleSendingMessages \| PubSub\.handleSendingMessages\.func1 \| _, err = s\.Write\(buf\)$", None),
    ("handlePeerDead: reading the stream", r"^PubSub\.handlePeerDead \| PubSub\.handlePeerDead \| _, err := s\.Read\(", None),
    ("heartbeatTimer: initial delay", r"^GossipSubRouter\.heartbeatTimer \| GossipSubRouter\.heartbeatTimer \| select\{case <-time\.After\(gs\.params\.HeartbeatInitialDelay\); case <-gs\.p\.ctx\.Done\(\)\}$", None),
    ("heartbeatTimer: first eval hand-off", r"^GossipSubRouter\.heartbeatTimer \| GossipSubRouter\.heartbeatTimer \| select\{case gs\.p\.eval <- gs\.heartbeat; case <-gs\.p\.ctx\.Done\(\)\}$", ["early-park"]),
    ("heartbeatTimer: ticker", r"^GossipSubRouter\.heartbeatTimer \| GossipSubRouter\.heartbeatTimer \| select\{case <-ticker\.C; case <-gs\.p\.ctx\.Done\(\)\}$", None),
    ("heartbeatTimer: eval hand-off at a tick", r"^GossipSubRouter\.heartbeatTimer \| GossipSubRouter\.heartbeatTimer \| select\{case gs\.p\.eval <- gs\.heartbeat; case <-gs\.p\.ctx\.Done\(\)\}$", ["", "retry-hand"]),
    ("connector: select", r"^GossipSubRouter\.connector \| GossipSubRouter\.connector \| select\{case ci := <-gs\.connect; case <-gs\.p\.ctx\.Done\(\)\}$", None),
    ("connector: in host.Connect", r"^GossipSubRouter\.connector \| GossipSubRouter\.connector \| err := gs\.p\.host\.Connect\(ctx", None),
    ("manageAddrBook: select", r"^GossipSubRouter\.manageAddrBook \| GossipSubRouter\.manageAddrBook \| select\{case <-gs\.p\.ctx\.Done\(\); case ev := <-sub\.Out\(\)\}$", None),
    ("direct-peer goroutine of Attach: initial delay", r"^GossipSubRouter\.Attach\.func1 \| GossipSubRouter\.Attach\.func1 \| time\.Sleep\(gs\.params\.DirectConnectInitialDelay\)$", None),
    ("direct-peer goroutine of Attach: send on gs.connect", r"^GossipSubRouter\.Attach\.func1 \| GossipSubRouter\.Attach\.func1 \| .*gs\.connect <- connectInfo", None),
    ("directConnect goroutine: send on gs.connect", r"^GossipSubRouter\.directConnect\.func1 \| GossipSubRouter\.directConnect\.func1 \| .*gs\.connect <- connectInfo", None),
    ("peerGater.background: select", r"^peerGater\.background \| peerGater\.background \| select\{case <-tick\.C; case <-ctx\.Done\(\)\}$", None),
    ("peerScore.background: select", r"^peerScore\.background \| peerScore\.background \| select\{.*case <-ctx\.Done\(\)\}$", None),
    ("backoff.cleanupLoop: select", r"^backoff\.cleanupLoop \| backoff\.cleanupLoop \| select\{case <-ctx\.Done\(\); case <-ticker\.C\}$", None),
    ("timecache.background (seen cache): select", r"^timecache\.background \| timecache\.background \| select\{case now := <-ticker\.C; case <-ctx\.Done\(\)\}$", None),
    ("validateWorker: select", r"^validation\.validateWorker \| validation\.validateWorker \| select\{case req := <-v\.validateQ; case <-v\.p\.ctx\.Done\(\)\}$", None),
    ("validateWorker: inside an inline validator", r"^validation\.validateWorker \| validatorImpl\.validateMsg \| r := val\.validate\(ctx, src, msg\)$", None),
    ("validateWorker: sendMsgBlocking (sendMsg full)", r"^validation\.validateWorker \| validation\.sendMsgBlocking \| select\{case v\.p\.sendMsg <- msg; case <-v\.p\.ctx\.Done\(\)\}$", None),
    ("validation goroutine: inside the validator", r"^validation\.validate\.func1 \| validatorImpl\.validateMsg \| r := val\.validate\(ctx, src, msg\)$", None),
    ("validation goroutine: sendMsgBlocking (sendMsg full)", r"^validation\.validate\.func1 \| validation\.sendMsgBlocking \| select\{case v\.p\.sendMsg <- msg; case <-v\.p\.ctx\.Done\(\)\}$", None),
    ("validation goroutine: waiting for its validators (validateTopic)", r"^validation\.validate\.func1 \| validation\.validateTopic \| switch <-rch \{$", None),
    ("per-validator goroutine of validateTopic: inside the validator", r"^validation\.validateTopic\.func1 \| validatorImpl\.validateMsg \| r := val\.validate\(ctx, src, msg\)$", None),
    ("discoverLoop: select", r"^discover\.discoverLoop \| discover\.discoverLoop \| select\{case discover := <-d\.discoverQ; case topic := <-d\.done; case <-d\.p\.ctx\.Done\(\)\}$", None),
    ("pollTimer: initial delay", r"^discover\.pollTimer \| discover\.pollTimer \| select\{case <-time\.After\(DiscoveryPollInitialDelay\); case <-d\.p\.ctx\.Done\(\)\}$", None),
    ("pollTimer: first eval hand-off", r"^discover\.pollTimer \| discover\.pollTimer \| select\{case d\.p\.eval <- d\.requestDiscovery; case <-d\.p\.ctx\.Done\(\)\}$", ["early-park"]),
    ("pollTimer: ticker", r"^discover\.pollTimer \| discover\.pollTimer \| select\{case <-ticker\.C; case <-d\.p\.ctx\.Done\(\)\}$", None),
    ("pollTimer: eval hand-off at a tick", r"^discover\.pollTimer \| discover\.pollTimer \| select\{case d\.p\.eval <- d\.requestDiscovery; case <-d\.p\.ctx\.Done\(\)\}$", [""]),
    ("discovery goroutine of discoverLoop: inside handleDiscovery", r"^discover\.discoverLoop\.func1 \| discover\.handleDiscovery \| ", None),
    ("advertising goroutine: timer", r"^discover\.Advertise\.func1 \| discover\.Advertise\.func1 \| select\{case <-t\.C; case <-advertisingCtx\.Done\(\)\}$", None),
]
CALLBACK_SITES = ["Up", "Down", "Join", "Leave", "Graft", "Prune", "Recv", "Send", "Drop", "Deliver", "Duplicate", "Reject",
                  "Undeliverable", "inspector", "filter", "partial", "ready"]
LOOP = r"^PubSub\.processLoop \| "
GOROUTINE_POINTS += [
    # cancellation while the loop is inside a callback (family cbcancel); what the loop still hands over afterwards:
    ("loop cancelled in RawTracer.OnNewOutboundStream (then: s.FirstMessage <- hello, writer gone)", LOOP + r"pubsubTracer\.OnNewOutboundStream \| ", ["cbcancel"]),
    ("loop cancelled in RawTracer.OnClosedOutboundStream", LOOP + r"pubsubTracer\.OnClosedOutboundStream \| ", ["cbcancel"]),
    ("loop cancelled in RawTracer.Join (then: req.resp <- sub, caller waiting)", LOOP + r"pubsubTracer\.Join \| ", ["cbcancel"]),
    ("loop cancelled in RawTracer.Leave", LOOP + r"pubsubTracer\.Leave \| ", ["cbcancel"]),
    ("loop cancelled in RawTracer.Graft", LOOP + r"pubsubTracer\.Graft \| ", ["cbcancel"]),
    ("loop cancelled in RawTracer.Prune", LOOP + r"pubsubTracer\.Prune \| ", ["cbcancel"]),
    ("loop cancelled in RawTracer.RecvRPC", LOOP + r"pubsubTracer\.RecvRPC \| ", ["cbcancel"]),
    ("loop cancelled in RawTracer.SendRPC (announce; then req.resp <- sub)", LOOP + r"pubsubTracer\.SendRPC \| ", ["cbcancel"]),
    ("loop cancelled in RawTracer.DropRPC (announce to a full queue; then go announceRetry, req.resp <- sub)", LOOP + r"pubsubTracer\.DropRPC \| ", ["cbcancel"]),
    ("loop cancelled in RawTracer.DeliverMessage (then notifySubs, router publish)", LOOP + r"pubsubTracer\.DeliverMessage \| ", ["cbcancel"]),
    ("loop cancelled in RawTracer.DuplicateMessage", LOOP + r"pubsubTracer\.DuplicateMessage \| ", ["cbcancel"]),
    ("loop cancelled in RawTracer.RejectMessage", LOOP + r"pubsubTracer\.RejectMessage \| ", ["cbcancel"]),
    ("loop cancelled in RawTracer.UndeliverableMessage (notifySubs)", LOOP + r"pubsubTracer\.UndeliverableMessage \| ", ["cbcancel"]),
    ("loop cancelled in the application's RPC inspector", LOOP + r"PubSub\.handleIncomingRPC \| .*appSpecificRpcInspector\(", ["cbcancel"]),
    ("loop cancelled in a subscription's message filter (notifySubs)", LOOP + r"PubSub\.notifySubs \| .*f\.filter\(msg\)", ["cbcancel"]),
    ("loop cancelled in the PublishPartial actions function (then resp <- , caller gone)", LOOP + r"partialmessages\.PartialMessagesExtension \| ", ["cbcancel"]),
    ("loop cancelled in a WithReadiness function (then res <- done, caller waiting)", LOOP + r"Topic\.validate\.func\d+ \| .*pub\.ready\(", ["cbcancel"]),
    # API calls in flight inside discover.Bootstrap (family bootstrap) and the readiness loop
    ("Publish WithReadiness + discovery: Bootstrap's ready check at its eval hand-off (loop parked)",
     r"^\(caller \| discover\.Bootstrap \| select\{case d\.p\.eval <- func\(\); case <-d\.p\.ctx\.Done\(\); case <-ctx\.Done\(\)\}$", ["bootstrap"]),
    ("Publish WithReadiness + discovery: Bootstrap waiting for the discovery round it requested (FindPeers running)",
     r"^\(caller \| discover\.Bootstrap \| select\{case <-disc\.done; case <-d\.p\.ctx\.Done\(\); case <-ctx\.Done\(\)\}$", ["bootstrap"]),
    ("Publish WithReadiness + discovery: Bootstrap in its 100 ms pause",
     r"^\(caller \| discover\.Bootstrap \| select\{case <-t\.C; case <-d\.p\.ctx\.Done\(\); case <-ctx\.Done\(\)\}$", ["bootstrap"]),
    ("Publish WithReadiness without discovery: the readiness loop (eval hand-off, reply or 200 ms ticker)",
     r"^\(caller \| Topic\.validate \| (select\{case t\.p\.eval <- func\(\); case <-t\.p\.ctx\.Done\(\); case <-ctx\.Done\(\)\}|select\{case <-ticker\.C; case <-ctx\.Done\(\)\}|if <-res \{)$", None),
]
# goroutines / blocking points that no scenario reaches, and why (reported in the evidence):
UNREACHED_POINTS = {
    "processLoop: s.FirstMessage <- helloPacket": "never blocks in the code as it is (fresh channel of capacity 1, written once); the CANCELLATION POINT before it is an obligation (family cbcancel, site Up: the writer is gone when the loop sends the hello)",
    "discover.Bootstrap at its send on discoverQ": "blocks only with 32 requests pending and a live discoverLoop, which drains them at once; after the cancellation the call leaves at the eval hand-off before it",
    "loop cancelled inside AppSpecificScore / score and gater callbacks": "they run with the scorer's mutex held: a parked goroutine holding a library mutex hangs synctest",
    "loop cancelled inside RawTracer.ThrottlePeer, the subscription filter, PeerFilter, msg id function, RPCScheduler, TestExtension callback": "not forced; no hand-off of the loop follows them that the forced sites do not already precede",
    "processLoop: reply sends (treq.resp, req.resp, preq.resp)": "buffered (1), or unbuffered with the caller already in its receive (ListPeers): never block",
    "processLoop: requestDiscovery's send on discoverQ": "blocks only with 32 requests pending and a live discoverLoop, which drains them at once; not forced",
    "discovery goroutine: d.done <- topic": "discoverLoop is always receptive before the cancellation; the point is only reached AFTER Cancel (then the leftover inventory judges it: seeded bare send is caught)",
    "discovery goroutine / validateTopic goroutine: discover.done <- , rch <-": "buffered to the number of senders: never block",
    "advertising / discovery goroutine inside discovery.Advertise / FindPeers": "inside the application's discovery service, which is handed a context derived from the instance context",
    "peerScore.inspect / inspectEx goroutines": "the goroutine IS the application's function (go ps.inspect(scores)): nothing of the library to judge",
    "JSONTracer / PBTracer / RemoteTracer doWrite": "started by the application's tracer constructor and stopped by its Close(), not bound to the PubSub context",
    "rpcQueue.Pop's context.AfterFunc goroutine": "runs once at the cancellation (lock, broadcast, unlock) and ends: no blocking point before Cancel",
    "TimeCachedBlacklist sweeper (timecache.background)": "known finding D15 (never stopped); exercised by the tcbl scenarios",
}


def all_apis():
    out = []
    for l in APIS.values():
        for a in l:
            if a not in out:
                out.append(a)
    return out


def applicable(api, router):
    return router == "gossipsub" or api not in GOSSIP_ONLY


def obligations():
    """(api, class, router, disc): every exported blocking API before, during and after the
    cancellation, on all three routers, with discovery configured and not."""
    cells = set()
    for r in ROUTERS:
        for d in (False, True):
            for a in all_apis():
                if applicable(a, r):
                    for c in ("before", "during", "after"):
                        if not (a == "Topic.PublishNotReady" and c == "before"):   # it cannot complete before the shutdown
                            cells.add((a, c, r, d))
            for a in CALLER_CTX:
                for c in ("during", "after"):
                    cells.add((a, c, r, d))
    return cells


def klass(phase):
    return "before" if phase == "before" else ("during" if phase in DURING else "after")


def allowed_apis(pat, phase, router, disc, is_parker):
    if is_parker:
        l = list(PARKABLE.get(pat, []))
        if pat == "SelSend_SelRecv" and router != "gossipsub":
            l = []
    else:
        l = list(APIS[pat])
    l = [a for a in l if applicable(a, router)]
    if pat == "SelSend_Recv" and disc:
        l = [a for a in l if a not in USES_DISCQ]       # with discovery these follow the SubscribeDisc pattern
    if pat == "SubscribeDisc" and not disc:
        l = []
    if phase == "sendq":
        l = [a for a in l if a not in ("Topic.AddToBatch", "Topic.PublishNotReady")]   # no sendMsg stage
    if pat == "Publish" and phase not in ("validator", "after"):
        l = [a for a in l if a != "Topic.PublishNotReady"]   # polls until the shutdown: in progress at Cancel, or made after it
    return l


def concretize(shape, router, disc, post, counts, rng, need=None):
    """Pick the concrete API of every call of a generated shape (least covered first). Returns None
    if the shape cannot be played on this router / discovery setting."""
    calls, gain = [], 0
    local = {}
    for i, c in enumerate(shape["calls"]):
        is_parker = shape["parker"] == i + 1
        opts = allowed_apis(c["pat"], c["phase"], router, disc, is_parker)
        if not opts:
            return None
        # the caller of a reply-less request has returned while the loop still handles it
        cl = "during" if is_parker and c["pat"] != "SelSend" else klass(c["phase"])
        if c["phase"] == "sendq":
            cl = "sendq"     # which of the 33 publishes stays blocked is the runtime's choice: counts for no obligation
        rng.shuffle(opts)
        opts.sort(key=lambda a: counts.get((a, cl, router, disc), 0) + local.get((a, cl), 0))
        a = opts[0]
        if counts.get((a, cl, router, disc), 0) + local.get((a, cl), 0) == 0 and (need is None or (a, cl, router, disc) in need):
            gain += 1
        local[(a, cl)] = local.get((a, cl), 0) + 1
        calls.append({"api": a, "pat": c["pat"], "phase": c["phase"]})
    pl = []
    if post:
        pat, n, when = post
        opts = allowed_apis(pat, "after", router, disc, False)
        if not opts:
            return None
        rng.shuffle(opts)
        opts.sort(key=lambda a: counts.get((a, "after", router, disc), 0) + local.get((a, "after"), 0))
        a = opts[0]
        if counts.get((a, "after", router, disc), 0) + local.get((a, "after"), 0) == 0:
            gain += 1
        local[(a, "after")] = local.get((a, "after"), 0) + 1
        # the model's discovery queue holds DiscCap = 1 request, the real one 32
        real_n = 32 * (n - 1) + 1 if pat == "SubscribeDisc" else n
        pl.append({"api": a, "pat": pat, "n": real_n, "when": when})
    return calls, pl, gain, local


def plan(ctx, shapes, budget):
    rng = random.Random(ctx.seed)
    shapes = list(shapes)
    rng.shuffle(shapes)
    need = obligations()
    counts, scns = {}, []
    posts = [None] + [(p, n, w) for p in APIS for n in (1, 2) for w in ("after", "afterParked")]
    combos = [(r, d) for r in ROUTERS for d in (False, True)]
    ntcbl = 0
    for rnd in range(6):
        for si, sh in enumerate(shapes):
            if len(scns) >= budget:
                break
            covered = all(counts.get(c, 0) > 0 for c in need)
            order = combos[(si + rnd) % 6:] + combos[:(si + rnd) % 6]
            best = None
            for (r, d) in order:
                post = posts[rng.randrange(len(posts))]
                if post and post[2] == "afterParked" and sh["parker"] == 0:
                    post = (post[0], post[1], "after")
                got = concretize(sh, r, d, post, counts, rng, need)
                if got is None:
                    continue
                if best is None or got[2] > best[0][2]:
                    best = (got, r, d)
                if covered or got[2] > 0:
                    break
            if best is None:
                continue
            (calls, pl, gain, local), r, d = best
            if not covered and gain == 0:
                continue
            for (a, cl), n in local.items():
                counts[(a, cl, r, d)] = counts.get((a, cl, r, d), 0) + n
            for a in CALLER_CTX:
                for cl in ("during", "after"):
                    counts[(a, cl, r, d)] = counts.get((a, cl, r, d), 0) + 1
            tcbl = ntcbl < (3 if not ctx.thorough else 12) and rng.random() < 0.05
            ntcbl += 1 if tcbl else 0
            scns.append({"id": len(scns) + 1, "shape": sh["_i"], "router": r, "disc": d, "tcbl": tcbl, "calls": calls,
                         "parker": sh["parker"], "tick": bool(sh["tick"]) and sh["parker"] != 0, "wval": bool(sh["wval"]),
                         "batchq": sh["batchq"], "post": pl, "valctx": rng.random() < 0.7})
        if len(scns) >= budget:
            break
    # the three known findings must stay reachable whatever the sample: one fixed scenario each
    fixed = [
        {"router": "gossipsub", "disc": False, "tcbl": False, "calls": [{"api": "PubSub.GetTopics", "pat": "SelSend_Recv", "phase": "before"}],
         "parker": 0, "post": [{"api": "PubSub.PublishBatch", "pat": "PublishBatch", "n": 3, "when": "after"}]},
        {"router": "floodsub", "disc": True, "tcbl": False, "calls": [{"api": "Topic.Relay", "pat": "SubscribeDisc", "phase": "before"}],
         "parker": 0, "post": [{"api": "Topic.Subscribe", "pat": "SubscribeDisc", "n": 34, "when": "after"}]},
        {"router": "randomsub", "disc": False, "tcbl": True, "calls": [{"api": "PubSub.BlacklistPeer", "pat": "SelSend", "phase": "before"}],
         "parker": 0, "post": []},
    ]
    for f in fixed:
        f.update({"id": len(scns) + 1, "shape": 0, "tick": False, "wval": False, "batchq": 0, "valctx": True})
        scns.append(f)
    # mandatory in both tiers: a BACKLOG of validations (40 > the 32 slots of sendMsg) in progress at the
    # cancellation and finishing after it - local Publish callers / received messages (asynchronous validator
    # goroutines and both workers) - with the loop gone and with the loop parked at Cancel
    def fixed_scn(**kw):
        d = {"id": len(scns) + 1, "shape": 0, "disc": False, "tcbl": False, "backlog": "", "parker": 0,
             "calls": [{"api": "PubSub.GetTopics", "pat": "SelSend_Recv", "phase": "before"}], "post": [],
             "tick": False, "wval": False, "batchq": 0, "valctx": False, "fam": "", "backlogpre": False, "defval": False}
        d.update(kw)
        scns.append(d)

    for r in ROUTERS:
        for b in ("local", "remote"):
            for pk in (0, -1):
                fixed_scn(router=r, backlog=b, parker=pk)
            # the backlog finishes validating while the loop is parked BEFORE the cancellation: validation
            # goroutines and workers sit in sendMsgBlocking at the instant of Cancel
            fixed_scn(router=r, backlog=b, parker=-1, backlogpre=True)
        # received messages with a default validator configured: the multi-validator path (validateTopic)
        fixed_scn(router=r, backlog="remote", parker=0, defval=True)
    # mandatory in both tiers: every goroutine the library starts, alive and blocked at each of its blocking
    # points at the instant of the cancellation (GOROUTINE_POINTS); the inventory after the shutdown judges
    for r in ROUTERS:
        for fam in ("retry-sleep", "retry-hand", "flood", "newpeer", "backoff"):
            fixed_scn(router=r, fam=fam, calls=[], valctx=True)
    for fam in ("early-cancel", "early-park"):
        fixed_scn(router="gossipsub", fam=fam, disc=True, calls=[], valctx=True)
        fixed_scn(router="floodsub", fam=fam, disc=True, calls=[], valctx=True)
    fixed_scn(router="gossipsub", fam="direct", calls=[], valctx=True)
    # cancellation INSIDE every callback the library runs on the event loop; every other goroutine runs to
    # completion before the loop is released, so each hand-off after the callback meets a partner that is gone
    for r in ROUTERS:
        for site in CALLBACK_SITES:
            if r == "gossipsub" or site not in ("Graft", "Prune", "partial"):
                fixed_scn(router=r, fam="cbcancel", site=site, calls=[], valctx=True)
    # Publish(WithReadiness) with discovery configured, never ready, caller context without deadline: in flight
    # at each blocking point of discover.Bootstrap at the instant of the cancellation
    for r in ROUTERS:
        for site in ("eval", "round", "timer"):
            fixed_scn(router=r, fam="bootstrap", site=site, disc=True, calls=[], valctx=True)
    return scns, need


def run_driver(ctx, scn_file, scns):
    """Replay; a panic in a library goroutine kills the process: attribute it with the marker,
    confirm by re-running that scenario alone, and go on with the next one."""
    out = os.path.join(ctx.work, "trace.ndjson")
    mk = os.path.join(ctx.work, "marker")
    start, crashes = 0, 0
    while True:
        if os.path.exists(mk):
            os.remove(mk)
        r = vlib.run_go(ctx, "./drivers/c14/", "^TestC14Replay$", timeout=1500 if ctx.thorough else 900,
                        env={"VERIF_IN": scn_file, "VERIF_OUT": out, "VERIF_MARKER": mk, "VERIF_START": start},
                        name="replay-%d" % start)
        m = open(mk).read().strip() if os.path.exists(mk) else ""
        if r["rc"] == 0 and m == "done":
            return out
        if "panic: test timed out" in r["out"] or r["rc"] == 124:
            raise vlib.Inconclusive("driver hung (marker %r, see %s)" % (m, r["log"]))
        if "panic:" not in r["out"] and "fatal error:" not in r["out"]:
            raise vlib.Inconclusive("driver failed without a panic (rc=%s, marker %r, see %s)" % (r["rc"], m, r["log"]))
        if not re.match(r"^\d+ \d+$", m):
            raise vlib.Inconclusive("driver died outside a scenario (see %s)" % r["log"])
        idx, sid = (int(x) for x in m.split())
        crashes += 1
        confirmed = sum(1 for v in ctx.violations if v["pred"] == "P_C14_NoPanic")
        if confirmed >= 3:
            ctx.notes.append("replay stopped after %d confirmed library panics (%d of %d scenarios replayed)" % (confirmed, idx, len(scns)))
            return out
        if crashes - confirmed > 5:
            raise vlib.Inconclusive("driver died %d times without a reproducible library panic (see %s)" % (crashes, r["log"]))
        # confirm alone
        out1 = os.path.join(ctx.work, "trace-only-%d.ndjson" % sid)
        r1 = vlib.run_go(ctx, "./drivers/c14/", "^TestC14Replay$", timeout=300,
                         env={"VERIF_IN": scn_file, "VERIF_OUT": out1, "VERIF_MARKER": mk + ".only", "VERIF_ONLY": sid},
                         name="confirm-%d" % sid)
        first = re.search(r"^(panic: .*|fatal error: .*)$", r1["out"], re.M)
        in_lib = re.search(r"^github\.com/libp2p/go-libp2p-pubsub[^\n]*\n\t[^\n]*/(\w+\.go):\d+", r1["out"], re.M)
        if r1["rc"] != 0 and first and in_lib and "test timed out" not in r1["out"]:
            fn = re.search(r"^github\.com/libp2p/go-libp2p-pubsub[./]([^\n(]*(?:\(\*\w+\))?[^\n(]*)\(", r1["out"], re.M)
            vlib.add_violation(ctx, "P_C14_NoPanic",
                               {"panic": first.group(1)[:120], "fn": fn.group(1) if fn else "", "file": in_lib.group(1)},
                               "the library panicked while replaying scenario %d (reproduced alone): %s" % (sid, first.group(1)[:200]),
                               {"scenario": scns[idx], "log_tail": r1["out"][-3000:]})
        else:
            ctx.notes.append("driver died in scenario %d but the panic did not reproduce alone (see %s)" % (sid, r["log"]))
        start = idx + 1
        if start >= len(scns):
            return out


def run(ctx):
    import concurrent.futures as cf
    states = transitions = 0
    mcs = {}

    def mc(cfg, ok=True, prop=None, timeout=600, allow_timeout=False, workers=1):
        res = vlib.run_tlc(ctx, FAMILY, "Lifecycle", cfg + ".cfg", timeout=timeout, name=cfg, workers=workers)
        if ok:
            vlib.require_mc_ok(ctx, res, cfg, allow_timeout=allow_timeout)
        else:
            vlib.require_mc_fails(ctx, res, cfg, prop)
        return cfg, res.distinct, res.generated

    # 1. the model: the repaired behaviour satisfies the three properties; the code as found (bare
    #    sends, D9 / D10) and a seeded unbuffered reply MUST fail (non-vacuity). The configurations
    #    run in the background (<= 8 TLC workers in total) while the replay goes on.
    jobs = [dict(cfg="MCLifecycle", workers=2), dict(cfg="MCLifecycleSmall"),
            dict(cfg="MCLifecycleD9", ok=False, prop="P_C14_Returns_POR"),
            dict(cfg="MCLifecycleD10", ok=False, prop="P_C14_Returns_POR"),
            dict(cfg="MCLifecycleUnbuf", ok=False, prop="P_C14_Exit_POR"),
            dict(cfg="MCLifecycleSmallD9", ok=False, prop="LiveReturns"),
            dict(cfg="MCLifecycleSendMsg", ok=False, prop="P_C14_Returns_POR"),     # sendMsgBlocking without its ctx arm:
            dict(cfg="MCLifecycleSendMsgW", ok=False, prop="P_C14_Exit_POR"),       # callers block / the worker leaks
            dict(cfg="MCLifecycleWorker2"),
            dict(cfg="MCLifecycleReaderCTA", ok=False, prop="P_C14_Exit_POR"),      # handleNewStream: ctx.Err() check, then a bare send
            dict(cfg="MCLifecycleRetry"),
            dict(cfg="MCLifecycleRetryBare", ok=False, prop="P_C14_Exit_POR"),      # announceRetry without its ctx arm
            dict(cfg="MCLifecycleDirect"),
            dict(cfg="MCLifecycleDirectBare", ok=False, prop="P_C14_Exit_POR"),
            dict(cfg="MCLifecycleAdopt"),
            dict(cfg="MCLifecycleAdoptUnbuf", ok=False, prop="P_C14_Exit_POR"),       # unbuffered firstMessage: the loop blocks on the hello
            dict(cfg="MCLifecycleBoot"), dict(cfg="MCLifecycleBootRoundOnly"), dict(cfg="MCLifecycleBootNoTimerArm"),
            dict(cfg="MCLifecycleBootNoEvalArm", ok=False, prop="P_C14_Returns_POR"),  # discover.Bootstrap without a p.ctx arm
            dict(cfg="MCLifecycleBootNoDoneArm", ok=False, prop="P_C14_Returns_POR"),
            dict(cfg="MCLifecycleBootC2", ok=False, prop="P_C14_Returns_POR")]     # as found (D29): bare sends on gs.connect
    if ctx.thorough:
        jobs = [dict(cfg="MCLifecycle3", workers=2, timeout=2400, allow_timeout=True)] + jobs + [
            dict(cfg="MCLifecycleAux", timeout=900), dict(cfg="MCLifecycleDisc2"),
            dict(cfg="MCLifecycleD10c2", ok=False, prop="P_C14_Returns_POR"),
            dict(cfg="MCLifecycleSmall2", timeout=900, allow_timeout=True)]
    pool = cf.ThreadPoolExecutor(max_workers=2)   # <= 3 TLC workers here + 1 for the generator / the trace validation
    futs = [pool.submit(mc, **j) for j in jobs]

    def join_mc():
        nonlocal states, transitions
        for f in futs:
            cfg, d, g = f.result()
            states += d
            transitions += g
            mcs[cfg] = [d, g]

    try:
        return replay_and_judge(ctx, join_mc, mcs, lambda: (states, transitions))
    finally:
        for f in futs:
            f.cancel()
        pool.shutdown(wait=True)


def replay_and_judge(ctx, join_mc, mcs, mc_counts):
    states = transitions = 0
    # 2. positions at the instant of the cancellation that the harness can force
    nconc = 3 if ctx.thorough else 2
    cfg = open(os.path.join(vlib.SPEC, FAMILY, "GenLifecycle.cfg")).read().replace("NConc = 2", "NConc = %d" % nconc)
    g = vlib.run_tlc(ctx, FAMILY, "GenLifecycle", cfg, timeout=900, name="gen", heap="6g", workers=1)
    vlib.require_mc_ok(ctx, g, "GenLifecycle")
    states += g.distinct
    transitions += g.generated
    seen, shapes = set(), []
    for s in g.printed("SCN"):
        k = json.dumps(s, sort_keys=True)
        if k not in seen:
            seen.add(k)
            shapes.append(s)
    shapes.sort(key=lambda s: json.dumps(s, sort_keys=True))
    for i, s in enumerate(shapes):
        s["_i"] = i + 1
    if len(shapes) < 100:
        raise vlib.Inconclusive("generator emitted only %d shapes" % len(shapes))
    budget = 420 if not ctx.thorough else 3000
    scns, need = plan(ctx, shapes, budget)
    scn_file = os.path.join(ctx.work, "scenarios.ndjson")
    vlib.write_ndjson(scn_file, scns)
    ctx.log("%d shapes from TLC, %d scenarios planned" % (len(shapes), len(scns)))

    # 3. replay on the real code
    trace = run_driver(ctx, scn_file, scns)
    lines = vlib.read_ndjson(trace)
    by_scn, cur = {}, None
    for ln in lines:
        if ln["e"] == "reset":
            cur = by_scn.setdefault(ln["scn"], [])
        if cur is not None:
            cur.append(ln)
    complete = {k: v for k, v in by_scn.items() if v[-1]["e"] == "end"}
    ctx.log("driver: %d scenarios replayed (%d complete), %d lines" % (len(by_scn), len(complete), len(lines)))
    panicked = any(v["pred"] == "P_C14_NoPanic" for v in ctx.violations)
    if len(complete) < len(scns) - 8 and not panicked:
        raise vlib.Inconclusive("only %d of %d scenarios were replayed completely" % (len(complete), len(scns)))

    # 4. TLC judges the observations (repaired constants = the property); the as-found constants
    #    tell which blocked calls the model of the code as found explains (conformance)
    val_lines = [ln for k in sorted(complete) for ln in complete[k]]
    chunks, curc = [], []
    for k in sorted(complete):
        curc += complete[k]
        if len(curc) > 12000:
            chunks.append(curc)
            curc = []
    if curc:
        chunks.append(curc)
    viols, drifts, unexpl = [], [], set()
    for ci, ch in enumerate(chunks):
        p = os.path.join(ctx.work, "tv-%d.ndjson" % ci)
        vlib.write_ndjson(p, ch)
        for cfgname in ("LifecycleTrace.cfg", "LifecycleTraceAsFound.cfg"):
            res = vlib.run_tlc(ctx, FAMILY, "LifecycleTrace", cfgname, mode="trace", files={"trace.ndjson": p},
                               timeout=600, name="tv%d-%s" % (ci, "asfound" if "AsFound" in cfgname else "prop"))
            states += res.distinct
            transitions += res.generated
            if res.hw is None or res.hw[0] < res.hw[1]:
                raise vlib.Inconclusive("trace validation did not reach the end of the file (see %s/tlc.out): %s" % (res.dir, res.errors[:2]))
            if cfgname == "LifecycleTrace.cfg":
                viols += res.printed("VIOL")
                drifts += res.printed("DRIFT")
            else:
                unexpl |= {(v["scn"], v["line"].get("id")) for v in res.printed("VIOL") if v["pred"] == "P_C14_Returns"}
                drifts += [d for d in res.printed("DRIFT") if "as-found" in d["what"]]
    explained = sum(1 for v in viols if v["pred"] == "P_C14_Returns" and (v["scn"], v["line"].get("id")) not in unexpl)

    scn_by_id = {s["id"]: s for s in scns}
    for v in viols:
        ln, sc = v["line"], scn_by_id.get(v["scn"], {})
        reset = complete[v["scn"]][0] if v["scn"] in complete else {}
        if v["pred"] == "P_C14_Returns":
            sig = {"api": ln["api"], "when": ln["when"], "ord": ln["qord"] if ln["qord"] > 0 else ln["ord"],
                   "disc": bool(reset.get("disc")), "phase": ln["phase"]}
            detail = "%s (%s, %s, ordinal %s, router %s, discovery %s) did not return within 30 s of virtual time after the cancellation" % (
                ln["api"], ln["phase"], ln["when"], sig["ord"], reset.get("router"), reset.get("disc"))
        elif v["pred"] == "P_C14_Exit":
            sig = {"left": ln["left"], "tcbl": bool(reset.get("tcbl")), "disc": bool(reset.get("disc"))}
            detail = "library goroutines still alive after cancel + host close (router %s): %s" % (reset.get("router"), ln["left"])
        else:
            raise vlib.Inconclusive("malformed trace: %s (scenario %s)" % (v["what"], v["scn"]))
        vlib.add_violation(ctx, v["pred"], sig, detail, {"scenario": sc, "lines": complete.get(v["scn"])})
    if not any(v["pred"] == "P_C14_Returns" for v in viols):
        # D9 / D10 are repaired in the tree under test: "the as-found model says it blocks" is no news
        drifts = [d for d in drifts if "as-found" not in d["what"]]
    if drifts:
        kinds = {}
        for d in drifts:
            kinds[d["what"]] = kinds.get(d["what"], 0) + 1
        ctx.notes.append("MODEL-DRIFT (no verdict): %s; e.g. %s" % (kinds, json.dumps(drifts[0]["line"])[:300]))

    # 5. coverage obligations, from what was OBSERVED
    seen_cells, hits, unparked = set(), {}, 0
    nontrivial = set()
    ncall = 0
    for k, ls in complete.items():
        reset = ls[0]
        ex = [l for l in ls if l["e"] == "exit"]
        if ex and "not parked" in ex[0].get("notes", ""):
            unparked += 1
        key = []
        for l in ls:
            if l["e"] != "call" or l["phase"] == "notrun":
                continue
            ncall += 1
            cl = {"before-cancel": "before", "at-cancel": "during", "after-cancel": "after"}[l["when"]]
            seen_cells.add((l["api"], cl, reset["router"], bool(reset["disc"])))
            hits[l["pat"] + "/" + l["phase"]] = hits.get(l["pat"] + "/" + l["phase"], 0) + 1
            if l["pat"] != "CallerCtx":
                key.append((l["api"], l["phase"]))
        if any(p != "before" for _, p in key):
            nontrivial.add(json.dumps([reset["router"], reset["disc"], reset["parker"], reset["tick"], sorted(key)]))
    missing = sorted(need - seen_cells)
    if unparked:
        ctx.notes.append("%d scenario(s) could not park the event loop" % unparked)
    known = vlib.load_findings(ctx.pid)
    new_viol = [v for v in ctx.violations if not any(vlib.sig_matches(f, v) for f in known)]
    if missing and not new_viol:
        raise vlib.Inconclusive("coverage obligation not met: %d (api, phase, router, discovery) cells never observed, e.g. %s" % (len(missing), missing[:4]))
    # the backlog family (validations finishing after the cancellation must outnumber the sendMsg buffer)
    bl_seen = set()
    for k, ls in complete.items():
        ex = [l for l in ls if l["e"] == "exit"]
        if ex and ex[0].get("backlog") and ex[0].get("bl_n", 0) > 32 and (ex[0]["backlog"] == "local" or ex[0].get("bl_workers", 0) >= 2):
            bl_seen.add((ex[0]["backlog"], bool(ex[0]["bl_parked"])))
    bl_missing = sorted({(b, pk) for b in ("local", "remote") for pk in (False, True)} - bl_seen)
    if bl_missing and not new_viol:
        raise vlib.Inconclusive("coverage obligation not met: no scenario with > 32 validations finishing after the cancellation for (kind, loop parked) = %s" % bl_missing)
    pre_seen = set()
    pts_by_fam = {}
    for k, ls in complete.items():
        ex = [l for l in ls if l["e"] == "exit"]
        if not ex:
            continue
        if ex[0].get("bl_pre") and ex[0].get("bl_n", 0) > 32:
            pre_seen.add(ex[0]["backlog"])
        pts_by_fam.setdefault(ex[0].get("fam", ""), set()).update(ex[0].get("atcancel") or [])
    if {"local", "remote"} - pre_seen and not new_viol:
        raise vlib.Inconclusive("coverage obligation not met: no backlog scenario finishing its validations while the loop is parked before Cancel for %s" % sorted({"local", "remote"} - pre_seen))
    pts_missing, pts_hit = [], {}
    for name, rx, fams in GOROUTINE_POINTS:
        rxc = re.compile(rx)
        hit = sorted(f for f, pts in pts_by_fam.items() if (fams is None or f in fams) and any(rxc.search(p) for p in pts))
        pts_hit[name] = hit
        if not hit:
            pts_missing.append(name)
    unknown_pts = sorted(p for pts in pts_by_fam.values() for p in pts
                         if not p.startswith("(caller") and not any(re.search(rx, p) for _, rx, _ in GOROUTINE_POINTS))
    if unknown_pts:
        ctx.notes.append("library goroutines seen at the cancellation at %d blocking point(s) outside the obligation table, e.g. %s" % (len(set(unknown_pts)), sorted(set(unknown_pts))[:3]))
    if pts_missing and not new_viol:
        raise vlib.Inconclusive("coverage obligation not met: (goroutine, blocking point) never observed at the instant of the cancellation: %s" % pts_missing)
    need_phases = ["SelSend_Recv/handling", "SelSend_Recv/handoff", "SelSend_SelRecv/handling", "SelSend_SelRecv/handoff", "SelSend/handoff",
                   "SelSend_Unbuf/handoff", "Publish/validator", "Publish/handoff", "PublishBatch/after", "SubscribeDisc/handoff",
                   "SubscribeDisc/after", "CallerCtx/handoff"] + (["Publish/sendq", "PublishBatch/barefull"] if ctx.thorough else [])
    miss2 = [p for p in need_phases if not hits.get(p)]
    if miss2 and not new_viol:
        raise vlib.Inconclusive("coverage obligation not met: positions never observed: %s" % miss2)

    join_mc()
    states += mc_counts()[0]
    transitions += mc_counts()[1]
    sample_ids = sorted(complete)[:: max(1, len(complete) // 3)][:3]
    cov = {"states": states, "transitions": transitions, "traces_validated_against_impl": len(complete),
           "samples": [{"scenario": scn_by_id.get(i), "trace": complete[i][:8]} for i in sample_ids],
           "evaluations": ncall + len(complete), "distinct_nontrivial": len(nontrivial),
           "rule": "evaluation = one API call judged for return-by-deadline or one exit inventory; scenario = shape emitted by GenLifecycle "
                   "(positions of <= %d concurrent calls, loop, timer and worker at the instant of Cancel) made concrete by the orchestrator "
                   "(router, discovery, api per pattern least-covered first, calls after the cancellation; seeded sample of %d of %d shapes); "
                   "non-trivial = at least one call in progress at or started after the cancellation; distinct by (router, discovery, parker, tick, sorted (api, position))" % (
                       nconc, len(scns), len(shapes)),
           "exhaustive": False, "shapes_generated": len(shapes), "cells_required": len(need), "cells_observed": len(seen_cells & need),
           "position_hits": hits, "blocked_calls_explained_by_as_found_model": explained, "mc": mcs,
           "backlog_scenarios_observed": sorted(bl_seen), "backlog_pre_observed": sorted(pre_seen),
           "goroutine_points_required": len(GOROUTINE_POINTS), "goroutine_points_observed": len(GOROUTINE_POINTS) - len(pts_missing),
           "goroutine_points": pts_hit, "goroutine_points_unreached": UNREACHED_POINTS,
           "as_found_configs_fail": ["MCLifecycleD9", "MCLifecycleD10", "MCLifecycleUnbuf", "MCLifecycleSmallD9",
                                     "MCLifecycleSendMsg", "MCLifecycleSendMsgW", "MCLifecycleReaderCTA", "MCLifecycleRetryBare",
                                     "MCLifecycleDirectBare", "MCLifecycleAdoptUnbuf", "MCLifecycleBootNoEvalArm",
                                     "MCLifecycleBootNoDoneArm", "MCLifecycleBootC2"]}
    return vlib.finish(ctx, LEVEL, cov, [
        "validators and other application callbacks return when the instance context is cancelled or when the application releases them (the harness does both)",
        "Go's select picks among ready cases at random: which of several pending requests the released loop serves before it sees ctx.Done is sampled, the model covers all choices",
        "a goroutine is a library goroutine if its stack has go-libp2p-pubsub frames and it was not started by the harness; inventory taken 32 s of virtual time after the cancellation, hosts closed",
        "positions the harness cannot force without hooks (a reply already buffered but not yet received, a request channel send in flight with an idle loop) are covered by the model only",
        "discovery queue capacity 32 is modelled as 1 (2 in MCLifecycleDisc2); the replays use the real capacity"])
