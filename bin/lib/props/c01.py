"""C01 - complete exactly-once delivery in a connected network of correct nodes.

spec/net: NetProps (meaning: premise + the two predicates), Net (protocol model of N correct nodes, all three
routers, FIFO links, heartbeats; exhaustive MC for N = 2, 3 and MUST-FAIL configurations), GenNet (scenario
generator: configurations x churn histories inside the sound premise), NetTrace (evaluates P_C01_ExactlyOnce and
P_C01_NoDup on the deliveries of N REAL nodes replayed by harness/drivers/c01).

Two code-level dimensions have no counterpart in Net.tla: an unrelated second topic "U" (roles taken before those on the
topic under test, traffic in every batch, judged per topic - the model's topics are independent by construction) and
long-running streams (directed hubs at D + Dlazy with default parameters and > 2 virtual minutes of >= 1 KiB messages,
judged per message in quiet propagation windows).

Verdict: only NetTrace results on real deliveries (or a reproducible library panic) become VIOLATIONs."""
import concurrent.futures as cf
import itertools, json, os, random, re, shutil, subprocess, time
from .. import vlib

LEVEL = "model_checking"
FAMILY = "net"

SMALL = dict(D=2, Dlo=1, Dhi=3, Dlazy=2, RandomSubD=6)
UNSUB_BACKOFF_MS = 2000


# ----------------------------------------------------------------------------- model checking

def mc_constants(nodes, **over):
    c = {"n1": "n1", "n2": "n2", "n3": "n3", "n4": "n4", "Nodes": "{" + ", ".join(nodes) + "}",
         "PruneBackoff": 2, "UnsubBackoff": 1, "Slack": 1, "Sweep": 2, "HistoryLen": 2, "HistoryGossip": 1,
         "SettleTicks": 7, "QuiesceTicks": max(3, len(nodes)), "MaxSubs": 1, "MaxRelays": 1, "MaxChurn": 1, "MaxPub": 1,
         "InitKinds": ALLKINDS,
         "FloodForwardToFloodsubPeers": True, "GossipRound": True, "RelayForwards": True, "HelloCarriesRelays": True,
         "StrictSettled": True, "Backpressure": False, "AnnounceLostAfterFull": False}
    c.update(SMALL)
    c.update(over)
    return c


ALLKINDS = '{"flood", "random", "gossip"}'
# at N <= RandomSubD + 1 a randomsub node forwards to every topic peer, exactly like a floodsub node: in Net.tla the two
# kinds are behaviourally identical, so the larger runs choose from {flood, gossip} only (N = 2 runs all three)
TWOKINDS = '{"flood", "gossip"}'
INVS = ["TypeOK", "P_C01_ExactlyOnce", "P_C01_NoDup", "KnownConverged", "MeshSane"]


def mc_jobs(ctx):
    """(name, cfg text, expectation, timeout, workers) - expectation None = must pass, else the invariant that MUST fail."""
    if os.environ.get("VERIF_C01_FAST"):     # development aid only (mutation experiments): skip the model-level runs
        return []
    two, three, four = ["n1", "n2"], ["n1", "n2", "n3"], ["n1", "n2", "n3", "n4"]
    jobs = []
    # exhaustive: every kind vector, graph, role assignment; churn and publications up to the bound
    jobs.append(("mc-n2", vlib.cfg_text(constants=mc_constants(two, MaxSubs=2, MaxChurn=2 if not ctx.thorough else 3, MaxPub=2),
                                        invariants=INVS, symmetry="Sym2"), None, 900, 4))
    jobs.append(("mc-n3", vlib.cfg_text(constants=mc_constants(three, InitKinds=TWOKINDS, MaxChurn=2), invariants=INVS, symmetry="Sym3"), None, 1800, 4))
    # backpressure at the instant of an interest change: announcements / GRAFT / PRUNE to peers with a full queue are delayed, never lost
    jobs.append(("mc-n2-bp", vlib.cfg_text(constants=mc_constants(two, MaxSubs=2, MaxChurn=2, Backpressure=True), invariants=INVS, symmetry="Sym2"), None, 900, 2))
    jobs.append(("mc-n3-bp", vlib.cfg_text(constants=mc_constants(three, InitKinds=TWOKINDS, Backpressure=True), invariants=INVS, symmetry="Sym3"), None, 1500, 4))
    jobs.append(("bug-announce", vlib.cfg_text(constants=mc_constants(three, InitKinds=TWOKINDS, Backpressure=True, AnnounceLostAfterFull=True),
                                               invariants=["P_C01_ExactlyOnce"], symmetry="Sym3"), "P_C01_ExactlyOnce", 900, 2))
    # liveness: every batch is eventually judged (no symmetry with a temporal property)
    jobs.append(("mc-n2-live", vlib.cfg_text(spec="FairSpec", constants=mc_constants(two, MaxSubs=2), properties=["P_C01_Live"]), None, 600, 2))
    # the IHAVE/IWANT round: two gossipsub pairs joined by a link that stays outside every mesh
    jobs.append(("mc-pairs", vlib.cfg_text(constants=mc_constants(four), invariants=INVS, init="InitTwoPairs", next_="Next"), None, 600, 1))
    # MUST-FAIL configurations (non-vacuity): one mechanism removed each
    jobs.append(("bug-floodpeers", vlib.cfg_text(constants=mc_constants(two, FloodForwardToFloodsubPeers=False), invariants=INVS, symmetry="Sym2"),
                 "P_C01_ExactlyOnce", 600, 1))
    jobs.append(("bug-gossipround", vlib.cfg_text(constants=mc_constants(four, GossipRound=False), invariants=INVS, init="InitTwoPairs", next_="Next"),
                 "P_C01_ExactlyOnce", 600, 1))
    jobs.append(("bug-relay", vlib.cfg_text(constants=mc_constants(three, RelayForwards=False, MaxChurn=0), invariants=["P_C01_ExactlyOnce"],
                                            init="InitRelayCut", next_="Next"), "P_C01_ExactlyOnce", 600, 1))
    jobs.append(("bug-hello", vlib.cfg_text(constants=mc_constants(three, HelloCarriesRelays=False, MaxChurn=0), invariants=["P_C01_ExactlyOnce"],
                                            init="InitRelayCut", next_="Next"), "P_C01_ExactlyOnce", 600, 1))
    # why MeshSettled is part of the premise: with time-based settling only, the 4-star loses a message
    jobs.append(("bug-unsettled-star", vlib.cfg_text(constants=mc_constants(four, StrictSettled=False, MaxChurn=0), invariants=INVS,
                                                     init="InitStar4", next_="Next", symmetry="SymLeaves"), "P_C01_ExactlyOnce", 600, 1))
    if ctx.thorough:
        # N = 4 (all gossipsub, every graph and role assignment): random behaviours of the protocol model
        jobs.append(("sim-n4-gossip", vlib.cfg_text(constants=mc_constants(four, InitKinds='{"gossip"}', MaxChurn=2, MaxPub=2), invariants=INVS),
                     "sim", 900, 1))
        jobs.append(("mc-n3-allkinds", vlib.cfg_text(constants=mc_constants(three, MaxChurn=2), invariants=INVS, symmetry="Sym3"), None, 2400, 4))
        jobs.append(("mc-n3-pub2", vlib.cfg_text(constants=mc_constants(three, InitKinds=TWOKINDS, MaxPub=2), invariants=INVS, symmetry="Sym3"),
                     "timeout-ok", 1200, 4))
    return jobs


def gen_jobs(ctx):
    """(name, constants, mode, simulate, depth, timeout)"""
    base = dict(Dlo=1, Dlazy=2, RandomSubD=6, MaxSubs=2, MaxRelays=1, GenKinds=ALLKINDS)
    gos = dict(base, GenKinds='{"gossip"}')
    jobs = [("gen-n2", dict(base, N=2, MaxChurn=2, Canon=True), "mc", None, None, 300)]
    if ctx.thorough:
        jobs.append(("gen-n3", dict(base, N=3, MaxChurn=2, Canon=True), "mc", None, None, 600))
        jobs.append(("gen-n4g", dict(gos, N=4, MaxChurn=1, Canon=False), "mc", None, None, 600))
        sims = [("gen-n4", base, 4, 1500), ("gen-n5", base, 5, 1200), ("gen-n5g", gos, 5, 600)]
    else:
        jobs.append(("gen-n3", dict(base, N=3, MaxChurn=1, Canon=True), "mc", None, None, 300))
        sims = [("gen-n3s", base, 3, 250), ("gen-n4", base, 4, 200), ("gen-n4g", gos, 4, 150), ("gen-n5", base, 5, 100), ("gen-n5g", gos, 5, 60)]
    for name, consts, n, num in sims:
        jobs.append((name, dict(consts, N=n, MaxChurn=2, Canon=False), "sim", "num=%d" % num, 24, 900))
    return jobs


# ----------------------------------------------------------------------------- scenarios

def canon(s):
    """Canonical relabelling of a structural scenario (N <= 3): the smallest JSON over all node permutations."""
    n = s["n"]
    best = None
    for perm in itertools.permutations(range(1, n + 1)):
        f = lambda i: perm[i - 1] if i else 0
        kinds, roles = [None] * n, [None] * n
        for i in range(1, n + 1):
            kinds[f(i) - 1], roles[f(i) - 1] = s["kinds"][i - 1], s["roles"][i - 1]
        edges = sorted(sorted([f(a), f(b)]) for a, b in s["edges"])
        ops = []
        for o in s["ops"]:
            a, b = f(o["a"]), f(o["b"])
            if b and a > b:
                a, b = b, a
            ops.append({"op": o["op"], "a": a, "b": b})
        elig = [sorted(f(x) for x in e) for e in s["elig"]]
        cand = {"n": n, "kinds": kinds, "roles": roles, "edges": edges, "ops": ops, "elig": elig}
        key = json.dumps([kinds, roles, edges, ops])
        if best is None or key < best[0]:
            best = (key, cand)
    return best


def cfg_after(s, k):
    """Configuration after the first k churn operations: (edges set, subs list, relays list)."""
    n = s["n"]
    subs = [1 if r == "sub" else 2 if r == "sub2" else 0 for r in s["roles"]]
    rel = [1 if r == "relay" else 0 for r in s["roles"]]
    edges = {tuple(sorted(e)) for e in s["edges"]}
    for o in s["ops"][:k]:
        a, b = o["a"], o["b"]
        if o["op"] == "sub":
            subs[a - 1] += 1
        elif o["op"] == "cancel":
            subs[a - 1] -= 1
        elif o["op"] == "relay":
            rel[a - 1] += 1
        elif o["op"] == "unrelay":
            rel[a - 1] -= 1
        elif o["op"] == "conn":
            edges.add(tuple(sorted((a, b))))
        elif o["op"] == "disc":
            edges.discard(tuple(sorted((a, b))))
    return edges, subs, rel


def nbrs(edges, i):
    return {b if a == i else a for a, b in edges if i in (a, b)}


def reach(edges, allowed, start):
    seen, todo = set(start), list(start)
    while todo:
        u = todo.pop()
        for v in nbrs(edges, u):
            if v in allowed and v not in seen:
                seen.add(v)
                todo.append(v)
    return seen


def relay_cut_vertices(edges, subs, rel, pubs):
    """Relay-only nodes whose removal separates a publisher from a subscriber."""
    n = len(subs)
    ov = {i for i in range(1, n + 1) if subs[i - 1] > 0 or rel[i - 1] > 0}
    out = set()
    for r in ov:
        if subs[r - 1] > 0 or r in pubs:
            continue
        rest = ov - {r}
        for p in pubs:
            start = {p} if p in ov else (nbrs(edges, p) & ov)
            full = reach(edges, ov, start & ov)
            cut = reach(edges, rest, start & rest)
            if any(subs[q - 1] > 0 and q in full and q not in cut for q in rest if q != p):
                out.add(r)
    return out


def relay_cut(edges, subs, rel, pubs):
    return bool(relay_cut_vertices(edges, subs, rel, pubs))


def structural_tags(s):
    """Coverage classes a scenario can serve, judged from its structure alone (used to stratify the sample)."""
    tags = set()
    n, kinds, ops = s["n"], s["kinds"], s["ops"]
    edges, subs, rel = cfg_after(s, len(ops))
    intr = [subs[i] > 0 or rel[i] > 0 for i in range(n)]
    pubs = s["elig"][-1]
    if relay_cut(edges, subs, rel, pubs):
        tags.add("relaycut")
    if any(kinds[p - 1] == "gossip" and not intr[p - 1] and any(kinds[q - 1] == "gossip" and intr[q - 1] for q in nbrs(edges, p)) for p in pubs):
        tags.add("fanoutpub")
    if any(not intr[p - 1] for p in pubs):
        tags.add("nonmember_pub")
    for i in range(1, n + 1):
        if not intr[i - 1]:
            continue
        for j in nbrs(edges, i):
            if intr[j - 1] and kinds[i - 1] == "gossip" and kinds[j - 1] == "flood":
                tags.add("gossip_flood")
            if intr[j - 1] and kinds[i - 1] == "gossip" and kinds[j - 1] == "random":
                tags.add("gossip_random")
            if intr[j - 1] and kinds[i - 1] == "random":
                tags.add("randomsub")
    if any(subs[p - 1] > 0 for p in pubs):
        tags.add("self")
    for k in range(len(ops) - 1):
        o1, o2 = ops[k], ops[k + 1]
        _, s1, r1 = cfg_after(s, k + 1)
        if o1["op"] in ("cancel", "unrelay") and o2["op"] in ("sub", "relay") and o1["a"] == o2["a"] \
                and s1[o1["a"] - 1] == 0 and r1[o1["a"] - 1] == 0 and kinds[o1["a"] - 1] == "gossip":
            e1 = cfg_after(s, k)[0]
            if any(kinds[q - 1] == "gossip" for q in nbrs(e1, o1["a"])):
                tags.add("unsub_resub")
        if o1["op"] == "disc" and o2["op"] == "conn" and (o1["a"], o1["b"]) == (o2["a"], o2["b"]):
            tags.add("disc_reconn")
    # a late connection that joins two otherwise separate parts of the overlay, between two gossipsub nodes that both
    # already have a gossipsub mesh partner: the new link stays outside both meshes (Dlo is already met on both sides), so
    # everything crossing it needs the IHAVE/IWANT round
    ov = {i for i in range(1, n + 1) if intr[i - 1]}
    for k, o in enumerate(ops):
        if o["op"] == "conn" and kinds[o["a"] - 1] == kinds[o["b"] - 1] == "gossip" and o["a"] in ov and o["b"] in ov:
            e0, s0, r0 = cfg_after(s, k)
            i0 = [s0[i] > 0 or r0[i] > 0 for i in range(n)]
            ok = all(i0[x - 1] and any(kinds[q - 1] == "gossip" and i0[q - 1] for q in nbrs(e0, x)) for x in (o["a"], o["b"]))
            e = tuple(sorted((o["a"], o["b"])))
            is_bridge = e in edges and o["b"] not in reach(edges - {e}, ov, {o["a"]})
            if ok and is_bridge and any(subs[q - 1] > 0 for q in ov):
                tags.add("bridge")
    return tags


def decorate(s, rng, thorough):
    """Turn a structural scenario into a driver scenario: timing of every churn step, publish batches, the
    two-subscriptions variant and the parameter family. Everything chosen here is a free choice of the premise."""
    ops, elig = s["ops"], s["elig"]
    out = []
    roles = list(s["roles"])
    touched = {o["a"] for o in ops if o["op"] in ("sub", "cancel")}
    subbed = [i for i, r in enumerate(roles) if r == "sub" and (i + 1) not in touched]
    if subbed and rng.random() < 0.3:
        roles[rng.choice(subbed)] = "sub2"

    def batch(cands, everyone):
        ps = sorted(cands) if everyone else [rng.choice(sorted(cands))]
        return [{"op": "pub", "a": p, "b": 0, "gap": "l"} for p in ps]

    after_batch = False
    if ops and elig[0] and rng.random() < 0.5:
        out += batch(elig[0], rng.random() < 0.5)
        after_batch = True
    for k, o in enumerate(ops):
        gap = "s" if after_batch else rng.choice(["s", "s", "h", "h", "l"])
        if k > 0 and not after_batch:
            p = ops[k - 1]
            if p["op"] in ("cancel", "unrelay") and o["op"] in ("sub", "relay") and p["a"] == o["a"]:
                gap = rng.choice(["s", "h"])      # resubscribe inside the unsubscribe backoff
        out.append({"op": o["op"], "a": o["a"], "b": o["b"], "gap": gap})
        after_batch = False
        if k + 1 < len(ops) and elig[k + 1] and rng.random() < 0.2:
            out += batch(elig[k + 1], rng.random() < 0.5)
            after_batch = True
    out += batch(elig[-1], True)
    params = "default" if rng.random() < (0.1 if thorough else 0.04) else "small"
    d = {"n": s["n"], "kinds": s["kinds"], "edges": s["edges"], "roles": roles, "ops": out, "params": params, "src": s.get("src", "")}
    # the graph first, the roles afterwards: interest travels in announcements instead of hello packets
    if rng.random() < 0.3:
        d["late_roles"] = True
    # an unrelated second topic U: static roles taken BEFORE the roles on the topic under test, traffic in every batch
    edges, subs, rel = cfg_after(s, len(ops))
    cutv = relay_cut_vertices(edges, subs, rel, elig[-1])
    if rng.random() < 0.35 or (cutv and rng.random() < 0.8):
        ur = [rng.choice(["none", "none", "sub", "sub", "relay"]) for _ in range(s["n"])]
        for r in cutv:                      # a relay-only cut vertex that already subscribes to something else
            if rng.random() < 0.9:
                ur[r - 1] = "sub"
                if roles[r - 1] == "relay" and rng.random() < 0.85:
                    d["late_roles"] = True  # ... and whose relay is announced, not carried by the hello packet
        if all(u == "none" for u in ur):
            ur[rng.randrange(s["n"])] = "sub"
        d["uroles"] = ur
    # a long history instead of single batches: one large (>= IDONTWANT threshold) message per heartbeat
    if s["n"] >= 3 and rng.random() < (0.05 if thorough else 0.03):
        ops2, k = [], 0
        while k < len(out):
            if out[k]["op"] == "pub":
                ps = []
                while k < len(out) and out[k]["op"] == "pub":
                    ps.append(out[k]["a"])
                    k += 1
                ops2.append({"op": "stream", "a": 14, "b": 1500, "ps": ps, "gap": "l"})
            else:
                ops2.append(out[k])
                k += 1
        d["ops"] = ops2
    # backpressure at the instant of an interest change: small outbound queues, a burst of 256 KiB messages on the bulk topic in
    # the same virtual instant as the operation (only where the node has >= 2 neighbours); no second topic / stream there and
    # batches of at most 3 publishers, so that the measured traffic itself can never fill a queue of 8
    if s["n"] >= 3 and "uroles" not in d and not any(o["op"] == "stream" for o in d["ops"]) and rng.random() < (0.05 if thorough else 0.04):
        kk, hit, ops3, npub = 0, False, [], 0
        for o in d["ops"]:
            o = dict(o)
            if o["op"] == "pub":
                npub += 1
                if npub > 3:
                    continue
            else:
                npub = 0
                if o["op"] in ("sub", "cancel", "relay", "unrelay"):
                    if len(nbrs(cfg_after(s, kk)[0], o["a"])) >= 2:
                        o["burst"], hit = BURST, True
                kk += 1
            ops3.append(o)
        if hit:
            d["ops"], d["queue"], d["bulk"] = ops3, QUEUE, True
            d.pop("late_roles", None)
    return d


QUEUE, BURST = 8, 14


def add_clones(d, s, rng, thorough):
    """Several measured topics at once (same roles, operations and publications on T, T2, ..): one heartbeat's gossip has to
    advertise messages of all of them to the same peer. Mostly on scenarios whose late link stays outside every mesh."""
    if "uroles" in d or d.get("bulk") or any(o["op"] == "stream" for o in d["ops"]) or "gossip" not in d["kinds"]:
        return d
    pr = 0.6 if "bridge" in s.get("tags", ()) else (0.03 if thorough else 0.02)
    if rng.random() >= pr:
        return d
    ops, npub = [], 0
    for o in d["ops"]:
        if o["op"] == "pub":
            npub += 1
            if npub > 2:
                continue
        else:
            npub = 0
        ops.append(o)
    d["ops"], d["clones"] = ops, rng.choice([1, 2, 3, 3, 5, 7])
    return d


def multitopic_family(ctx, rng):
    """Directed: two gossipsub pairs joined later by a link that stays outside every mesh (both ends already have Dlo mesh
    members) while k = 2..8 topics carry one message each in the same heartbeat window."""
    fam = []
    ks = (1, 3, 7) if not ctx.thorough else (1, 2, 3, 4, 5, 6, 7)
    for c in ks:
        for roles in (["sub"] * 4, ["sub", "relay", "relay", "sub"]):
            fam.append({"n": 4, "kinds": ["gossip"] * 4, "edges": [[1, 2], [3, 4]], "roles": roles, "params": "small", "src": "directed-multitopic",
                        "clones": c, "ops": [{"op": "conn", "a": 2, "b": 3, "gap": rng.choice(["s", "h", "l"])},
                                             {"op": "pub", "a": 1, "b": 0, "gap": "l"}, {"op": "pub", "a": 4, "b": 0, "gap": "l"}]})
    if ctx.thorough:
        for c in (3, 7):
            fam.append({"n": 5, "kinds": ["gossip", "gossip", "gossip", "gossip", "flood"], "edges": [[1, 2], [3, 4], [4, 5]], "roles": ["sub"] * 5,
                        "params": "small", "src": "directed-multitopic", "clones": c,
                        "ops": [{"op": "conn", "a": 2, "b": 3, "gap": "l"}, {"op": "pub", "a": 1, "b": 0, "gap": "l"}, {"op": "pub", "a": 5, "b": 0, "gap": "l"}]})
    return fam


def backpressure_family(ctx, rng):
    """Directed: a hub that subscribes / relays / cancels and re-subscribes on the measured topic in the very instant its outbound
    queues are full (it is pushing a burst on the bulk topic), for all three routers and mixes; then the usual settle period and one
    publication by the hub and two leaves."""
    fam = []
    def star(kinds, op, role_a="none"):
        n = len(kinds)
        if op == "resub":
            ops = [{"op": "cancel", "a": 1, "b": 0, "gap": "h", "burst": BURST}, {"op": "sub", "a": 1, "b": 0, "gap": rng.choice(["s", "h"]), "burst": BURST}]
        else:
            ops = [{"op": op, "a": 1, "b": 0, "gap": rng.choice(["s", "h", "l"]), "burst": BURST}]
        ops += [{"op": "pub", "a": i, "b": 0, "gap": "l"} for i in range(1, min(n, 3) + 1)]
        return {"n": n, "kinds": kinds, "edges": [[1, i] for i in range(2, n + 1)], "roles": [role_a] + ["sub"] * (n - 1), "params": "small",
                "src": "directed-backpressure", "queue": QUEUE, "bulk": True, "ops": ops}
    for kinds in (["flood"] * 4, ["random"] * 4, ["gossip"] * 3, ["gossip", "flood", "gossip"], ["flood", "gossip", "gossip", "random"],
                  ["random", "flood", "gossip", "random"], ["gossip", "flood", "random"]):
        fam.append(star(kinds, "sub"))
        fam.append(star(kinds, "relay"))
    for kinds in (["flood"] * 4, ["random"] * 4, ["gossip"] * 3):
        fam.append(star(kinds, "resub", "sub"))
    return fam


def long_family(ctx, rng):
    """Directed LONG-RUNNING histories (not from GenNet): hubs at the degree bound D + Dlazy, one message above the IDONTWANT
    threshold per heartbeat for >= 2 virtual minutes, so that prune backoffs expire, are swept and the hub's mesh is re-drawn
    while traffic flows; and a path whose late link stays outside every mesh, with streams between the churn steps."""
    def star(leaves, params, count, hub_role="sub", flood=(), uroles=None, gap="h"):
        n = leaves + 1
        kinds = ["gossip"] * n
        for f in flood:
            kinds[f - 1] = "flood"
        d = {"n": n, "kinds": kinds, "edges": [[1, i] for i in range(2, n + 1)], "roles": [hub_role] + ["sub"] * leaves, "params": params,
             "src": "long-star%d-%s" % (leaves, params), "ops": [{"op": "stream", "a": count, "b": 1500, "ps": list(range(2, n + 1)), "gap": gap}]}
        if uroles:
            d["uroles"] = uroles
        return d
    fam = [star(12, "default", 130)]                    # D + Dlazy = 12 leaves, redraw at ticks 75/76
    if ctx.thorough:
        fam.append(star(12, "default", 130, hub_role="relay"))
        fam.append(star(12, "default", 130, uroles=["sub"] + [rng.choice(["none", "sub"]) for _ in range(12)]))
        fam.append(star(12, "default", 150, flood=(12, 13)))
        fam.append(star(11, "default", 130))                # Dlo + Dlazy: everybody stays in the mesh
        fam.append(star(4, "small", 80))                    # D + Dlazy = 4 with the small parameters: a redraw every 15 ticks
        fam.append(star(4, "small", 80, hub_role="relay"))
        fam.append(star(3, "small", 80))
        # two hubs
        fam.append({"n": 14, "kinds": ["gossip"] * 14, "edges": [[1, 2]] + [[1, i] for i in range(3, 9)] + [[2, i] for i in range(9, 15)],
                    "roles": ["sub"] * 14, "params": "default", "src": "long-twohubs",
                    "ops": [{"op": "stream", "a": 130, "b": 1500, "ps": [3, 9, 4, 10, 1, 2], "gap": "h"}]})
    # a relay-only cut vertex that already subscribes to the other topic when its relay is announced (by an operation, or
    # because the roles are taken after the graph was built), all router mixes
    for kinds in (["flood"] * 3, ["gossip"] * 3, ["flood", "gossip", "random"], ["gossip", "flood", "gossip"], ["random", "random", "gossip"]):
        base = {"n": 3, "kinds": kinds, "edges": [[1, 2], [2, 3]], "params": "small", "src": "directed-relaycut", "uroles": ["none", "sub", "sub"]}
        pubs = [{"op": "pub", "a": 1, "b": 0, "gap": "l"}, {"op": "pub", "a": 3, "b": 0, "gap": "l"}]
        fam.append(dict(base, roles=["sub", "relay", "sub"], late_roles=True, ops=pubs))
        fam.append(dict(base, roles=["sub", "none", "sub"], ops=[{"op": "relay", "a": 2, "b": 0, "gap": rng.choice(["s", "h", "l"])}] + pubs))
    # a path R - Y - W - X whose late link Y - X stays outside both meshes (redundant IHAVEs for a while), then W loses Y
    for params, cnt in ((("small", 16),) if not ctx.thorough else (("small", 16), ("small", 30), ("default", 16))):
        fam.append({"n": 4, "kinds": ["gossip"] * 4, "edges": [[1, 2], [2, 3], [3, 4]], "roles": ["sub"] * 4, "params": params, "src": "long-path",
                    "ops": [{"op": "stream", "a": cnt, "b": 1500, "ps": [1], "gap": "l"}, {"op": "conn", "a": 2, "b": 4, "gap": "s"},
                            {"op": "stream", "a": cnt, "b": 1500, "ps": [1, 4], "gap": "l"}, {"op": "disc", "a": 2, "b": 3, "gap": "s"},
                            {"op": "stream", "a": cnt, "b": 1500, "ps": [1, 3], "gap": "l"}]})
    return fam


STRATA = ["relaycut", "fanoutpub", "nonmember_pub", "gossip_flood", "gossip_random", "randomsub", "self", "unsub_resub", "disc_reconn", "bridge"]


def sample(pool, cap, rng, per_tag):
    """Seeded sample of at most `cap` scenarios that contains at least per_tag members of every stratum present."""
    if len(pool) <= cap:
        return list(pool), True
    idx = list(range(len(pool)))
    rng.shuffle(idx)
    chosen, need = [], {t: per_tag for t in STRATA}
    rest = []
    for i in idx:
        tags = pool[i]["tags"]
        if any(need.get(t, 0) > 0 for t in tags):
            chosen.append(i)
            for t in tags:
                if need.get(t, 0) > 0:
                    need[t] -= 1
        else:
            rest.append(i)
    chosen += rest[:max(0, cap - len(chosen))]
    return [pool[i] for i in chosen[:max(cap, len(chosen))]], False


# ----------------------------------------------------------------------------- replay

def build_driver(ctx):
    binp = os.path.join(ctx.work, "c01.test")
    r = vlib.run_go(ctx, "./drivers/c01/", "^$", extra=["-c", "-o", binp], timeout=600, name="build")
    if r["rc"] != 0 or not os.path.exists(binp):
        raise vlib.Inconclusive("go build of the C01 driver failed (see %s)" % r["log"])
    return binp


def run_shard(ctx, binp, j, scns, debug=False, only=None, timeout=1500):
    inp = os.path.join(ctx.work, "shard-%02d.in.ndjson" % j)
    outp = os.path.join(ctx.work, "shard-%02d.out.ndjson" % j)
    mark = os.path.join(ctx.work, "shard-%02d.marker" % j)
    vlib.write_ndjson(inp, scns)
    env = dict(os.environ)
    env.update({"VERIF_IN": inp, "VERIF_OUT": outp, "VERIF_MARKER": mark, "VERIF_SEED": str(ctx.seed), "VERIF_TIER": ctx.tier})
    if debug:
        env["VERIF_C01_DEBUG"] = "1"
    if only is not None:
        env["VERIF_ONLY"] = str(only)
    p = subprocess.run(["timeout", str(timeout), binp, "-test.run", "^TestC01Replay$", "-test.timeout", "%ds" % timeout, "-test.count", "1"],
                       cwd=ctx.work, env=env, stdout=subprocess.PIPE, stderr=subprocess.STDOUT, text=True, errors="replace")
    with open(os.path.join(ctx.work, "shard-%02d.log" % j), "w") as f:
        f.write(p.stdout)
    lines = vlib.read_ndjson(outp) if os.path.exists(outp) else []
    m = -1
    try:
        m = int(open(mark).read().strip())
    except Exception:
        pass
    return {"rc": p.returncode, "out": p.stdout, "lines": lines, "marker": m}


# ----------------------------------------------------------------------------- coverage of validated batches

def eager_unreached(c, kinds=None):
    """Subscribers a batch message could NOT reach by eager push alone (from the nodes' own state when the batch was
    published): they needed the IHAVE/IWANT round."""
    kinds = kinds or c["kinds"]
    n = len(kinds)
    intr = [len(c["live"][i]) > 0 or c["irelays"][i] > 0 for i in range(n)]
    need = set()
    for pb in c["pubs"]:
        p = pb["n"]
        have, todo = {p}, [p]
        while todo:
            u = todo.pop()
            known = set(c["views"][u - 1])
            if kinds[u - 1] == "gossip":
                tg = {v for v in known if kinds[v - 1] != "gossip"}
                tg |= set(c["mesh"][u - 1]) if c["joined"][u - 1] else set(c["fanout1"][u - 1])
                if not known:
                    tg = set()
            else:
                tg = known
            for v in tg:
                if v not in have and intr[v - 1]:
                    have.add(v)
                    todo.append(v)
        for q in range(1, n + 1):
            if len(c["live"][q - 1]) > 0 and q not in have:
                need.add((p, q))
    return need


def batch_tags(c, oplines, scn=None, r=None, ru=None, rcl=()):
    tags = set()
    scn, r, ru = scn or {}, r or {}, ru or {}
    n, kinds = len(c["kinds"]), c["kinds"]
    edges = {tuple(sorted(e)) for e in c["edges"]}
    subs = [len(x) for x in c["live"]]
    rel = c["irelays"]
    intr = [subs[i] > 0 or rel[i] > 0 for i in range(n)]
    pubs = [p["n"] for p in c["pubs"]]
    others = lambda p: any(subs[q] > 0 for q in range(n) if q != p - 1)
    if relay_cut(edges, subs, rel, pubs):
        tags.add("relaycut")
    for p in pubs:
        if not intr[p - 1] and others(p):
            tags.add("nonmember_pub")
            if kinds[p - 1] == "gossip" and c["fanout1"][p - 1]:
                tags.add("fanoutpub")
        if subs[p - 1] > 0:
            tags.add("self")
    for i in range(1, n + 1):
        if not intr[i - 1]:
            continue
        for j in nbrs(edges, i):
            if not intr[j - 1]:
                continue
            pr = c["protos"][i - 1].get("n%d" % j, "")
            if kinds[i - 1] == "gossip" and kinds[j - 1] == "flood" and pr == "/floodsub/1.0.0":
                tags.add("gossip_flood")
            if kinds[i - 1] == "gossip" and kinds[j - 1] == "random" and pr == "/floodsub/1.0.0":
                tags.add("gossip_random")
            if kinds[i - 1] == "random":
                tags.add("randomsub")
                if kinds[j - 1] == "random" and pr == "/randomsub/1.0.0":
                    tags.add("random_random")
    if any(s >= 2 for s in subs):
        tags.add("two_subs")
    if c.get("iwant", 0) > 0 and eager_unreached(c):
        tags.add("ihave_needed")
    if any(len(d) > 0 for d in c["dead"]):
        tags.add("cancelled_sub_silent")
    # churn history before this batch
    prev = [o for o in oplines if o["k"] < c["k"] and o.get("ok")]
    for a, b in zip(prev, prev[1:]):
        if a["op"] in ("cancel", "unrelay") and b["op"] in ("sub", "relay") and a["a"] == b["a"] and kinds[a["a"] - 1] == "gossip" \
                and b["t"] - a["t"] < UNSUB_BACKOFF_MS and b["k"] == a["k"] + 1 and a.get("uninterested"):
            tags.add("unsub_resub")
        if a["op"] == "disc" and b["op"] == "conn" and {a["a"], a["b"]} == {b["a"], b["b"]} and b["k"] == a["k"] + 1:
            tags.add("disc_reconn")
    if c["params"] == "default":
        tags.add("default_params")
    ur = scn.get("uroles")
    if ur:
        if ru.get("verdict") == "ok":
            tags.add("other_topic")          # both topics carried traffic and both were judged
        # a relay-only cut vertex that subscribed to the other topic BEFORE its relay was announced (by an operation, or
        # because the roles were taken after the graph had been built)
        announced = {o["a"] for o in oplines if o["k"] < c["k"] and o.get("ok") and o["op"] == "relay"}
        for v in relay_cut_vertices(edges, subs, rel, pubs):
            if ur[v - 1] == "sub" and (v in announced or scn.get("late_roles")):
                tags.add("relay_after_other_sub")
    if scn.get("late_roles"):
        tags.add("late_roles")
    # several measured topics in one batch: in how many of them did some subscriber need the IHAVE/IWANT round (the same
    # gossip window had to advertise all of them over the same links)?
    if c.get("clones") and c.get("iwant", 0) > 0:
        ng = (1 if eager_unreached(c) else 0) + sum(1 for ci, x in enumerate(rcl) if x["verdict"] == "ok" and eager_unreached(c["clones"][ci], kinds))
        if ng >= 2:
            tags.add("multi_topic_gossip")
        if ng >= 4:
            tags.add("multi_topic_gossip_4")
    # an interest change announced while >= 1 outbound queue of the node was full (its own snapshot) and >= 1 other peer was
    # present, with >= 1 announcement dropped and left to announceRetry - before this (validated) batch
    for o in oplines:
        if o["k"] < c["k"] and o.get("ok") and o.get("burst") and o.get("qfull", 0) >= 1 and o.get("npeers", 0) >= 2 and o.get("anndrop", 0) >= 1:
            if o["op"] in ("sub", "relay"):
                tags.add("bp_" + kinds[o["a"] - 1])
            else:
                tags.add("bp_unsub")
            if o.get("ctldrop", 0) >= 1:
                tags.add("bp_ctl_dropped")
    if c.get("stream"):
        tags.add("stream")
        ev = sorted(e[0] for e in c["meshev"] if e[1] == 1)
        ts = [p["t"] for p in c["pubs"]]
        inside = [e for e in ev if ts and ts[0] < e < ts[-1]]
        if inside and r.get("njudged", 0) >= 20:
            # after the last re-draw some subscriber still depended on gossip (a gossipsub topic peer outside its mesh)
            late = [p for p in c["pubs"] if p["t"] > inside[-1]]
            dep = any(any(kinds[i] == "gossip" and p["joined"][i] and set(x for x in p["views"][i] if kinds[x - 1] == "gossip") - set(p["mesh"][i])
                          for i in range(n)) for p in late[-5:])
            if len(late) >= 10 and dep and c.get("iwant", 0) > 0:
                tags.add("long_redraw")
        if c["pubs"] and len(c["pubs"][0].get("m", "")) and c["tq"] - c["t"] >= 120000:
            tags.add("two_minutes")
    return tags


OBLIGATIONS = ["relaycut", "fanoutpub", "nonmember_pub", "gossip_flood", "randomsub", "ihave_needed", "unsub_resub", "disc_reconn",
               "self", "two_subs", "other_topic", "relay_after_other_sub", "late_roles", "long_redraw", "bp_flood", "bp_random", "bp_gossip",
               "multi_topic_gossip", "multi_topic_gossip_4"]


# ----------------------------------------------------------------------------- main

def run(ctx):
    rng = random.Random(ctx.seed)
    states = transitions = 0
    mcinfo = {}

    # ---- stage A (parallel): model checking, scenario generation, driver build
    def do_mc(job):
        name, cfg, expect, to, workers = job
        if expect == "sim":
            return job, vlib.run_tlc(ctx, FAMILY, "MCNet", cfg, mode="sim", simulate="num=500", depth=200, timeout=to, name=name, workers=1)
        return job, vlib.run_tlc(ctx, FAMILY, "MCNet", cfg, timeout=to, name=name, workers=workers)

    def do_gen(job):
        name, consts, mode, sim, depth, to = job
        cfg = vlib.cfg_text(constants=consts, invariants=["Emit"])
        return job, vlib.run_tlc(ctx, FAMILY, "GenNet", cfg, mode=mode, simulate=sim, depth=depth, timeout=to, name=name,
                                 workers=(1 if mode == "sim" else 4), heap="6g")

    with cf.ThreadPoolExecutor(max_workers=16) as ex:
        jobs_mc = mc_jobs(ctx)
        f_mc = [ex.submit(do_mc, j) for j in jobs_mc]
        f_build = ex.submit(build_driver, ctx)
        f_gen = [ex.submit(do_gen, j) for j in gen_jobs(ctx)]
        gens = [f.result() for f in f_gen]
        binp = f_build.result()
        # the long thorough-tier MC keeps running while the replay goes on
        is_late = lambda j: j[2] in ("timeout-ok", "sim") or j[0] == "mc-n3-allkinds"
        late_mc = [(j, f) for f, j in zip(f_mc, jobs_mc) if is_late(j)]
        mcs = [f.result() for f, j in zip(f_mc, jobs_mc) if not is_late(j)]

        def settle_mc(results):
            nonlocal states, transitions
            for (name, cfg, expect, to, workers), res in results:
                if expect is None:
                    vlib.require_mc_ok(ctx, res, "MCNet %s" % name)
                elif expect == "sim":
                    vlib.require_mc_ok(ctx, res, "MCNet %s" % name, allow_timeout=True)
                    res.distinct = res.distinct or int((re.findall(r"The number of states generated: (\d+)", res.out) or
                                                        re.findall(r"Progress: (\d+) states checked", res.out) or [0])[-1])
                    res.generated = res.generated or res.distinct
                elif expect == "timeout-ok":
                    vlib.require_mc_ok(ctx, res, "MCNet %s" % name, allow_timeout=True)
                else:
                    vlib.require_mc_fails(ctx, res, "MCNet %s (must fail: non-vacuity)" % name, expect)
                states += res.distinct
                transitions += res.generated
                mcinfo[name] = [res.distinct, res.generated, round(res.wall)] + ([expect] if expect else [])
                if expect in ("sim", "timeout-ok"):
                    expect = None
                ctx.log("MC %-20s distinct=%d generated=%d %.0fs %s" % (name, res.distinct, res.generated, res.wall,
                                                                        ("violates %s as required" % expect) if expect else "ok"))
        settle_mc(mcs)

        # ---- stage B: scenarios
        pools = {}
        for (name, consts, mode, sim, depth, to), g in gens:
            if g.timed_out and mode == "sim":
                ctx.notes.append("%s: generator stopped by the time limit" % name)
            elif not g.no_error or g.violated:
                raise vlib.Inconclusive("generator %s failed: %s (see %s/tlc.out)" % (name, g.errors[:2], g.dir))
            got = g.printed("SCN")
            if not got:
                raise vlib.Inconclusive("generator %s emitted nothing (see %s/tlc.out)" % (name, g.dir))
            states += g.distinct or g.generated
            transitions += g.generated
            uniq = {}
            for s in got:
                s["src"] = name
                if s["n"] <= 3:
                    key, s2 = canon(s)
                    s2["src"] = name
                    uniq.setdefault(key, s2)
                else:
                    uniq.setdefault(json.dumps([s["kinds"], s["roles"], s["edges"], s["ops"]]), s)
            pool = [uniq[k] for k in sorted(uniq)]
            for s in pool:
                s["tags"] = structural_tags(s)
            pools[name] = pool
            ctx.log("Gen %-8s %d emitted, %d distinct up to relabelling" % (name, len(got), len(pool)))
        caps = {"gen-n2": (500, 100000), "gen-n3": (450, 12000), "gen-n3s": (250, 0), "gen-n4": (220, 5000), "gen-n4g": (120, 3000),
                "gen-n5": (110, 3500), "gen-n5g": (60, 1500)}
        chosen, exhaustive = [], {}
        for name, pool in pools.items():
            cap = caps[name][1 if ctx.thorough else 0]
            per_tag = 0 if name == "gen-n2" else 8
            part, exh = sample(pool, cap, rng, per_tag)
            exhaustive[name] = exh
            chosen += part
        scns = []
        for s in chosen:
            d = add_clones(decorate(s, rng, ctx.thorough), s, rng, ctx.thorough)
            d["gid"] = len(scns)
            scns.append(d)
        for d in long_family(ctx, rng) + backpressure_family(ctx, rng) + multitopic_family(ctx, rng):
            d["gid"] = len(scns)
            scns.append(d)
        vlib.write_ndjson(os.path.join(ctx.work, "scenarios.ndjson"), scns)
        ctx.log("replaying %d scenarios (exhaustive: %s)" % (len(scns), exhaustive))

        # ---- stage C: replay on real nodes, in parallel shards
        nsh = 8
        order = list(range(len(scns)))
        rng.shuffle(order)
        shards = [[scns[i] for i in order[j::nsh]] for j in range(nsh)]
        shards = [s for s in shards if s]
        t0 = time.time()
        results = list(ex.map(lambda js: run_shard(ctx, binp, js[0], js[1]), enumerate(shards)))
        ctx.log("replay done in %.0fs" % (time.time() - t0))
        bygid = {}
        for j, r in enumerate(results):
            if r["rc"] != 0:
                handle_dead_driver(ctx, binp, j, shards[j], r)
            for ln in r["lines"]:
                gid = shards[j][ln["scn"]]["gid"]
                ln["scn"] = gid
                bygid.setdefault(gid, []).append(ln)
        missing = [g for g in range(len(scns)) if g not in bygid]
        if missing and not ctx.violations:
            raise vlib.Inconclusive("%d scenarios produced no trace (first: %s)" % (len(missing), missing[:3]))

        # ---- stage D: trace validation by TLC
        chunks, cur = [], []
        for gid in sorted(bygid):
            cur += bygid[gid]
            if len(cur) >= (3000 if ctx.thorough else 1500) or sum(len(x.get("deliv", ())) for x in cur) > 60000:
                chunks.append(cur)
                cur = []
        if cur:
            chunks.append(cur)

        def do_tv(ic):
            i, lines = ic
            path = os.path.join(ctx.work, "tv-%03d.ndjson" % i)
            slim = [{k: v for k, v in ln.items() if k not in ("log", "protos")} for ln in lines]
            vlib.write_ndjson(path, slim)
            res = vlib.run_tlc(ctx, FAMILY, "NetTrace", "NetTrace.cfg", mode="trace", files={"trace.ndjson": path}, timeout=900, name="tv-%03d" % i)
            if res.hw is None or res.hw[0] < res.hw[1]:
                raise vlib.Inconclusive("trace validation stopped at line %s of chunk %d (see %s/tlc.out): %s" % (res.hw, i, res.dir, res.errors[:2]))
            return res
        ctx.log("validating %d trace chunks" % len(chunks))
        tvs = list(ex.map(do_tv, enumerate(chunks)))
        ctx.log("trace validation done")
        if late_mc:
            settle_mc([f.result() for j, f in late_mc])

    res_by = {}
    for r in tvs:
        states += r.distinct
        transitions += r.generated
        for x in r.printed("RES"):
            res_by[(x["scn"], x["k"])] = x

    # ---- stage E: verdict and coverage
    nchecks = nok = ndisc = evals = nok_u = nstream_msgs = nok_c = 0
    disc_why = {}
    tags_hit, samples, nontrivial = {}, [], set()
    drift = 0
    for gid in sorted(bygid):
        lines = bygid[gid]
        scn = scns[gid]
        oplines = [l for l in lines if l["e"] == "op"]
        # mark operations that left the node without interest (for the unsubscribe+resubscribe obligation)
        edges, subs, rel = cfg_after({"n": scn["n"], "roles": scn["roles"], "edges": scn["edges"], "ops": []}, 0)
        for o in oplines:
            if not o.get("ok"):
                continue
            a = o["a"] - 1
            if o["op"] == "sub":
                subs[a] += 1
            elif o["op"] == "cancel":
                subs[a] -= 1
            elif o["op"] == "relay":
                rel[a] += 1
            elif o["op"] == "unrelay":
                rel[a] -= 1
            o["uninterested"] = o["op"] in ("cancel", "unrelay") and subs[a] == 0 and rel[a] == 0
        for c in lines:
            if c["e"] != "check":
                continue
            nchecks += 1
            c["params"] = scn["params"]
            rr = res_by.get((gid, c["k"]))
            if rr is None:
                raise vlib.Inconclusive("no verdict for batch k=%d of scenario %d" % (c["k"], gid))
            r, ru, rcl = rr["t"], rr["u"], rr.get("cl", [])
            c.setdefault("clones", [])
            if r["drift"] or ru.get("drift"):
                drift += 1
            if r["verdict"] == "badlog" or ru["verdict"] == "badlog" or any(x["verdict"] == "badlog" for x in rcl):
                raise vlib.Inconclusive("driver log inconsistent with the tracked configuration (scenario %d, k=%d)" % (gid, c["k"]))
            # the unrelated second topic is judged by the same predicates
            if ru["verdict"] == "viol":
                report(ctx, scn, c["u"], ru, c, topic="U")
            elif ru["verdict"] == "ok":
                nok_u += 1
                evals += sum(1 for d in c["u"]["deliv"] if d["m"] in {p["m"] for p in c["u"]["pubs"]})
            # the additional measured topics
            for ci, x in enumerate(rcl):
                if x["verdict"] == "viol":
                    report(ctx, scn, c["clones"][ci], x, c, topic="T%d" % c["clones"][ci]["topic"])
                elif x["verdict"] == "ok":
                    nok_c += 1
                    evals += sum(1 for d in c["clones"][ci]["deliv"] if d["m"] in {p["m"] for p in c["clones"][ci]["pubs"]})
            if r["verdict"] == "discard":
                ndisc += 1
                why = "+".join(w for w, ok in (("cfg", r["premcfg"]), ("env", r["premenv"]), ("settled", r["premsettled"])) if not ok) or "no-message-in-a-quiet-window"
                disc_why[why] = disc_why.get(why, 0) + 1
                continue
            if r["verdict"] == "viol":
                report(ctx, scn, c, r, c)
                continue
            nok += 1
            if c.get("stream"):
                nstream_msgs += r["njudged"]
                evals += r["njudged"] * sum(len(x) for x in c["live"])
            else:
                evals += sum(1 for d in c["deliv"] if d["m"] in {p["m"] for p in c["pubs"]})
            tg = batch_tags(c, oplines, scn, r, ru, rcl)
            for t in tg:
                tags_hit[t] = tags_hit.get(t, 0) + 1
            if any(len(c["live"][q]) > 0 and q + 1 != p["n"] for p in c["pubs"] for q in range(scn["n"])):
                nontrivial.add(json.dumps([scn["kinds"], scn["roles"], scn["edges"], scn.get("uroles"), [[o["op"], o["a"], o["b"]] for o in scn["ops"]]]))
            if len(samples) < 3 and not c.get("stream") and ("ihave_needed" in tg or "relaycut" in tg or len(samples) == 0):
                samples.append({"scenario": {k: scn[k] for k in ("n", "kinds", "roles", "edges", "ops", "params")},
                                "batch": {k: c[k] for k in ("t", "pubs", "live", "views", "mesh", "fanout1", "iwant", "deliv")},
                                "tags": sorted(tg)})
    if drift:
        ctx.notes.append("MODEL-DRIFT: in %d batches some node's ListPeers/GetTopics differed from the model's `known` (information only)" % drift)
    ctx.log("batches: %d judged ok (+%d on the second topic, +%d on additional measured topics; %d stream messages), %d discarded %s, %d violating; coverage %s" % (
        nok, nok_u, nok_c, nstream_msgs, ndisc, disc_why, len(ctx.violations), tags_hit))
    if not ctx.violations:
        miss = [t for t in OBLIGATIONS if not tags_hit.get(t)]
        if miss:
            raise vlib.Inconclusive("coverage obligation not met: no validated batch with: %s (validated %d, discarded %d %s)" % (miss, nok, ndisc, disc_why))
        if nok < max(20, nchecks // 3):
            raise vlib.Inconclusive("too few batches satisfied the premise: %d of %d (%s)" % (nok, nchecks, disc_why))
    cov = {"states": states, "transitions": transitions, "traces_validated_against_impl": nok, "samples": samples,
           "evaluations": evals, "distinct_nontrivial": len(nontrivial),
           "rule": "evaluation = one (subscription, batch message) delivery count judged by NetTrace inside the premise; a scenario is non-trivial when "
                   "some message had to reach a subscription on a node other than its publisher; distinct by (kinds, roles, graph, operation list) "
                   "after relabelling (N<=3)",
           "exhaustive": all(exhaustive.values()), "exhaustive_by_generator": exhaustive, "scenarios": len(scns),
           "batches": {"total": nchecks, "judged": nok, "judged_second_topic": nok_u, "judged_additional_measured_topics": nok_c, "judged_stream_messages": nstream_msgs,
                       "discarded": ndisc, "discard_reasons": disc_why},
           "obligations": {t: tags_hit.get(t, 0) for t in OBLIGATIONS}, "other_coverage": {t: v for t, v in tags_hit.items() if t not in OBLIGATIONS},
           "mc": mcinfo}
    return vlib.finish(ctx, LEVEL, cov, [
        "settled = no stimulus for max(PruneBackoff, UnsubscribeBackoff) + 17 + 3 heartbeats of virtual time AND, at publish time, no backoff entry left and "
        "every joined gossipsub node's next heartbeat would neither graft nor prune (read from the nodes' own state); batches published in a network whose "
        "meshes never settle (e.g. a hub of degree Dhi) are discarded, not judged",
        "sound subset of the premise only: <= Dlo+Dlazy gossipsub overlay neighbours per gossipsub node, <= RandomSubD randomsub neighbours, "
        "publisher in or adjacent to the overlay; churn = connect / whole-connection disconnect / subscribe / cancel / relay / relay-cancel",
        "simnet links (1 ms latency, no loss); every node created at the same instant (heartbeats in phase); quiescence wait = 2N + HistoryGossip + 2 heartbeats",
        "N <= 3 configurations are enumerated by TLC and sampled by VERIF_SEED above the cap; N = 4, 5 are TLC -simulate samples",
        "timing of churn steps, which eligible publishers form a batch, the two-subscription variant, the parameter family, hello-vs-announce construction "
        "order, the backpressure variant and the roles on the unrelated second topic U are seeded choices of the orchestrator; the second topic exists at code level only (in Net.tla "
        "topics are independent by construction: a second topic would be an independent copy of the same state)",
        "several measured topics (clones of the topic under test: same roles, operations and publications, k = 2..8, batches of <= 2 publishers) exist at code "
        "level only (per-topic state is independent in Net.tla); each is judged like the topic under test",
        "backpressure family: outbound queues of 8, bursts of 14 x 256 KiB on a bulk topic in the same virtual instant as the interest change; 'queue full' is "
        "read from the node's own snapshot and the dropped announcements from its tracer; bulk messages are never judged; measured batches there have <= 3 publishers",
        "long-running streams (directed family: hubs at D+Dlazy, a late link outside the meshes; plus a seeded fraction of generated scenarios) are judged PER "
        "MESSAGE: at its publish instant every joined gossipsub node has <= Dlazy gossipsub topic peers outside its mesh and no GRAFT/PRUNE happens anywhere "
        "for N + HistoryGossip + 1 heartbeats afterwards; this admits hubs whose backoffs are pending (a weaker reading of 'settled' than for single batches)"])


def report(ctx, scn, c, r, line, topic="T"):
    """c = the observations of the topic (the check line itself for T, line["u"] for U)."""
    kinds = line["kinds"]
    pubs = {p["m"]: p["n"] for p in c["pubs"]}
    intr = lambda i: len(c["live"][i - 1]) > 0 or c["irelays"][i - 1] > 0
    role = lambda i: "sub" if len(c["live"][i - 1]) > 0 else "relay" if c["irelays"][i - 1] > 0 else "none"
    done = set()
    for pred in r["viol"]:
        items = r["bad"] if pred == "P_C01_ExactlyOnce" else r["dups"]
        if not items:
            items = [{"n": 0, "s": "", "m": "?", "c": r.get("spurious", 0)}]
        for d in items:
            p = pubs.get(d["m"], 0)
            live = d["n"] and d["s"] in c["live"][d["n"] - 1]
            kind = "spurious" if d["m"] == "?" else "duplicate" if d["c"] > 1 else "loss" if live else "delivered-to-cancelled"
            sig = {"kind": kind, "topic": topic, "stream": bool(line.get("stream")), "publisher": ("%s/%s" % (kinds[p - 1], role(p))) if p else "?",
                   "victim": ("%s/%s" % (kinds[d["n"] - 1], "own" if d["n"] == p else "remote")) if d["n"] else "?",
                   "second_subscription": bool(d["s"]) and not d["s"].endswith(".1") and kind == "loss" and
                   any(x["s"].endswith(".1") and x["n"] == d["n"] and x["m"] == d["m"] and x["c"] == 1 for x in c["deliv"])}
            key = (pred, json.dumps(sig, sort_keys=True))
            if key in done:
                continue
            done.add(key)
            drift = " [ListPeers differs from the expected interest view on nodes %s]" % r["drift"] if r["drift"] else ""
            vlib.add_violation(ctx, pred, sig,
                               "%s of message %s%s (published by node %s %s) at node %s subscription %s: delivered %d time(s); kinds=%s edges=%s live=%s relays=%s%s%s" % (
                                   kind, d["m"], "" if topic == "T" else (" on the unrelated second topic U" if topic == "U" else " on the additional measured topic %s" % topic), p, kinds[p - 1] if p else "?", d["n"], d["s"], d["c"], kinds,
                                   line["edges"], c["live"], c["irelays"], (" uroles=%s" % scn["uroles"]) if scn.get("uroles") else "", drift),
                               {"scenario": {k: scn[k] for k in ("n", "kinds", "roles", "edges", "ops", "params", "uroles", "late_roles", "queue", "bulk", "clones") if k in scn},
                                "check_line": {k: v for k, v in line.items() if k not in ("log", "pubs", "deliv")} if line.get("stream") else
                                              {k: v for k, v in line.items() if k != "log"}, "verdict": {k: (v if k not in ("bad", "dups") else v[:40]) for k, v in r.items()},
                                "how": "write the scenario object as one line to a file and run harness/drivers/c01 TestC01Replay with VERIF_IN/VERIF_OUT (VERIF_C01_DEBUG=1 adds the wire log)"})


def handle_dead_driver(ctx, binp, j, shard, r):
    """The driver process died: a VIOLATION only if the scenario that was running reproduces a panic inside the library when run alone."""
    m = r["marker"]
    if m < 0 or m >= len(shard):
        raise vlib.Inconclusive("driver shard %d failed outside any scenario (rc=%s, see %s/shard-%02d.log)" % (j, r["rc"], ctx.work, j))
    again = run_shard(ctx, binp, 100 + j, [shard[m]], timeout=300)
    out = again["out"]
    if again["rc"] != 0 and "panic:" in out and "go-libp2p-pubsub" in out and "verifharness/drivers" not in out.split("panic:")[1][:400]:
        first = out.split("panic:")[1].strip().splitlines()[0][:200]
        vlib.add_violation(ctx, "P_C01_ExactlyOnce", {"kind": "panic", "what": re.sub(r"0x[0-9a-f]+", "0x..", first)},
                           "the library panicked while replaying a scenario inside the premise: %s" % first,
                           {"scenario": shard[m], "output": out[-4000:]})
        # the rest of the shard was not run: re-run it without the offending scenario
        rest = shard[m + 1:]
        if rest:
            rr = run_shard(ctx, binp, 200 + j, rest)
            for ln in rr["lines"]:
                ln["scn"] = ln["scn"] + m + 1
            r["lines"] = [l for l in r["lines"] if l["scn"] < m] + rr["lines"]
        else:
            r["lines"] = [l for l in r["lines"] if l["scn"] < m]
        return
    raise vlib.Inconclusive("driver shard %d died in scenario %d and the failure did not reproduce as a library panic (rc=%s, see %s/shard-%02d.log)" % (
        j, m, r["rc"], ctx.work, j))
