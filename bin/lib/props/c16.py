"""C16 - a blacklisted peer can neither inject messages nor receive traffic.

spec/blacklist: Blacklist (implementation-shaped model: peer lifecycle x inbound pipeline x Blacklist(p, api|direct)
enabled in every state), MCBlacklist (exhaustive configurations incl. configurations that MUST fail), GenBlacklist
(situation generator: position x how x by x stage at the instant of a blacklisting), BlacklistTrace (judges the
step lines recorded from the real node).  harness/drivers/c16 reconstructs every situation on a real node."""
import concurrent.futures as cf
import json, os, random, re
from .. import vlib

LEVEL = "model_checking"
FAMILY = "blacklist"

BASE = dict(MaxQ=1, CanExpire=True, Churn=True, RecheckAtPublish=True, CheckFwd=True, CheckAuthor=True, CheckNewStream=True,
            CheckPending=True, ApiCloses=True, ApiClears=True, ApiNotifies=True, GraftNeedsStream=True, ApiSkipsIfPresent=False, DrainAfterClose=False, PurgeNeedsRtPeer=False)
INVS = ["TypeOK", "P_C16_NoInject", "P_C16_Refuse", "P_C16_Api", "P_C16_ApiQueue", "P_C16_ApiHadQueue"]
# with D6 as found (GRAFT accepted without outbound stream) everything except the "any" part of P_C16_Api still holds
INVS_D6 = ["TypeOK", "P_C16_NoInject", "P_C16_Refuse", "P_C16_ApiQueue", "P_C16_ApiHadQueue", "FanoutNeedsStream"]
# one mechanism removed -> the predicate that must fail (non-vacuity)
MUST_FAIL = [("asfound-D13", {"RecheckAtPublish": False}, "P_C16_NoInject"),
             ("no-fwd-check", {"CheckFwd": False}, "P_C16_NoInject"),
             ("no-author-check", {"CheckAuthor": False}, "P_C16_NoInject"),
             ("no-newstream-check", {"CheckNewStream": False}, "P_C16_Refuse"),
             ("no-pending-check", {"CheckPending": False}, "P_C16_ApiQueue"),
             ("api-no-close", {"ApiCloses": False}, "P_C16_Api"),
             ("api-no-clear", {"ApiClears": False}, "P_C16_Api"),
             ("api-no-notify", {"ApiNotifies": False}, "P_C16_Api"),
             ("api-skips-if-present", {"ApiSkipsIfPresent": True}, "P_C16_Api"),
             ("drain-after-close", {"DrainAfterClose": True, "MaxQ": 2}, "P_C16_Api"),
             ("asfound-D6", {"GraftNeedsStream": False}, "P_C16_Api"),
             # only meaningful on top of D6: a peer in the mesh while its stream is still being opened
             ("purge-needs-rtpeer", {"GraftNeedsStream": False, "PurgeNeedsRtPeer": True, "_invs": ["P_C16_ApiHadQueue"]}, "P_C16_ApiHadQueue")]


def mc_cfg(over=None, msgs=True, churn=True, invs=None):
    c = dict(BASE)
    c["Churn"] = churn
    c.update(over or {})
    invs = c.pop("_invs", invs) or INVS
    consts = {"Peers": "Peers <- MCPeers", "Life": "Life <- MCLifePeers"}
    if msgs:
        consts.update({"Msgs": "Msgs <- MCMsgs", "Fwd": "Fwd <- MCFwd", "Author": "Author <- MCAuthor"})
    else:
        consts.update({"Msgs": "Msgs <- NoMsgs", "Fwd": "Fwd <- NoFn", "Author": "Author <- NoFn"})
    consts.update(c)
    return vlib.cfg_text(constants=consts, invariants=invs, view="MCView")


def model_check(ctx):
    jobs = [("mc-full", mc_cfg(invs=INVS + ["FanoutNeedsStream"]), None), ("mc-pipe", mc_cfg(churn=False), None),
            ("mc-life", mc_cfg(msgs=False), None),
            ("mc-asfound-D6-rest", mc_cfg({"GraftNeedsStream": False}, invs=INVS_D6), None)]
    if ctx.thorough:
        jobs.append(("mc-q2", mc_cfg({"MaxQ": 2}), None))
    for name, over, prop in MUST_FAIL:
        jobs.append(("mc-" + name, mc_cfg(over), prop))

    def one(job):
        name, cfg, prop = job
        return job, vlib.run_tlc(ctx, FAMILY, "MCBlacklist", cfg, timeout=900, name=name, workers=2)

    states = transitions = 0
    mc = {}
    with cf.ThreadPoolExecutor(max_workers=2) as ex:      # 2 x 2 TLC workers
        for (name, cfg, prop), res in ex.map(one, jobs):
            if prop is None:
                vlib.require_mc_ok(ctx, res, "MCBlacklist %s" % name)
                states += res.distinct
                transitions += res.generated
                mc[name] = [res.distinct, res.generated]
            else:
                vlib.require_mc_fails(ctx, res, "MCBlacklist %s" % name, prop)
                mc[name] = "fails " + prop
    return states, transitions, mc


CONNECTED = ("conn", "mesh", "fanout", "gated")


def plan_scenarios(ctx, sits):
    """Cross the generated situations with the blacklist implementation and the publish path."""
    rng = random.Random(ctx.seed)
    out, dropped = [], {}
    for s in sorted(sits, key=lambda x: json.dumps(x, sort_keys=True)):
        if s["stage"] == "arrived" and s["how"] == "api":
            dropped["arrived+api: the order of the loop's select cannot be forced"] = dropped.get(
                "arrived+api: the order of the loop's select cannot be forced", 0) + 1
            continue
        if s["pos"] == "never" and s["by"] == "origin" and s["stage"] != "none":
            k = "never+origin+in-flight: needs a connection that never got an outbound stream and then went away"
            dropped[k] = dropped.get(k, 0) + 1
            continue
        member = None
        mem = ""
        if s["pos"] in ("pending-mesh", "repending-mesh"):
            # between queue creation and stream establishment, already in the mesh by its own GRAFT (D6's path)
            if s["stage"] != "none":
                k = "pending-mesh+in-flight: the membership dimension is independent of the pipeline (covered by pending x stages)"
                dropped[k] = dropped.get(k, 0) + 1
                continue
            mem = "mesh"
            s = dict(s, pos=s["pos"][:-len("-mesh")])
        if s["pos"].startswith("gated-"):
            # the writer sits in Write with one popped RPC and a backlog is queued; `member` says why the node sends to the peer
            member = s["pos"][len("gated-"):]
            s = dict(s, pos="gated")
        if s["pos"] == "gated" and s["how"] == "direct":
            k = "gated+direct: Add alone does not touch outbound traffic"
            dropped[k] = dropped.get(k, 0) + 1
            continue
        impls = ["map", "timed"]
        if not ctx.thorough and s["how"] != "both" and not mem:   # Add's return value differs per implementation: always run both
            impls = [rng.choice(impls)]
        for impl in impls:
            paths = ["queue"]
            if s["stage"] in ("none", "arrived") and s["how"] != "both":
                paths.append("direct")
            # what the backlog consists of / which kind of peer it is: the first kind of each membership is combined with
            # every stage, the others (urgent content, floodsub peer, direct peer) with an empty pipeline
            bks = [""]
            if member == "mesh":
                bks = ["mesh"] + (["mesh-urgent"] if s["stage"] == "none" else [])
            elif member == "fanout":
                bks = ["fanout"]
            elif member == "topic":
                bks = ["topic"] + (["flood", "directpeer"] if s["stage"] == "none" else [])
            for path, bk in [(p_, b_) for p_ in paths for b_ in bks]:
                if bk and path != "queue":
                    continue
                sc = dict(s)
                sc.update(bk=bk, mem=mem)
                sc.update(impl=impl, path=path, expire=(impl == "timed" and s["stage"] == "none" and path == "queue" and s["how"] != "both"))
                out.append(sc)
                if ctx.thorough and s["stage"] == "sendQ" and s["how"] == "api":
                    out += [dict(sc), dict(sc)]        # the select order is random: more attempts
    return out, dropped


def unq(s):
    return s.replace('\\"', '"').replace("\\\\", "\\")


def validate(ctx, scns_lines):
    """Run BlacklistTrace over chunks of scenarios; returns (viols, evals, states)."""
    chunk = 40
    chunks = [scns_lines[i:i + chunk] for i in range(0, len(scns_lines), chunk)]

    def one(ix):
        lines = [ln for sc in chunks[ix] for ln in sc]
        path = os.path.join(ctx.work, "tv-chunk-%d.ndjson" % ix)
        vlib.write_ndjson(path, lines)
        res = vlib.run_tlc(ctx, FAMILY, "BlacklistTrace", "BlacklistTrace.cfg", mode="trace", files={"trace.ndjson": path},
                           timeout=900, name="tv-%d" % ix, heap="3g")
        return ix, len(lines), res

    viols, evals, states = [], 0, 0
    with cf.ThreadPoolExecutor(max_workers=max(1, min(vlib.NCPU // 2, 4))) as ex:
        for ix, n, res in ex.map(one, range(len(chunks))):
            if res.hw is None or res.hw[0] < res.hw[1] or res.hw[1] != n + 1:
                raise vlib.Inconclusive("trace validation did not reach the end of chunk %d (see %s/tlc.out): %s" %
                                        (ix, res.dir, res.errors[:2]))
            states += res.distinct
            m = re.findall(r'<<"EVALS", (\d+), (\d+)>>', res.out)
            if m:
                evals += int(m[-1][0])
            for line in res.out.splitlines():
                if line.startswith('<<"VIOL", "') and line.endswith('">>'):
                    viols.append(json.loads(unq(line[len('<<"VIOL", "'):-3])))
    return viols, evals, states


def compact(ln):
    c = ln.get("c16", {})
    return {"i": ln["i"], "t": ln["t"], "act": ln["act"],
            "ev": [{k: e[k] for k in ("k", "n", "m", "p", "via", "from", "reason") if k in e} for e in ln["ev"]
                   if e["k"] in ("Deliver", "Reject", "Up", "Down", "Validate") or (e["k"] in ("Recv", "Send") and e["rpc"]["msgs"])],
            "out": {p: len(f) for p, f in ln["out"].items() if f}, "deliv": [d["m"] for d in ln["deliv"]],
            "peers": sorted(ln["st"].get("peers", {})), "mesh": ln["st"].get("mesh"), "bl": c.get("bl"), "capq": c.get("capq")}


def coverage(scns_lines):
    """Coverage obligations of DESIGN C16, measured on the recorded lines."""
    hit = {}

    def inc(k):
        hit[k] = hit.get(k, 0) + 1

    for sc in scns_lines:
        cfg = sc[0]["act"]["cfg"]
        pos, how, by, stage, impl, path = (cfg[k] for k in ("pos", "how", "by", "stage", "impl", "path"))

        bl_line = next((k for k, ln in enumerate(sc) if k > 0 and ln["c16"]["bl"]), None)
        if bl_line is None:
            continue
        e = sc[bl_line]["c16"]["bl"][0]
        inc("impl:" + impl)
        inc("how:" + how)
        before = sc[bl_line - 1]
        if how == "both":
            # direct Add first, BlacklistPeer second: the api clean-up must happen whatever Add returned
            api_line = next((k for k, ln in enumerate(sc) if k > 0 and any(x["how"] == "api" for x in ln["c16"]["bl"])), None)
            if api_line is not None and api_line > bl_line:
                e2 = next(x for x in sc[api_line]["c16"]["bl"] if x["how"] == "api")
                if "p1" in sc[api_line - 1]["st"]["peers"] and sc[api_line - 1]["c16"]["blc"]["p1"]:
                    inc("both:%s:add-returned-%s" % (impl, str(e2["ok"]).lower()))
                    if pos in ("mesh", "fanout", "conn"):
                        inc("both:%s:%s" % (impl, pos))
            how = "api"
        if cfg.get("mem") == "mesh":
            # BlacklistPeer (or, for contrast, a direct Add) hit a peer that was in the mesh WITHOUT an established outbound
            # stream: queue registered, router never told about the peer, mesh entry by the peer's own GRAFT
            first = sc[bl_line]["c16"]["bl"][0]
            b4 = sc[bl_line - 1]["st"]
            if "p1" in b4["mesh"].get("T1", []) and "p1" in b4["peers"] and "p1" not in b4.get("gsPeers", {}):
                inc("pendmesh:" + cfg["how"])
                api_l = next((k for k, ln in enumerate(sc) if k > 0 and any(x["how"] == "api" for x in ln["c16"]["bl"])), None)
                if api_l is not None and "p1" in sc[api_l - 1]["st"]["mesh"].get("T1", []) and "p1" not in sc[api_l]["st"]["mesh"].get("T1", []):
                    inc("pendmesh:left-mesh-at-BlacklistPeer")
                if cfg["how"] == "direct" and any("p1" in ln["st"]["mesh"].get("T1", []) for ln in sc[bl_line:]):
                    inc("pendmesh:direct-stays-in-mesh(no-statement)")
        if pos == "gated":
            api_line = next((k for k, ln in enumerate(sc) if k > 0 and any(x["how"] == "api" for x in ln["c16"]["bl"])), None)
            if api_line is not None:
                e2 = next(x for x in sc[api_line]["c16"]["bl"] if x["how"] == "api")
                qb = sc[api_line - 1]["st"]["peers"].get("p1", {})
                steps = [ln for ln in sc[api_line + 1:] if ln["act"].get("x") == "stepwrite"]
                # BlacklistPeer happened while >= 2 RPCs were queued for the peer (one more popped, its Write blocked), and the
                # wire / the host's Write calls were observed while the Writes were released one by one
                if qb.get("q", 0) >= 2 and len(steps) >= 2 and sc[api_line - 1]["c16"]["writes"]["p1"] == e2["wr"]:
                    bk = cfg.get("bk", "")
                    urgent_ok = bk != "mesh-urgent" or (qb.get("prio", 0) >= 1 and qb["q"] - qb["prio"] >= 1)
                    if urgent_ok:
                        inc("backlog:" + bk)
                        inc("backlog:writes-after=%d" % (steps[-1]["c16"]["writes"]["p1"] - e2["wr"]))
                        inc("backlog:frames-after=%d" % sum(len(ln["out"].get("p1", [])) for ln in sc[api_line + 1:]))
        if pos == "mesh" and "p1" in before["st"]["mesh"].get("T1", []):
            inc("pos:mesh")
        if pos == "fanout" and "p1" in before["st"]["fanout"].get("T2", []):
            inc("pos:fanout")
        if pos == "conn" and "p1" in before["st"]["peers"]:
            inc("pos:conn")
        if pos in ("never", "down") and "p1" not in before["st"]["peers"]:
            inc("pos:" + pos)
        if pos in ("pending", "repending") and "p1" in before["st"]["peers"] and "p1" not in before["st"].get("gsPeers", {}):
            inc("pos:" + pos)
        if pos == "nostream" and "p1" not in before["st"]["peers"] and "p1" in before["st"]["mesh"].get("T1", []):
            inc("pos:nostream")
        recv_min = [ev["n"] for ln in sc for ev in ln["ev"] if ev["k"] == "Recv" and any(m["m"] == "min" for m in ev["rpc"]["msgs"])]
        fate_min = [ev for ln in sc for ev in ln["ev"] if ev["k"] in ("Deliver", "Reject") and ev.get("m") == "min"]
        if stage in ("valQ", "worker", "async", "sendQ") and recv_min and fate_min:
            if recv_min[0] <= e["n"] < fate_min[0]["n"]:
                inc("stage:" + stage)
                inc("inflight-by:" + by)
                inc("inflight-how:" + how)
        if stage == "arrived" and fate_min and fate_min[0]["k"] == "Reject" and fate_min[0]["n"] > e["n"]:
            inc("stage:arrived")
        wrote_after = 0
        for k, ln in enumerate(sc[bl_line:], start=bl_line):
            alive = e["exp"] == 0 or ln["t"] < e["t"] + e["exp"]
            if how == "api" and alive and k > bl_line:
                wrote_after += len(ln["out"].get("p1", []))
            if how == "api" and alive and k == bl_line:
                wrote_after += len([f for f in ln["out"].get("p1", []) if f["t"] >= e["t"]])
            for ev in ln["ev"]:
                if ev["k"] == "Reject" and ev["n"] > e["n"] and alive:
                    if ev.get("reason") == "blacklisted peer":
                        inc("reject:peer")
                        if ev["from"] != ev["via"]:
                            inc("reject:peer-foreign-author")
                        if path == "direct":
                            inc("reject:peer-directpath")
                    if ev.get("reason") == "blacklisted source":
                        inc("reject:source")
                        if path == "direct":
                            inc("reject:source-directpath")
            a = ln["act"]
            if alive and k > bl_line and a.get("a") == "peer" and a.get("p") == "p1":
                inc("reconnect:" + ("first" if pos == "never" else "again"))
                if "p1" not in ln["st"]["peers"]:
                    inc("reconnect:skipped")
            if alive and a.get("x") == "releaseOpen" and sc[k - 1]["c16"]["capq"] == "open" and ln["c16"]["capq"] == "closed" \
                    and "p1" in sc[k - 1]["st"]["peers"] and "p1" not in ln["st"]["peers"]:
                inc("refuse:newstream")
            if alive and a.get("x") == "respawn" and "p1" not in ln["st"]["peers"] and any(
                    ev["k"] == "Down" and ev["p"] == "p1" for ev in sc[k - 1]["ev"] + ln["ev"]):
                inc("refuse:respawn")
            if not alive and ln["c16"]["blc"]["p1"] is False:
                inc("expired")
            if not alive and any(ev["k"] == "Deliver" and ev.get("via") == "p1" for ev in ln["ev"]):
                inc("expired:delivers-again")
        # the writer holds one popped RPC in a blocked Write and more are queued: at most that one may still appear
        # (it usually does not: Stream.Close makes handlePeerDead's Read fail, whose Reset discards unacknowledged data)
        if pos == "gated" and how == "api" and before["st"]["peers"].get("p1", {}).get("q", 0) >= 1 and wrote_after <= 1:
            inc("gated:queued-rpcs-dropped")
            inc("gated:frames-after=%d" % wrote_after)
        if how == "api" and sc[bl_line]["c16"]["capq"] == "closed" and before["c16"]["capq"] != "closed":
            inc("api:queue-closed")
    return hit


NEED = ["impl:map", "impl:timed", "how:api", "how:direct", "pos:never", "pos:pending", "pos:repending", "pos:conn", "pos:mesh",
        "pos:fanout", "pos:down", "stage:valQ", "stage:worker", "stage:async", "stage:sendQ", "stage:arrived",
        "inflight-by:origin", "inflight-by:author", "inflight-how:api", "inflight-how:direct",
        "reject:peer", "reject:peer-foreign-author", "reject:source", "reject:peer-directpath", "reject:source-directpath",
        "reconnect:first", "reconnect:again", "reconnect:skipped", "refuse:newstream", "refuse:respawn",
        "gated:queued-rpcs-dropped", "api:queue-closed", "expired",
        "both:timed:add-returned-false", "both:map:add-returned-true", "both:timed:mesh", "both:timed:fanout", "both:timed:conn",
        "both:map:mesh", "both:map:fanout", "both:map:conn",
        "pendmesh:api", "pendmesh:both", "pendmesh:direct", "pendmesh:left-mesh-at-BlacklistPeer",
        "backlog:mesh", "backlog:mesh-urgent", "backlog:topic", "backlog:flood", "backlog:directpeer", "backlog:fanout"]


def run(ctx):
    # 1. model level
    states, transitions, mc = model_check(ctx)
    ctx.log("model checking done: %s" % {k: v for k, v in mc.items() if isinstance(v, list)})

    # 2. situations from TLC
    g = vlib.run_tlc(ctx, FAMILY, "GenBlacklist", "GenBlacklist.cfg", timeout=900, name="gen", workers=4)
    vlib.require_mc_ok(ctx, g, "GenBlacklist")
    states += g.distinct
    transitions += g.generated
    sits = {json.dumps(s, sort_keys=True): s for s in g.printed("SCN")}.values()
    if not sits:
        raise vlib.Inconclusive("generator emitted nothing")
    scns, dropped = plan_scenarios(ctx, list(sits))
    scn_file = os.path.join(ctx.work, "scenarios.ndjson")
    vlib.write_ndjson(scn_file, scns)
    ctx.log("generated %d situations -> %d scenarios (dropped: %s)" % (len(sits), len(scns), dropped))

    # 3. replay on the real node
    outp = os.path.join(ctx.work, "c16.ndjson")
    markf = os.path.join(ctx.work, "marker")
    r = vlib.run_go(ctx, "./drivers/c16/", "^TestC16Replay$", env={"VERIF_IN": scn_file, "VERIF_OUT": outp, "VERIF_MARKER": markf},
                    timeout=1500)
    if r["rc"] != 0:
        idx = open(markf).read().strip() if os.path.exists(markf) else "?"
        again = None
        if idx.isdigit():
            again = vlib.run_go(ctx, "./drivers/c16/", "^TestC16Replay$", name="single",
                                env={"VERIF_IN": scn_file, "VERIF_OUT": outp + ".single", "VERIF_ONLY": idx}, timeout=300)
        if again and again["rc"] != 0 and "panic:" in again["out"] and "go-libp2p-pubsub" in again["out"].split("panic:", 1)[1][:4000] \
                and "verifharness" not in again["out"].split("panic:", 1)[1][:600]:
            vlib.add_violation(ctx, "P_C16_NoPanic", {"kind": "panic", "scenario": scns[int(idx)]},
                               "the library panicked while replaying scenario %s: %s" % (idx, again["out"].split("panic:", 1)[1][:300]),
                               {"scenario": scns[int(idx)]})
            return vlib.finish(ctx, LEVEL, {"states": states, "transitions": transitions, "traces_validated_against_impl": 0,
                                            "samples": [{"scenario": scns[int(idx)]}], "mc": mc}, [])
        raise vlib.Inconclusive("driver failed at scenario %s (rc=%s, see %s)" % (idx, r["rc"], r["log"]))
    if not os.path.exists(outp) or os.path.getsize(outp) == 0:
        raise vlib.Inconclusive("driver produced no trace (see %s)" % r["log"])
    lines = vlib.read_ndjson(outp)
    scns_lines, cur = [], None
    for ln in lines:
        if ln["act"]["a"] == "reset":
            cur = [ln]
            scns_lines.append(cur)
        elif cur is not None:
            cur.append(ln)
    if len(scns_lines) != len(scns):
        raise vlib.Inconclusive("driver replayed %d of %d scenarios" % (len(scns_lines), len(scns)))
    ctx.log("replayed %d scenarios, %d step lines (%.0fs)" % (len(scns_lines), len(lines), r["wall"]))

    # 4. TLC judges the lines
    viols, evals, tstates = validate(ctx, scns_lines)
    states += tstates
    nontrivial = set()
    for v in viols:
        sc = scns_lines[v["scn"]]
        # the signature names WHAT failed and in which situation class; how/by/impl/path are in the detail and the replay
        sig = {k: v[k] for k in ("kind", "clause", "inflight", "stage", "pos", "hadq")}
        what = {"P_C16_NoInject": "message %s (forwarder/author %s blacklisted, %s) was %s after the blacklisting" %
                                  (v["m"], v["p"], v["clause"], {"deliver": "delivered", "subscriber": "handed to a subscriber",
                                                                 "forward": "forwarded", "wire": "written to a third party"}.get(v["kind"], v["kind"])),
                "P_C16_Refuse": "stream to blacklisted %s: %s" % (v["p"], v["kind"]),
                "P_C16_Api": "after BlacklistPeer(%s): %s / %s" % (v["p"], v["kind"], v["clause"]),
                "P_C16_Contains": "Contains(%s) is false after Add" % v["p"]}.get(v["pred"], v["pred"])
        vlib.add_violation(ctx, v["pred"], sig, "%s [scenario %d %s line %d; in flight at the blacklisting: %s]" %
                           (what, v["scn"], json.dumps(sc[0]["act"]["cfg"], sort_keys=True), v["line"], v["inflight"]),
                           {"scenario": scns[v["scn"]], "failing_line": v["line"], "trace": [compact(ln) for ln in sc[1:]]})

    # 5. coverage obligations
    hit = coverage(scns_lines)
    for sc in scns_lines:
        cfg = sc[0]["act"]["cfg"]
        if any(ln.get("c16", {}).get("bl") for ln in sc[1:]):
            nontrivial.add(json.dumps({k: cfg[k] for k in ("pos", "how", "by", "stage", "impl", "path", "bk", "mem")}, sort_keys=True))
    missing = [n for n in NEED if not hit.get(n)]
    known = vlib.load_findings(ctx.pid)
    fresh = [v for v in ctx.violations if not any(vlib.sig_matches(f, v) for f in known)]
    if missing and not fresh:
        raise vlib.Inconclusive("coverage obligation not met: never observed: %s" % missing)
    samples = []
    for want in (("mesh", "api", "async"), ("pending", "direct", "none"), ("never", "api", "none")):
        for k, sc in enumerate(scns_lines):
            cfg = sc[0]["act"]["cfg"]
            if (cfg["pos"], cfg["how"], cfg["stage"]) == want:
                samples.append({"scenario": scns[k], "trace": [compact(ln) for ln in sc[1:]][-18:]})
                break
    cov = {"states": states, "transitions": transitions, "traces_validated_against_impl": len(scns_lines),
           "samples": samples, "evaluations": evals, "distinct_nontrivial": len(nontrivial),
           "rule": "scenario = one situation emitted by GenBlacklist (position x how x by x stage at the instant of the blacklisting) x blacklist "
                   "implementation x publish path, replayed on a real node; non-trivial = the blacklisting took place and at least one predicate "
                   "instance was evaluated against it; distinct by (pos, how, by, stage, impl, path, backlog kind); evaluations = predicate instances TLC "
                   "evaluated on lines with a non-empty blacklist (Deliver/Send/Up events, subscriber deliveries, api and refuse clauses)",
           "exhaustive": bool(ctx.thorough), "situations": len(sits), "scenarios": len(scns), "not_driven": dropped,
           "obligations": hit, "mc": mc, "step_lines": len(lines)}
    return vlib.finish(ctx, LEVEL, cov, [
        "the blacklisting instant is the Add call on the configured Blacklist (a recording proxy around the real NewMapBlacklist / "
        "NewTimeCachedBlacklist stamps it with the tracer's sequence number); tracer callbacks for Deliver/Send/Up run on the event loop",
        "forwarded = the forwarding decision of publishMessage (Send events / frames); retransmission of a message accepted BEFORE the "
        "blacklisting out of the message cache (IWANT) is not examined",
        "a time-cached entry binds for its expiry time; between expiry and the next sweep Contains may still be true and nothing is demanded",
        "unsigned messages without validators are published inside the loop iteration that ran shouldPush; that iteration is one instant",
        "'peer lists for any topic' = ListPeers; topic state of the event loop (p.topics) is additionally required to be cleared when the peer had a queue",
        "api+sendQ depends on the order Go's select picks two ready channels: both outcomes are judged, the obligation is met through direct+sendQ"])
