"""C13 - all state attributable to a peer is reclaimed after it disconnects.

spec/peerlife: PeerLife.tla (lifecycle generator + per-peer-key MAY model of the node, intended behaviour with the
four as-found deviations D5/D6/D7/D14 as constants), PeerLifeTrace.tla (trace specification).
harness/drivers/c13: replays every lifecycle on a real node and records, after every step, which per-peer container
still mentions which peer and which pubsub:<topic> protections the real BasicConnMgr holds.

  1. MC   exhaustive: P_C13 / P_C13_Immediate hold for every lifecycle up to the bound (all routers, all protocol
          versions, both score classes); each deviation switched on must violate P_C13 (non-vacuity).
  2. Gen  TLC emits every lifecycle up to a length (BFS) and random two-peer walks (-simulate).
  3. Go   replay against the real node (gossipsub / floodsub / randomsub), shards in parallel.
  4. TV   TLC runs PeerLifeTrace over the recorded lines and prints every failing predicate.
"""
import concurrent.futures as cf
import json, os, random, re, subprocess, time
from .. import vlib

LEVEL = "model_checking"
FAMILY = "peerlife"

PROTOS_GS = ["v11", "v13", "v10", "v12", "flood"]
SCORES = [0, 3, -1]
DIRS = ["in", "out"]
ALL_PROTOS = '{"flood", "random", "v10", "v11", "v12", "v13"}'
DEVS = ["DevD5", "DevD6", "DevD7", "DevD14"]

# containers that a run must have seen populated for a lifecycle peer (otherwise the cleanup code was not exercised)
MUST_POPULATE = ["pubsub.peers", "pubsub.topics", "pubsub.inboundStreams", "pubsub.deadPeerBackoff", "gs.peers", "gs.mesh",
                 "gs.fanout", "gs.control", "gs.peerhave", "gs.iasked", "gs.peerdontwant", "gs.unwanted", "gs.outbound", "gs.backoff",
                 "gs.mcache.peertx", "gs.extensions.peerExtensions", "gs.extensions.sentExtensions", "score.peerStats",
                 "score.peerIPs", "gater.peerStats", "gossipTracer.promises", "gossipTracer.peerPromises", "connmgr.protect",
                 "randomsub.peers"]


MUST_CLEAR = ["pubsub.peers", "pubsub.topics", "pubsub.inboundStreams", "gs.peers", "gs.mesh", "gs.fanout", "gs.control", "gs.unwanted", "gs.outbound",
              "gs.extensions.peerExtensions", "gs.extensions.sentExtensions", "score.peerStats", "score.peerIPs", "gater.peerStats",
              "randomsub.peers"]
MUST_EXPIRE = ["gs.backoff", "gs.peerhave", "gs.iasked", "gs.peerdontwant", "gs.unwanted", "gs.mcache.peertx", "score.peerStats",
               "score.peerIPs", "gossipTracer.promises", "gossipTracer.peerPromises", "pubsub.deadPeerBackoff"]


def consts(peers, maxlen, protos='{"flood", "v10", "v11", "v12", "v13"}', routers='{"gossipsub", "floodsub", "randomsub"}', dev=None):
    c = {"Peers": peers, "Protos": protos, "Routers": routers, "MaxLen": maxlen}
    for d in DEVS + ["DevGiveUp", "DevRefusedGraft"]:
        c[d] = (d == dev)
    return c


# ------------------------------------------------------------------------------------------------ features of a lifecycle
def features(evs):
    """Coverage features of a lifecycle (used only to stratify the sample; the obligations themselves are
    established on the recorded lines)."""
    st, feats, pubd = {}, set(), False
    for ev in evs:
        e, p, k = ev["e"], ev["p"], ev["k"]
        if not p:
            if e == "NodePub":
                pubd = True
                for s in st.values():
                    if s["out"] == "up" and "t2" in s["subs"]:
                        s["fan"] = True
            if e == "Wait":
                for s in st.values():
                    s["slow"] = False
            continue
        s = st.setdefault(p, dict(conn=False, out="none", inb=False, wasup=False, subs=set(), mesh=False, unw=False,
                                  fan=False, slow=False, conns=0, prom=False, ctl=False))

        def outdown():
            if s["ctl"]:
                feats.add("controlDown")
            s["ctl"] = False
            if s["mesh"]:
                feats.add("meshDown")
            if s["unw"]:
                feats.add("unwDown")
            if s["fan"]:
                feats.add("fanoutDown")
            if s["subs"]:
                feats.add("topicsOutDown")
            s["mesh"] = s["unw"] = s["fan"] = False
            s["subs"] = set()

        if e == "ConnUp":
            s["conn"], s["out"] = True, "pend"
            s["conns"] += 1
            if s["conns"] > 1:
                feats.add("reconnect")
        elif e == "OutUp":
            s["out"], s["wasup"] = "up", True
        elif e == "OutFail":
            s["out"] = "failed"
            feats.add("outFail")
        elif e == "OutReset":
            outdown()
            s["deaths"] = s.get("deaths", 0) + 1
            if s["deaths"] >= 5:            # backoff.go MaxBackoffAttempts = 4: the 5th death is not respawned
                s["out"] = "none"
                s["gaveup"] = True
                feats.add("giveUp")
            else:
                s["out"] = "pend"
            feats.add("outReset")
            if s["inb"]:
                feats.add("outFirst")
        elif e == "InUp":
            s["inb"] = True
        elif e == "InDup":
            feats.add("dup")
            s["subs"] = set()
        elif e in ("InReset", "InEOF"):
            if s["out"] == "up":
                feats.add("inFirst")
            if s["subs"]:
                feats.add("topicsInDown")
            s["inb"] = False
            s["subs"] = set()
            feats.add(e)
        elif e == "Blacklist":
            if s["out"] == "up":
                feats.add("blMid")
                outdown()
            s["out"] = "none"
            feats.add("bl")
        elif e == "ConnDown":
            if s["out"] == "up":
                outdown()
            if s["slow"]:
                feats.add("late")
            if s.get("gaveup"):
                feats.add("giveUpThenDown")
            s.update(conn=False, out="none", inb=False)
            s["subs"] = set()
        elif e == "Send":
            feats.add("send:" + k)
            if s["out"] != "up":
                feats.add("sendNoOut" if s["wasup"] else "sendNeverOut")
                if k == "graft":
                    feats.add("graftNoOut")
                    if s.get("bo"):
                        feats.add("refusedGraftNoQueue")      # answered with a PRUNE that has no queue to go to
                if k == "pgflood" and s["out"] not in ("pend", "up"):
                    feats.add("pgfloodNoQueue")
                if s.get("gaveup"):
                    feats.add("sendAfterGiveUp")
            if k == "sub1":
                s["subs"].add("t1")
            elif k == "sub2":
                s["subs"].add("t2")
            elif k == "unsub1":
                s["subs"].discard("t1")
            elif k == "graft" and s["out"] == "up":
                s["mesh"] = True
                feats.add("graftUp")
                if s.get("bo"):
                    feats.add("graftUpBackoff")
            elif k == "graftx" and s["out"] == "up":
                feats.add("graftxUp")
            elif k in ("prune", "prunepx"):
                s["mesh"] = False
                s["bo"] = True
            elif k == "pgflood":
                s["bo"] = True
                s["mesh"] = False
                s["ctl"] = s["out"] == "up"
            elif k == "idontwant" and s["out"] == "up":
                s["unw"] = True
            elif k == "pubslow":
                s["slow"] = True
    if len(st) > 1:
        feats.add("twoPeers")
    return feats


STRATA = ["graftUp", "graftUpBackoff", "graftxUp", "giveUpThenDown", "sendAfterGiveUp", "refusedGraftNoQueue", "pgfloodNoQueue", "meshDown", "unwDown", "fanoutDown", "controlDown", "topicsOutDown", "topicsInDown", "outFirst", "inFirst", "sendNoOut",
          "sendNeverOut", "graftNoOut", "dup", "blMid", "late", "outFail", "outReset", "reconnect", "send:ihave",
          "send:iwant", "send:prune", "send:prunepx", "send:ext", "send:pubi", "send:pubv", "send:idontwant"]


def stratified(pool, n, per_stratum, rng):
    """Seeded sample of n lifecycles from pool with at least per_stratum members of every stratum present in the pool."""
    if len(pool) <= n:
        return list(pool)
    idx = list(range(len(pool)))
    rng.shuffle(idx)
    chosen, need = [], {s: per_stratum for s in STRATA}
    taken = set()
    feats = {}
    for i in idx:
        f = feats[i] = features(pool[i])
        hit = [s for s in f if need.get(s, 0) > 0]
        if hit:
            chosen.append(i)
            taken.add(i)
            for s in f:
                if s in need:
                    need[s] -= 1
        if all(v <= 0 for v in need.values()):
            break
    for i in idx:
        if len(chosen) >= n:
            break
        if i not in taken:
            chosen.append(i)
            taken.add(i)
    return [pool[i] for i in chosen[:max(n, len(chosen))]]


# ------------------------------------------------------------------------------------------------ the parts
def tlc_jobs(ctx, acc):
    """Model checking and scenario generation: independent TLC runs, a few at a time.
    Returns (by_len: {n: [evs]}, walks: [evs])."""
    inv = ["TypeOK", "P_C13", "P_C13_Immediate"]
    L1 = 8 if ctx.thorough else 7
    L2 = 6 if ctx.thorough else 5
    LG = 7 if ctx.thorough else 6
    depth = 30 if ctx.thorough else 14
    num = 3000 if ctx.thorough else 400
    gs_only = dict(protos='{"v11"}', routers='{"gossipsub"}')
    jobs = {
        "mc1": dict(cfg=vlib.cfg_text(constants=consts('{"p1"}', L1), invariants=inv, view="MCView"), timeout=1200, workers=4),
        "mc2": dict(cfg=vlib.cfg_text(constants=consts('{"p1", "p2"}', L2, protos='{"v11", "v13"}', routers='{"gossipsub"}'), invariants=inv, view="MCView"),
                    timeout=1500, workers=4),
        "gen-bfs": dict(cfg=vlib.cfg_text(spec="GenSpec", constants=consts('{"p1"}', LG, **gs_only), invariants=["Emit"]), timeout=1500, workers=4, heap="8g"),
        "gen-walks": dict(cfg=vlib.cfg_text(spec="GenSpec", constants=consts('{"p1", "p2"}', depth, **gs_only), invariants=["Emit"]),
                          mode="sim", simulate="num=%d" % num, depth=depth + 2, timeout=900, workers=1),
    }
    for d in DEVS:   # non-vacuity: every as-found deviation, switched on, must break the invariant
        jobs["mc-" + d] = dict(cfg=vlib.cfg_text(constants=consts('{"p1"}', 6, dev=d), invariants=["P_C13"], view="MCView"), timeout=600, workers=2)
    # the respawn budget of the dead-peer backoff (5 deaths of the outbound stream on a live connection = 12 events): the
    # machine SpecR over a small alphabet; intended give-up holds, the seeded variant "queue stored before the give-up" must fail
    LR = 14
    jobs["mc-respawn"] = dict(cfg=vlib.cfg_text(spec="SpecR", constants=consts('{"p1"}', LR, protos='{"v11", "v13"}', routers='{"gossipsub", "floodsub"}'),
                                                invariants=inv, view="MCView"), timeout=600, workers=2)
    jobs["mc-DevGiveUp"] = dict(cfg=vlib.cfg_text(spec="SpecR", constants=consts('{"p1"}', LR, protos='{"v11"}', routers='{"gossipsub"}', dev="DevGiveUp"),
                                                  invariants=["P_C13"], view="MCView"), timeout=600, workers=2)
    jobs["mc-DevRefusedGraft"] = dict(cfg=vlib.cfg_text(constants=consts('{"p1"}', 6, protos='{"v11"}', routers='{"gossipsub"}', dev="DevRefusedGraft"),
                                                        invariants=["P_C13"], view="MCView"), timeout=600, workers=2)
    jobs["gen-respawn"] = dict(cfg=vlib.cfg_text(spec="GenSpecR", constants=consts('{"p1"}', LR, **gs_only), invariants=["Emit"]), timeout=600, workers=2)
    if os.environ.get("C13_DEV_SKIP_MC"):      # development aid only (seeded-change trials)
        jobs = {k: v for k, v in jobs.items() if k.startswith("gen-")}

    def one(name):
        j = dict(jobs[name])
        return name, vlib.run_tlc(ctx, FAMILY, "PeerLife", j.pop("cfg"), name=name, **j)

    with cf.ThreadPoolExecutor(max_workers=4) as ex:
        res = dict(ex.map(one, sorted(jobs, key=lambda n: (not n.startswith("gen-bfs"), not n.startswith("mc1"), n))))

    if "mc1" in res:
        vlib.require_mc_ok(ctx, res["mc1"], "PeerLife (1 peer, <= %d events, deviations off)" % L1)
        vlib.require_mc_ok(ctx, res["mc2"], "PeerLife (2 peers, <= %d events)" % L2, allow_timeout=ctx.thorough)
        acc["mc"]["1peer_len%d" % L1] = [res["mc1"].distinct, res["mc1"].generated]
        acc["mc"]["2peers_len%d" % L2] = [res["mc2"].distinct, res["mc2"].generated]
        for d in DEVS + ["DevGiveUp", "DevRefusedGraft"]:
            vlib.require_mc_fails(ctx, res["mc-" + d], "PeerLife with %s" % d, "P_C13")
            acc["mc"][d + "_fails_P_C13"] = True
        vlib.require_mc_ok(ctx, res["mc-respawn"], "PeerLife SpecR (respawn budget, <= %d events)" % LR)
        acc["mc"]["respawn_len%d" % LR] = [res["mc-respawn"].distinct, res["mc-respawn"].generated]
    g, w, gr = res["gen-bfs"], res["gen-walks"], res["gen-respawn"]
    vlib.require_mc_ok(ctx, g, "GenSpec BFS <= %d" % LG)
    vlib.require_mc_ok(ctx, gr, "GenSpecR BFS <= %d" % LR)
    if w.timed_out or w.violated or w.errors:
        raise vlib.Inconclusive("GenSpec -simulate failed: %s (see %s/tlc.out)" % (w.errors[:2], w.dir))
    for r in res.values():
        acc["states"] += r.distinct
        acc["transitions"] += r.generated
    by_len = {}
    for s in g.printed("SCN"):
        by_len.setdefault(len(s["evs"]), []).append(s["evs"])
    if not by_len:
        raise vlib.Inconclusive("generator emitted nothing")
    for n in by_len:      # TLC's print order depends on its worker threads: make the pool (and so the seeded sample) reproducible
        by_len[n].sort(key=lambda evs: json.dumps(evs, sort_keys=True))
    seen, walks = set(), []
    for s in w.printed("SCN"):
        k = json.dumps(s["evs"], sort_keys=True)
        if k not in seen and len({e["p"] for e in s["evs"] if e["p"]}) == 2:
            seen.add(k)
            walks.append(s["evs"])
    walks.sort(key=lambda evs: json.dumps(evs, sort_keys=True))
    respawn = sorted((x["evs"] for x in gr.printed("SCN") if sum(1 for e in x["evs"] if e["e"] == "OutReset") >= 3),
                     key=lambda evs: json.dumps(evs, sort_keys=True))
    acc["gen"] = {"bfs_max_len": LG, "by_len": {str(k): len(v) for k, v in sorted(by_len.items())}, "two_peer_walks": len(walks),
                  "respawn_lifecycles": len(respawn), "respawn_gave_up": sum(1 for evs in respawn if "giveUp" in features(evs))}
    return by_len, walks, respawn


def build_scenarios(ctx, by_len, walks, respawn, acc):
    rng = random.Random(ctx.seed)
    short = [e for n in sorted(by_len) if n <= 5 for e in by_len[n]]
    scns = []

    def add(evs, router="gossipsub", combo=None, proto=None, full=False, direct=False, score=None, dir_=None):
        i = len(scns) + ctx.seed if combo is None else combo
        peers = {}
        for j, p in enumerate(sorted({e["p"] for e in evs if e["p"]})):
            x = i + 7 * j
            pr = proto or PROTOS_GS[x % 5]
            if router == "floodsub":
                pr = "flood"
            elif router == "randomsub":
                pr = ["random", "flood"][x % 2]
            peers[p] = {"proto": pr, "score": SCORES[(x // 5) % 3] if score is None else score, "dir": dir_ or DIRS[(x // 15) % 2],
                        "direct": direct and router == "gossipsub"}
        scns.append({"id": len(scns), "router": router, "by": (i // 30) % 2 == 0 and router == "gossipsub", "full": full and router == "gossipsub",
                     "peers": peers, "evs": evs})

    if ctx.thorough:
        for k, evs in enumerate(short):                    # every lifecycle <= 5 events with every protocol version
            for pi, pr in enumerate(PROTOS_GS):
                add(evs, combo=k * 5 + pi + ctx.seed, proto=pr)
        for evs in by_len.get(6, []):                      # every lifecycle of 6 events
            add(evs)
        for evs in stratified(by_len.get(7, []), 6000, 60, rng):
            add(evs)
        nw, nr = 1200, 500
        exhaustive_upto = 6
    else:
        for k, evs in enumerate(short):                    # every lifecycle <= 5 events, two parameter combinations
            add(evs, combo=k + ctx.seed)
            add(evs, combo=k + ctx.seed + 8)
        for evs in stratified(by_len.get(6, []), 1200, 25, rng):
            add(evs)
        nw, nr = 150, 150
        exhaustive_upto = 5
    rng.shuffle(walks)
    for evs in walks[:nw]:
        add(evs)
    # GRAFT outcomes by refusal branch: lifecycles with a GRAFT received while the node has its outbound stream, replayed so that the
    # GRAFT is refused because (a) the mesh is full and the peer dialled us (bootstrapper-style node, Dhi = 0), (b) the peer is a direct
    # peer, (c) its score is negative; (d) admitted by the same full node from a peer the node dialled.  (Refused for backoff = PRUNE then
    # GRAFT, refused for unknown topic = graftx, are ordinary lifecycles of the pool.)
    gpool = [evs for evs in short + by_len.get(6, []) if features(evs) & {"graftUp", "graftxUp"}]
    ng = 60 if ctx.thorough else 14
    for variant in ("full-in", "direct", "negative", "full-out"):
        for k, evs in enumerate(stratified(gpool, ng, 2, rng)):
            pr = ["v11", "v13", "v12", "v10"][k % 4]
            if variant == "full-in":
                add(evs, combo=k + ctx.seed, proto=pr, full=True, dir_="in", score=[0, 3][k % 2])
            elif variant == "full-out":
                add(evs, combo=k + ctx.seed, proto=pr, full=True, dir_="out", score=[0, 3][k % 2])
            elif variant == "direct":
                add(evs, combo=k + ctx.seed, proto=pr, direct=True, score=[0, 3][k % 2])
            else:
                add(evs, combo=k + ctx.seed, proto=pr, score=-1)
    # respawn budget: every lifecycle in which the dead-peer backoff gives the still-connected peer up (thorough; a seeded
    # sample in quick) and a sample of those that stay within the budget
    gave = [evs for evs in respawn if "giveUp" in features(evs)]
    rest = [evs for evs in respawn if "giveUp" not in features(evs)]
    for k, evs in enumerate(gave if ctx.thorough else stratified(gave, 24, 6, rng)):
        add(evs, combo=k + ctx.seed, proto=["v11", "v13", "v12", "flood", "v10"][k % 5])
    for evs in stratified(rest, 200 if ctx.thorough else 30, 3, rng):
        add(evs)
    # strata with few distinct lifecycles at these lengths (e.g. fanout populated at disconnect): replay their members
    # with several parameter combinations so that the obligation does not hinge on one sampled protocol / score
    want = 12
    members = {}
    for s in scns:
        for f in features(s["evs"]):
            if f in STRATA:
                members.setdefault(f, []).append(s["evs"])
    for f in STRATA:
        ms = members.get(f, [])
        uniq = list({json.dumps(m, sort_keys=True): m for m in ms}.values())
        k = 0
        while uniq and len(ms) + k < want:
            add(uniq[k % len(uniq)], combo=[0, 1, 3, 2, 5, 6, 8, 7][k % 8] + 15 * (k % 2), proto=["v11", "v13", "v12", "v10"][k % 4])
            k += 1
    for router in ("floodsub", "randomsub"):
        for evs in stratified(short, nr, 4, rng):
            add(evs, router=router)
        for evs in gave[:4]:
            add(evs, router=router)
    acc["exhaustive_upto"] = exhaustive_upto
    return scns


def build_driver(ctx):
    binp = os.path.join(ctx.work, "c13.test")
    r = vlib.run_go(ctx, "./drivers/c13/", "^TestC13Replay$", extra=["-c", "-o", binp], timeout=900, name="build")
    if r["rc"] != 0 or not os.path.exists(binp):
        raise vlib.Inconclusive("cannot build the C13 driver (see %s)" % r["log"])
    return binp


def run_shard(ctx, binp, scn_file, i, n, only=None, after=None, skip=None, tag=""):
    outp = os.path.join(ctx.work, "trace-%d%s.ndjson" % (i, tag))
    mark = os.path.join(ctx.work, "marker-%d%s" % (i, tag))
    env = dict(os.environ)
    env.update({"VERIF_IN": scn_file, "VERIF_OUT": outp, "VERIF_SHARD": str(i), "VERIF_SHARDS": str(n), "VERIF_MARKER": mark,
                "VERIF_SEED": str(ctx.seed), "VERIF_TIER": ctx.tier})
    if only is not None:
        env["VERIF_ONLY"] = str(only)
    if after is not None:
        env["VERIF_AFTER"] = str(after)
    if skip is not None:
        env["VERIF_SKIP"] = str(skip)
    # the driver rewrites its marker at the start of every lifecycle (~25 ms each): a marker that stops changing means the
    # test process is wedged (seen twice in ~600 000 replays, with even the Go runtime's timers dead); it is killed and
    # handled like any other death (attributed, replayed alone, shard resumed)
    log = os.path.join(ctx.work, "go-shard-%d%s.log" % (i, tag))
    stall = int(os.environ.get("VERIF_C13_STALL", "240"))
    with open(log, "w") as lf:
        p = subprocess.Popen([binp, "-test.run", "^TestC13Replay$", "-test.timeout", "3000s"], cwd=ctx.work, env=env,
                             stdout=lf, stderr=subprocess.STDOUT)
        t0 = last_change = time.time()
        seen = None
        while p.poll() is None:
            time.sleep(1)
            try:
                m = os.stat(mark).st_mtime_ns
            except OSError:
                m = None
            now = time.time()
            if m != seen:
                seen, last_change = m, now
            if now - last_change > stall or now - t0 > 3100:
                p.kill()
                p.wait()
                lf.write("\nc13.py: killed the driver: no progress for %ds (marker %s)\n" % (int(now - last_change), mark))
                break
    out = open(log, errors="replace").read()
    return {"rc": p.returncode, "out": out, "trace": outp, "marker": mark, "log": log}


def replay(ctx, binp, scns):
    """Runs the driver shards; returns (paths of the recorded traces - the lines stay on disk -, scenarios the driver died in).
    A shard that dies (a test-process panic) is attributed to its scenario by the marker; if the scenario, run alone, panics in
    library code that is a violation; in any case the shard is resumed behind it so that the other lifecycles are still judged."""
    scn_file = os.path.join(ctx.work, "scenarios.ndjson")
    vlib.write_ndjson(scn_file, scns)
    n = max(1, min(vlib.NCPU, 8, len(scns) // 50 + 1))

    def shard(i):
        paths, dead, resume_from, flaky = [], [], [-1], []
        r = run_shard(ctx, binp, scn_file, i, n)
        k = 0
        while True:
            if os.path.exists(r["trace"]):
                paths.append(r["trace"])
            if r["rc"] == 0:
                break
            sid = open(r["marker"]).read().strip() if os.path.exists(r["marker"]) else "?"
            if sid == "?" or k >= 12:
                raise vlib.Inconclusive("C13 driver shard %d keeps dying (see %s)" % (i, r["log"]))
            k += 1
            again = run_shard(ctx, binp, scn_file, i, n, only=sid, tag="-only%d" % k)
            lib_panic = again["rc"] != 0 and "panic:" in again["out"] and "go-libp2p-pubsub" in again["out"] \
                and "verifharness" not in again["out"].split("panic:")[1][:400]
            if again["rc"] == 0 and last_complete(again["trace"]) == int(sid):
                # it does not reproduce alone: keep the complete recording of the lone run, mention the death
                paths.append(again["trace"])
                flaky.append((int(sid), r["log"]))
            else:
                dead.append((int(sid), lib_panic, again["log"] if lib_panic else r["log"]))
            # resume behind the last lifecycle this shard recorded completely (the output is buffered: lifecycles that
            # ran before the death may be missing from the file), leaving out the one it died in
            last = last_complete(r["trace"])
            if last is None and not paths:
                last = -1
            elif last is None:
                last = resume_from[-1]
            resume_from.append(last)
            r = run_shard(ctx, binp, scn_file, i, n, after=(last if last >= 0 else None), skip=sid, tag="-r%d" % k)
        return paths, dead, flaky

    with cf.ThreadPoolExecutor(max_workers=n) as ex:
        res = list(ex.map(shard, range(n)))
    paths = [p for ps, _, _ in res for p in ps]
    dead = [d for _, ds, _ in res for d in ds]
    for sid, log in [f for _, _, fs in res for f in fs]:
        ctx.notes.append("the driver died once in lifecycle %d (see %s); replayed alone it completed and was judged" % (sid, log))
    for sid, lib_panic, log in dead:
        if lib_panic:
            scn = next((s for s in scns if s["id"] == sid), None)
            vlib.add_violation(ctx, "P_C13_NoCrash", {"c": "panic", "cond": "none"},
                               "the node panics while replaying lifecycle %s (see %s)" % (sid, log), {"scenario": scn})
    return paths, dead


def last_complete(path):
    """Id of the last lifecycle whose final line is in a (possibly cut short) trace file."""
    last = None
    if os.path.exists(path):
        with open(path, "rb") as f:
            for raw in f:
                if b'"fin":true' in raw and raw.endswith(b"}\n"):
                    m = re.search(rb'"scn":(\d+)', raw)
                    if m:
                        last = int(m.group(1))
    return last


VERDICTS = ("Deliver", "Reject", "Duplicate")


def compact(line):
    """What the orchestrator keeps of a recorded line while it works on one lifecycle (snapshots, frames and
    tracer events stay on disk: a thorough run records > 1 GB)."""
    ev = line.get("ev") or []
    out = {"scn": line["scn"], "i": line["i"], "act": line["act"], "hb": line.get("hb", 0),
           "verdict_via": sorted({e.get("via") for e in ev if e.get("k") in VERDICTS and e.get("via")}),
           "recv_from": sorted({e.get("p") for e in ev if e.get("k") == "Recv" and e.get("p")})}
    for k in ("keys", "keysFull", "prot", "connected"):
        out[k] = {p: v for p, v in (line.get(k) or {}).items() if p in ("p1", "p2")}
    return out


def slim(row):
    """The projection of a line that PeerLifeTrace reads."""
    a = row["act"]
    if a.get("a") == "reset":
        cfg = a["cfg"]
        peers = {p: {"proto": "v11", "pos": False, "refuse": False, "neg": False} for p in ("p1", "p2")}
        gs = cfg.get("router", "gossipsub") == "gossipsub"
        for p, pc in cfg.get("peers", {}).items():
            peers[p] = {"proto": pc["proto"], "pos": pc["score"] > 0,
                        "refuse": gs and bool(pc.get("direct") or (cfg.get("full") and pc["dir"] == "in")), "neg": gs and pc["score"] < 0}
        return {"a": "reset", "scn": row["scn"], "i": 0, "router": cfg.get("router", "gossipsub"), "peers": peers}
    lab = a.get("c13") or {}
    out = {"a": a.get("a", ""), "scn": row["scn"], "i": row["i"], "e": lab.get("e", ""), "p": lab.get("p", ""), "k": lab.get("k", ""),
           "hb": row.get("hb", 0), "fin": bool(a.get("fin", False)), "keys": {}, "prot": {}, "conn": {}}
    for p in ("p1", "p2"):
        out["keys"][p] = (row.get("keys") or {}).get(p, [])
        out["prot"][p] = (row.get("prot") or {}).get(p, [])
        out["conn"][p] = bool((row.get("connected") or {}).get(p, False))
    return out


class Obligations:
    """Coverage obligations of DESIGN C13, established on what the real node did."""
    CLOSING = ("ConnDown", "OutReset", "Blacklist", "InReset", "InEOF", "InDup")

    def __init__(self):
        self.ob = {k: 0 for k in ["out_dies_first", "in_dies_first", "rpc_on_inbound_outliving_outbound", "rpc_without_outbound_ever",
                                  "duplicate_inbound", "blacklist_midlife", "score_retained", "score_forgotten", "late_validation",
                                  "newstream_failed", "reconnect", "respawn_after_reset", "respawn_gave_up_then_disconnected",
                                  "refused_graft_without_queue", "graft_refused_mesh_full_inbound_peer_then_disconnected",
                                  "graft_refused_direct_peer_then_disconnected", "graft_refused_negative_score_then_disconnected",
                                  "graft_refused_backoff_then_disconnected", "graft_unknown_topic_then_disconnected",
                                  "graft_admitted_full_mesh_outbound_peer"]}
        self.protos, self.populated, self.cleared, self.expired = {}, {}, {}, {}

    def update(self, scn, rows):
        ob, protos, populated, cleared, expired = self.ob, self.protos, self.populated, self.cleared, self.expired
        gs = scn["router"] == "gossipsub"
        prev = {p: set() for p in scn["peers"]}
        wasup = {p: False for p in scn["peers"]}
        conns = {p: 0 for p in scn["peers"]}
        deaths = {p: 0 for p in scn["peers"]}       # outbound streams that died while the connection stayed up
        gaveup = {p: False for p in scn["peers"]}
        refused = {p: set() for p in scn["peers"]}   # refusal branches of handleGraft this peer went through (with an outbound stream up)
        gone_keys = {}
        for ln in rows[1:]:
            lab = ln["act"].get("c13") or {}
            e, p = lab.get("e", ""), lab.get("p", "")
            keys = {q: set(ln["keys"].get(q, [])) | ({"connmgr.protect"} if ln["prot"].get(q) else set()) for q in scn["peers"]}
            for q in scn["peers"]:
                for c in keys[q]:
                    populated[c] = populated.get(c, 0) + 1
                # a verdict on a message of q while no connection to q exists
                if not ln["connected"].get(q, False) and q in ln["verdict_via"] and e != "ConnDown":
                    ob["late_validation"] += 1
            if p in prev and e in self.CLOSING:
                for c in prev[p] - keys[p]:
                    cleared[c] = cleared.get(c, 0) + 1          # emptied by the event that closed a stream / the connection
            if ln["act"].get("fin"):
                for q in scn["peers"]:
                    for c in gone_keys.get(q, set()) - keys[q]:
                        expired[c] = expired.get(c, 0) + 1      # still there when the peer was gone, reclaimed by a timer
            if p in prev:
                before, after = prev[p], keys[p]
                stream_key = "gs.peers" if gs else "pubsub.peers"
                if e == "OutUp" and ln["act"].get("ok") and (stream_key in after):
                    wasup[p] = True
                    pr = scn["peers"][p]["proto"]
                    protos[(scn["router"], pr)] = protos.get((scn["router"], pr), 0) + 1
                    if "pubsub.deadPeerBackoff" in after:
                        ob["respawn_after_reset"] += 1
                if e == "ConnUp":
                    conns[p] += 1
                    if conns[p] > 1 and "pubsub.peers" in after:
                        ob["reconnect"] += 1
                if e == "OutReset" and "pubsub.inboundStreams" in after and "gs.peers" in before and "gs.peers" not in after:
                    ob["out_dies_first"] += 1
                stream_gone = (stream_key in before) and ((stream_key not in after) if gs else True)
                if e == "OutReset" and stream_gone and ln["connected"].get(p, False) and "pubsub.deadPeerBackoff" in after:
                    deaths[p] += 1
                    if deaths[p] == 5:      # backoff.go MaxBackoffAttempts = 4: this death is not respawned
                        gaveup[p] = True
                if e == "Send" and gs and "gs.peers" in before and p in ln["recv_from"]:
                    pc, k = scn["peers"][p], lab.get("k")
                    if k == "graftx":
                        refused[p].add("graft_unknown_topic_then_disconnected")
                    elif k == "graft" and "gs.mesh" not in before and "gs.mesh" not in after:
                        if pc.get("direct"):
                            refused[p].add("graft_refused_direct_peer_then_disconnected")
                        elif "gs.backoff" in before:
                            refused[p].add("graft_refused_backoff_then_disconnected")
                        elif pc["score"] < 0:
                            refused[p].add("graft_refused_negative_score_then_disconnected")
                        elif scn.get("full") and pc["dir"] == "in" and "gs.backoff" in after:
                            refused[p].add("graft_refused_mesh_full_inbound_peer_then_disconnected")
                    elif k == "graft" and scn.get("full") and pc["dir"] == "out" and "gs.mesh" in after and "gs.mesh" not in before:
                        ob["graft_admitted_full_mesh_outbound_peer"] += 1
                if e == "ConnDown":
                    for o in refused[p]:
                        ob[o] += 1
                    refused[p] = set()
                if e == "ConnDown" and gaveup[p]:
                    ob["respawn_gave_up_then_disconnected"] += 1
                    gaveup[p] = False
                if e == "Send" and gs and lab.get("k") in ("graft", "pgflood") and "pubsub.peers" not in before and "gs.backoff" in after \
                        and "gs.mesh" not in after and p in ln["recv_from"]:
                    ob["refused_graft_without_queue"] += 1
                if e in ("InReset", "InEOF") and "gs.peers" in after and "pubsub.inboundStreams" in before and "pubsub.inboundStreams" not in after:
                    ob["in_dies_first"] += 1
                if e == "Send" and gs and "pubsub.inboundStreams" in before and "gs.peers" not in before and p in ln["recv_from"]:
                    ob["rpc_on_inbound_outliving_outbound" if wasup[p] else "rpc_without_outbound_ever"] += 1
                if e == "InDup" and "pubsub.inboundStreams" in after and "pubsub.inboundStreams" in before:
                    ob["duplicate_inbound"] += 1
                if e == "Blacklist" and "gs.peers" in before and "gs.peers" not in after:
                    ob["blacklist_midlife"] += 1
                if e in ("ConnDown", "OutReset", "Blacklist") and "score.peerStats" in before:
                    if "score.peerStats" in after and scn["peers"][p]["score"] <= 0:
                        ob["score_retained"] += 1
                    if "score.peerStats" not in after and scn["peers"][p]["score"] > 0:
                        ob["score_forgotten"] += 1
                if e == "OutFail" and ln["act"].get("ok") and "pubsub.peers" in before and "pubsub.peers" not in after:
                    ob["newstream_failed"] += 1
                if e == "ConnDown":
                    gone_keys[p] = set(after)
            prev = keys

    def unmet(self):
        u = [k for k, n in self.ob.items() if n == 0]
        need = [("gossipsub", p) for p in ("flood", "v10", "v11", "v12", "v13")] + [("floodsub", "flood"), ("randomsub", "random"), ("randomsub", "flood")]
        u += ["stream established with %s/%s" % rp for rp in need if not self.protos.get(rp)]
        u += ["container never populated: " + c for c in MUST_POPULATE if not self.populated.get(c)]
        u += ["never seen emptied by a closing event: " + c for c in MUST_CLEAR if not self.cleared.get(c)]
        u += ["never seen reclaimed by a timer after the disconnect: " + c for c in MUST_EXPIRE if not self.expired.get(c)]
        return u


def load_scn(index, sid):
    path, a, b = index[sid]
    with open(path, "rb") as f:
        f.seek(a)
        data = f.read(b - a)
    rows = []
    for l in data.splitlines():
        try:
            rows.append(compact(json.loads(l)))
        except ValueError:
            pass
    return rows


def run_tv(ctx, ci, path, nrows):
    res = vlib.run_tlc(ctx, FAMILY, "PeerLifeTrace", "PeerLifeTrace.cfg", mode="trace", files={"trace.ndjson": path},
                       timeout=1500, name="tv-%d" % ci, heap="4g")
    if res.hw is None or res.hw[0] < res.hw[1] or res.violated or res.timed_out:
        raise vlib.Inconclusive("trace validation did not consume its input (hw=%s errors=%s, see %s/tlc.out)" % (res.hw, res.errors[:2], res.dir))
    return res.printed("VIOL"), res.printed("DRIFT"), res.distinct, nrows


def stream_and_validate(ctx, paths, scn_by_id, acc):
    """One pass over the recorded traces: lifecycle by lifecycle (contiguous in a shard's file) check completeness, update the
    obligations, append the projection PeerLifeTrace reads to the current chunk and hand full chunks to TLC while reading goes on."""
    CHUNK = 1200
    obl, index, done, incomplete, samples = Obligations(), {}, set(), set(), []
    futures = []
    state = {"ci": 0, "n": 0, "rows": 0, "f": None, "path": None}
    ex = cf.ThreadPoolExecutor(max_workers=max(1, min(vlib.NCPU // 2, 5)))

    def rotate():
        if state["f"] is not None:
            state["f"].close()
            futures.append(ex.submit(run_tv, ctx, state["ci"], state["path"], state["rows"]))
            state["ci"] += 1
        state.update(n=0, rows=0, f=None, path=None)

    def finish_scn(rows, where):
        sid = rows[0]["scn"]
        if rows[0]["act"].get("a") != "reset" or not rows[-1]["act"].get("fin"):
            if sid not in done:
                incomplete.add(sid)     # cut short by a driver that died (it may be recorded completely by the resumed run)
            return
        if sid in done:
            return
        index[sid] = where
        done.add(sid)
        incomplete.discard(sid)
        obl.update(scn_by_id[sid], rows)
        if state["f"] is None:
            state["path"] = os.path.join(ctx.work, "tv-%d.ndjson" % state["ci"])
            state["f"] = open(state["path"], "w")
        for r in rows:
            state["f"].write(json.dumps(slim(r), separators=(",", ":")) + "\n")
        state["n"] += 1
        state["rows"] += len(rows)
        acc["lines"] += len(rows)
        if len(samples) < 3 and sid % 997 == 5 % max(1, len(scn_by_id)):
            samples.append({"scenario": scn_by_id[sid], "trace": [slim(r) for r in rows][:12]})
        if state["n"] >= CHUNK:
            rotate()

    try:
        for path in paths:
            with open(path, "rb") as f:
                off, cur, start = 0, [], 0
                for raw in f:
                    if raw.strip():
                        try:
                            row = compact(json.loads(raw))
                        except ValueError:      # the last line of a driver that died is cut short
                            off += len(raw)
                            continue
                        if cur and row["scn"] != cur[0]["scn"]:
                            finish_scn(cur, (path, start, off))
                            cur, start = [], off
                        cur.append(row)
                    off += len(raw)
                if cur:
                    finish_scn(cur, (path, start, off))
        rotate()
        viols, drifts = [], []
        for fu in futures:
            v, d, st, n = fu.result()
            viols += v
            drifts += d
            acc["states"] += st
            acc["transitions"] += n
    finally:
        ex.shutdown(wait=True)
    if not samples and done:
        sid = min(done)
        samples.append({"scenario": scn_by_id[sid], "trace": [slim(r) for r in load_scn(index, sid)][:12]})
    return viols, drifts, obl, index, done, incomplete, samples


def run(ctx):
    acc = {"states": 0, "transitions": 0, "lines": 0, "mc": {}}
    if ctx.replay:
        payload = json.load(open(ctx.replay))
        scn = (payload.get("replay") or {}).get("scenario")
        if not scn:
            raise vlib.Inconclusive("replay file has no scenario")
        scns = [scn]
        acc["exhaustive_upto"] = 0
    else:
        by_len, walks, respawn = tlc_jobs(ctx, acc)
        scns = build_scenarios(ctx, by_len, walks, respawn, acc)
    ctx.log("replaying %d lifecycles on the real node" % len(scns))
    binp = build_driver(ctx)
    paths, dead = replay(ctx, binp, scns)
    scn_by_id = {s["id"]: s for s in scns}
    ctx.log("replayed; validating the recorded lines with TLC")
    viols, drifts, obl, index, done, incomplete, samples = stream_and_validate(ctx, paths, scn_by_id, acc)
    incomplete = sorted(incomplete)
    missing = [s["id"] for s in scns if s["id"] not in done and s["id"] not in incomplete]
    ctx.log("validated %d lines of %d lifecycles" % (acc["lines"], len(done)))

    # every failing predicate instance -> a violation with a signature keyed by container and condition
    per_sig = {}
    for v in viols:
        scn = scn_by_id[v["scn"]]
        sig = {"c": v["c"], "cond": v["cond"], "when": "final" if v["pred"] == "P_C13_Reclaimed" else "line",
               "proto": v["proto"], "router": v["router"]}
        key = (v["pred"], json.dumps(sig, sort_keys=True))
        per_sig[key] = per_sig.get(key, 0) + 1
        if per_sig[key] <= 2:
            rows = load_scn(index, v["scn"])
            bad = next((l for l in rows if l["i"] == v["i"]), None)
            what = ("after everything of %s was down and all retention periods had elapsed" if v["pred"] == "P_C13_Reclaimed"
                    else "right after the step that must have emptied it for %s") % v["p"]
            vlib.add_violation(ctx, v["pred"], sig,
                               "%s still lists the peer %s (%s peer, router %s, condition %s; lifecycle %s; line %d: %s)" %
                               (v["c"], what, v["proto"], v["router"], v["cond"],
                                " ".join(e["e"] + ("(" + e["k"] + ")" if e["k"] else "") + (":" + e["p"] if len(scn["peers"]) > 1 and e["p"] else "") for e in scn["evs"]),
                                v["i"], json.dumps({k: bad.get(k) for k in ("act", "keysFull", "prot")}) if bad else "?"),
                               {"scenario": scn, "failing_line": v["i"], "slim": [slim(l) for l in rows]})
        else:
            ctx.violations.append({"pred": v["pred"], "sig": sig, "detail": "", "replay": ""})
    drift_kinds = {}
    for d in drifts:
        k = "%s:%s:%s%s" % (d["pred"], d["c"], d["e"], ("(" + d["k"] + ")") if d["k"] else "")
        drift_kinds[k] = drift_kinds.get(k, 0) + 1
    if drift_kinds:
        ctx.notes.append("MODEL-DRIFT (no verdict): the real node left the model's MAY set / preconditions: %s" % json.dumps(drift_kinds, sort_keys=True)[:600])

    # machinery problems are reported only when no new violation was observed on the lifecycles that did complete
    known = vlib.load_findings(ctx.pid)
    new = [v for v in ctx.violations if not any(vlib.sig_matches(f, v) for f in known)]
    if not new:
        if incomplete or missing or dead:
            raise vlib.Inconclusive("%d lifecycles were not replayed to the end (e.g. %s); driver died in %s" %
                                    (len(set(incomplete + missing)), (incomplete + missing)[:5], [(d[0], d[2]) for d in dead][:3]))
        unmet = [] if ctx.replay else obl.unmet()
        if unmet:
            raise vlib.Inconclusive("coverage obligations not met: %s" % unmet[:8])
    elif dead:
        ctx.notes.append("the driver died in %d lifecycles (%s); the verdict rests on the others" % (len(dead), [d[0] for d in dead][:5]))

    nontrivial = set()
    for s in scns:
        f = features(s["evs"])
        if any(x.startswith("send:") for x in f) or f & {"outFirst", "inFirst", "dup", "blMid", "outFail", "outReset"}:
            nontrivial.add(json.dumps([s["router"], s["peers"], s["evs"]], sort_keys=True))
    cov = {"states": acc["states"], "transitions": acc["transitions"], "traces_validated_against_impl": len(done),
           "samples": samples, "evaluations": acc["lines"] * 2, "distinct_nontrivial": len(nontrivial),
           "rule": "one evaluation = the predicates of PeerLifeTrace on one recorded line for one lifecycle peer; a lifecycle is non-trivial if it "
                   "contains an RPC or a stream fault (reset / failed open / duplicate / blacklist) and distinct by (router, peer parameters, events)",
           "exhaustive": "every lifecycle of <= %d events of the generator was replayed (with sampled protocol/score/direction parameters); longer ones are a seeded stratified sample" % acc.get("exhaustive_upto", 0),
           "obligations": obl.ob, "streams_by_router_proto": {"%s/%s" % k: v for k, v in sorted(obl.protos.items())},
           "containers_populated": obl.populated, "emptied_by_closing_event": obl.cleared, "reclaimed_by_timer_after_disconnect": obl.expired,
           "violating_instances": {"%s %s" % k: n for k, n in sorted(per_sig.items())},
           "mc": acc["mc"], "gen": acc.get("gen", {}), "model_drift": drift_kinds}
    return vlib.finish(ctx, LEVEL, cov, [
        "the snapshot (VerifSnapshot / VerifPerPeerKeys, build tag verif) lists every per-peer container; peerstore / certified address book, direct-peer "
        "configuration and its pubsub:<direct> tag, and the partial-messages extension (not enabled) are outside this check",
        "retention periods are set small (RetainScore 2 s with DecayInterval 30 s, gater RetainStats 3 s, seen TTL 10 s, prune backoff 5 s) and the final "
        "Elapse is 122 s, or 842 s when a dead-peer backoff entry (TimeToLive 10 min + 1 min cleanup) exists",
        "P_C13_Immediate (line by line) is stronger than the literal statement: it asks that queues, topics, router peers, mesh, fanout, pending "
        "control, outbound flags and IDONTWANT sets are emptied by the event that closes the stream they belong to (DESIGN C13, Replay/TV)",
        "libp2p / simnet deliver stream resets, EOFs and disconnects as the real transports do; NewStream failures are injected by the host wrapper"])
