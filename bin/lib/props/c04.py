"""C04 - validator verdicts decide delivery, forwarding and penalties.

spec/ingest: Ingest (the in-node pipeline at the grain of the code's stages, with the peer-score delivery
records), MCIngest (exhaustive configurations + seeded variants that must fail), GenIngest (scenario generator:
the model under the driver's discipline "internal actions are eager"), IngestTrace (P_C04_OnlyIfAllAccept,
P_C04_Outcome, P_C04_Penalty, P_C04_Local on what the real node did).  Driver: harness/drivers/ingest."""
from .. import vlib
from ._ingest import run_ingest

LEVEL = "model_checking"


def run(ctx):
    p = run_ingest(ctx, "C04")
    cov = {"states": p["states"], "transitions": p["transitions"], "traces_validated_against_impl": p["traces"],
           "samples": p["samples"], "evaluations": p["evaluations"], "distinct_nontrivial": p["distinct_nontrivial"],
           "rule": p["rule"], "exhaustive": False, "hits": p["hits"], "obligations": p["obligations"], "mc": p["mc"],
           "generated_scenarios": p["generated"], "directed_scenarios": p["directed"], "model_drift": p["drift"],
           "predicates": p["predicates"]}
    return vlib.finish(ctx, LEVEL, cov, p["assumptions"])
