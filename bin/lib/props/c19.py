"""C19 - the event trace is a faithful account from which state can be rebuilt.

spec/tracereplay: TraceReplay (the meaning of the trace: variables rebuilt only from TraceEvents, one
action per event type), MCTraceReplay (+ an abstract router emitting events the way the call sites do;
TLC checks that at every quiet state the rebuilt variables equal the router's state; configurations with
a seeded defect MUST fail), GenTraceReplay (scenario generator), TraceReplayTrace (trace spec over the
common step-line format: replays the EventTracer events of every line and compares, at each quiet line,
with the snapshot, the subscriber deliveries, the frames on the wire and the queue-push hook).

Real traces: harness/drivers/c19 (world + queue-push hook + file tracers) for gossipsub, floodsub and
randomsub nodes, and the common router walk driver with keepPB."""
import concurrent.futures as cf
import json, os, random, re
from .. import vlib

LEVEL = "model_checking"
FAMILY = "tracereplay"

EMPTY_RPC = {"msgs": [], "subs": [], "graft": [], "prune": [], "ihave": [], "iwant": [], "idontwant": []}
RAW2TYPE = {"Up": "ON_NEW_OUTBOUND_STREAM", "Down": "ON_CLOSED_OUTBOUND_STREAM", "Join": "JOIN", "Leave": "LEAVE",
            "Graft": "GRAFT", "Prune": "PRUNE", "Deliver": "DELIVER_MESSAGE", "Send": "SEND_RPC", "Drop": "DROP_RPC"}
REBUILD_TYPES = ["ON_NEW_OUTBOUND_STREAM", "ON_CLOSED_OUTBOUND_STREAM", "JOIN", "LEAVE", "GRAFT", "PRUNE",
                 "DELIVER_MESSAGE", "PUBLISH_MESSAGE", "SEND_RPC", "DROP_RPC"]
ROUTERS = ["gossipsub", "floodsub", "randomsub"]
VALIDATION_ERRORS = {"validation failed", "validation ignored", "validation throttled", "invalid signature"}


# ----------------------------------------------------------------------------- projection of step lines

def view_of(rpc):
    """The part of an RPC's metadata that the RawTracer view and the EventTracer view can be compared on: the harness
    names message ids when it renders them, the raw view at callback time and the event view at the end of the step, so
    the ids inside IHAVE/IWANT/IDONTWANT may be rendered differently (named later); only their number is compared."""
    return {"msgs": rpc["msgs"], "subs": rpc["subs"], "graft": rpc["graft"], "prune": rpc["prune"],
            "ihave": [{"topic": x["topic"], "n": len(x["ids"])} for x in rpc["ihave"]],
            "iwant": [len(x) for x in rpc["iwant"]], "idontwant": [len(x) for x in rpc["idontwant"]]}


EMPTY_VIEW = view_of(EMPTY_RPC)


def norm_tev(e, mu=None):
    """An EventTracer event as rendered by rec.PBShape -> the uniform record the trace spec reads.
    mu is the key under which the message is counted in the delivery/publication bags (see project)."""
    rpc = e.get("rpc") or {}
    if not rpc:
        rpc = EMPTY_RPC
    m = e.get("m", "")
    return {"type": e["type"], "p": e.get("p", ""), "topic": e.get("topic", ""), "m": m, "mu": m if mu is None else mu,
            "via": e.get("via", ""), "proto": e.get("proto", ""), "reason": e.get("reason", ""), "unres": m.startswith("#"),
            "rpc": rpc, "rpcv": view_of(rpc)}


def meta_of_raw(rpc):
    """rec.RPCShape (RawTracer view of an RPC) -> the shape of the trace's RPC metadata."""
    return {"msgs": [{"m": x["m"], "topic": x["topic"]} for x in rpc["msgs"]],
            "subs": [{"topic": x["topic"], "sub": x["sub"]} for x in rpc["subs"]],
            "graft": list(rpc["graft"]), "prune": [x["topic"] for x in rpc["prune"]],
            "ihave": [{"topic": x["topic"], "ids": list(x["ids"])} for x in rpc["ihave"]],
            "iwant": [list(x) for x in rpc["iwant"]], "idontwant": [list(x) for x in rpc["idontwant"]]}


def norm_raw(e):
    ty = RAW2TYPE.get(e["k"])
    if ty is None:
        return None
    out = {"type": ty, "p": "", "topic": "", "m": "", "via": "", "proto": "", "rpcv": EMPTY_VIEW}
    k = e["k"]
    if k in ("Up", "Down", "Graft", "Prune", "Send", "Drop"):
        out["p"] = e.get("p", "")
    if k == "Up":
        out["proto"] = e.get("proto", "")
    if k in ("Join", "Leave", "Graft", "Prune", "Deliver"):
        out["topic"] = e.get("topic", "")
    if k == "Deliver":
        out["m"], out["via"] = e.get("m", ""), e.get("via", "")
    if k in ("Send", "Drop"):
        out["rpcv"] = view_of(meta_of_raw(e["rpc"]))
    return out


def project(d, router, files, pubnames):
    """One raw step line -> the record read by TraceReplayTrace (every field always present).

    Message names: the harness names a message by the prefix of its payload. Two artefacts of that naming are
    removed here so that the bags are keyed by *message*, not by name: (1) an id the harness could not name when
    the step line was rendered (a publication nobody received: no subscriber, no peer) is printed as a truncated
    hex string that is the same for every message of the node; each such event gets a key of its own; (2) scenario
    generators may let a fake peer send a new message whose payload re-uses the name of an earlier local publication:
    the remote one is keyed name@remote."""
    act = d["act"]
    if "c19" in act:
        act = act["c19"]
    a = act["a"]
    base = {"i": d["i"], "scn": d["scn"], "t": d.get("t", 0), "a": a, "at": act.get("t", "") if isinstance(act.get("t", ""), str) else "",
            "ap": act.get("p", ""), "am": act.get("m", ""), "ams": list(act["ms"]) if isinstance(act.get("ms"), list) else [], "router": router, "files": files,
            "tev": [], "ev": [], "joinedG": [], "mesh": [], "hasRpeers": False, "rpeers": [], "qpeers": [],
            "dsub": [], "dfwd": [], "outp": [], "puberr": False, "hasPush": False, "pushOk": 0, "pushFull": 0, "push": [],
            "json": [], "pb": [], "jsonErr": "", "pbErr": "", "traced": 0}
    if a == "files":
        base["json"] = [norm_tev(e) for e in d["json"]]
        base["pb"] = [norm_tev(e) for e in d["pb"]]
        base["jsonErr"], base["pbErr"], base["traced"] = d["jsonErr"], d["pbErr"], d["traced"]
        return base
    st = d["st"]
    if a in ("publish", "pubbatch"):
        pubnames.update([act.get("m", "")] + list(act["ms"] if isinstance(act.get("ms"), list) else []))
    if a == "msg" and act.get("m", "") in pubnames:
        pubnames.add("@" + act["m"])      # from here on the bare name stands for two messages
    tev = []
    for k, e in enumerate(d.get("tev", [])):
        m, mu = e.get("m", ""), None
        if m.startswith("#"):
            mu = "%s/%d.%d.%d" % (m, d["scn"], d["i"], k)
        elif m in pubnames and e.get("via", "") not in ("", "self"):
            mu = m + "@remote"
        tev.append(norm_tev(e, mu))
    base["tev"] = tev
    base["ev"] = [x for x in (norm_raw(e) for e in d["ev"]) if x is not None]
    subs, relays = st.get("subs", {}), st.get("relays", {})
    fanout_only = {t for t, f in st.get("myTopics", {}).items() if f.get("fanoutOnly")}
    base["joinedG"] = sorted(t for t in set(subs) | set(relays)
                             if (subs.get(t, 0) > 0 or relays.get(t, 0) > 0) and t not in fanout_only)
    base["mesh"] = [{"t": t, "ps": sorted(ps)} for t, ps in sorted(st.get("mesh", {}).items())]
    if router == "gossipsub":
        base["hasRpeers"], base["rpeers"] = True, sorted(st.get("gsPeers", {}))
    elif router == "randomsub":
        base["hasRpeers"], base["rpeers"] = True, sorted(st.get("rsPeers", {}))
    base["qpeers"] = sorted(st.get("peers", {}))
    amb = lambda m: ("@" + m) in pubnames      # a name that stands for two messages identifies neither
    base["dsub"] = [x["m"] for x in d["deliv"] if x["sub"] != "publish-error" and not amb(x["m"])]
    # a publication attempt that failed before it reached validation (closed topic, cancelled context, ...) is the
    # caller's, not the node's; one refused BY validation did reach it and must have its PUBLISH_MESSAGE
    base["puberr"] = any(x["sub"] == "publish-error" and x["m"].split(":", 1)[-1] not in VALIDATION_ERRORS for x in d["deliv"])
    fwd, outp = [], []
    for p, frames in d["out"].items():
        if frames:
            outp.append(p)
        for fr in frames:
            fwd += [m["m"] for m in fr["msgs"] if not amb(m["m"])]
    base["dfwd"], base["outp"] = sorted(set(fwd)), sorted(outp)
    if "push" in d:
        base["hasPush"] = True
        base["pushOk"], base["pushFull"] = d["push"]["ok"], d["push"]["full"]
        base["push"] = [{"ok": x["ok"], "rpc": x["rpc"]} for x in d["push"]["list"]]
    return base


def split_raw(lines):
    scns, cur = [], None
    for ln in lines:
        if ln["act"]["a"] == "reset":
            cur = [ln]
            scns.append(cur)
        elif cur is not None:
            cur.append(ln)
    return scns


# ----------------------------------------------------------------------------- scenarios

def protos_for(router):
    return {"gossipsub": ["v11", "v12", "flood", "v13", "v10"], "floodsub": ["flood"], "randomsub": ["random", "flood", "random"]}[router]


def from_gen(g, router):
    """A stimulus sequence emitted by GenTraceReplay -> a world scenario for one router."""
    pr = protos_for(router)
    acts, nm = [], 0
    for x in g["acts"]:
        a, p, t = x["a"], x["p"], x["t"]
        if a == "peer":
            k = int(p[1:]) - 1
            acts.append({"a": "peer", "p": p, "proto": pr[k % len(pr)], "dir": "in" if k % 2 == 0 else "out", "subs": ["T1", "T2"]})
        elif a in ("down", "resetIn"):
            acts.append({"a": a, "p": p})
        elif a in ("subscribe", "cancel", "relay", "unrelay"):
            acts.append({"a": a, "t": t})
        elif a in ("graft", "prune"):
            acts.append({"a": a, "p": p, "t": t})
        elif a == "hb":
            acts.append({"a": "hb"})
        elif a == "publish":
            nm += 1
            acts.append({"a": "publish", "t": t, "m": "m%d" % nm})
        elif a == "msg":
            nm += 1
            acts.append({"a": "msg", "p": p, "t": t, "m": "m%d" % nm})
        else:
            raise vlib.Inconclusive("generator emitted an unknown stimulus %r" % a)
    return {"cfg": {"router": router, "hosts": 5}, "acts": acts, "src": "gen"}


def peer(p, proto, d="in", subs=("T1", "T2")):
    return {"a": "peer", "p": p, "proto": proto, "dir": d, "subs": list(subs)}


def scripted():
    """Targeted scenarios: full queues (refused pushes), announce retries, batch publishing, oversized RPCs,
    fanout-only topics, a GRAFT from a peer without outbound stream, negative-score pruning, blacklisting,
    subscribe/cancel/relay/unrelay cycles under every router, file tracers."""
    S = []
    A = lambda a, **kw: dict({"a": a}, **kw)
    # gossipsub, queue of one, gated peer: refused pushes of every kind, announce retry, batch, leave with mesh
    S.append({"cfg": {"router": "gossipsub", "queue": 1, "hosts": 6, "files": True}, "acts": [
        peer("p1", "v11", "in", ("T1", "TB")), peer("p2", "v12", "out", ("T1",)), A("subscribe", t="T1"), A("hb"),
        A("gate", p="p1", on=True), A("publish", t="T1", m="m1"), A("publish", t="T1", m="m2"), A("publish", t="T1", m="m3"),
        A("subscribe", t="T2"), A("hb"), A("gate", p="p1", on=False), A("hb"), A("bsub", t="TB"),
        A("pubbatch", t="TB", ms=["b1", "b2"]), A("msg", p="p2", t="T1", m="m4"), A("down", p="p1"), A("cancel", t="T1"),
        A("bcancel", t="TB"), A("cancel", t="T2")]})
    # batch publishing with several recipients and a subscriber; batch without subscriber
    S.append({"cfg": {"router": "gossipsub", "hosts": 6}, "acts": [
        peer("p1", "v11", "in", ("TB",)), peer("p2", "v12", "out", ("TB",)), peer("p3", "flood", "in", ("TB",)),
        A("pubbatch", t="TB", ms=["b1", "b2", "b3"]), A("bsub", t="TB"), A("hb"), A("pubbatch", t="TB", ms=["b4", "b5"]),
        A("bcancel", t="TB"), A("pubbatch", t="TB", ms=["b6"]), A("bsub", t="TB"), A("pubbatch", t="TB", ms=["b7", "b8"], size=100),
        A("bcancel", t="TB")]})
    # oversized RPC: dropped before the queue (DROP_RPC without a push), and split RPCs
    S.append({"cfg": {"router": "gossipsub", "maxMsg": 400, "hosts": 5}, "acts": [
        peer("p1", "v11", "in", ("T1",)), peer("p2", "v12", "out", ("T1",)), A("subscribe", t="T1"), A("hb"),
        A("publish", t="T1", m="m1", size=600), A("publish", t="T1", m="m2", size=100), A("msg", p="p1", t="T1", m="m3", size=100),
        A("hb"), A("cancel", t="T1")]})
    # fanout-only topic and ordinary fanout, then join promotes fanout peers
    S.append({"cfg": {"router": "gossipsub", "hosts": 6}, "acts": [
        peer("p1", "v11", "in", ("T1", "TF")), peer("p2", "v12", "out", ("T1", "TF")), A("join", t="TF", fanoutOnly=True),
        A("publish", t="TF", m="m1"), A("subscribe", t="TF"), A("publish", t="TF", m="m2"), A("cancel", t="TF"),
        A("publish", t="T1", m="m3"), A("hb"), A("subscribe", t="T1"), A("publish", t="T1", m="m4"), A("relay", t="T1"),
        A("cancel", t="T1"), A("unrelay", t="T1"), A("relay", t="T1"), A("unrelay", t="T1")]})
    # a publication nobody receives (no subscriber, no peer): the event stream is all there is
    S.append({"cfg": {"router": "gossipsub", "hosts": 4}, "acts": [
        A("publish", t="T1", m="m1"), A("subscribe", t="T1"), A("publish", t="T1", m="m2"), A("cancel", t="T1")]})
    # GRAFT from a peer whose outbound stream is gone (D6), negative score pruning, blacklist, remote prune
    S.append({"cfg": {"router": "gossipsub", "score": True, "hosts": 7}, "acts": [
        peer("p1", "v11", "in", ("T1",)), peer("p2", "v12", "out", ("T1",)), peer("p3", "v11", "in", ("T1",)),
        peer("p4", "v12", "out", ("T1",)), A("subscribe", t="T1"), A("hb"), A("score", p="p2", v=-1), A("hb"),
        A("prune", p="p1", t="T1", bo=1), A("hb"), A("hb"), A("graft", p="p1", t="T1"), A("resetIn", p="p3"), A("hb"),
        A("blacklist", p="p4"), A("hb"), A("down", p="p1"), A("cancel", t="T1"), A("subscribe", t="T1"), A("hb"),
        A("cancel", t="T1")]})
    # opportunistic / heartbeat grafting: peers arrive after the join
    S.append({"cfg": {"router": "gossipsub", "hosts": 7}, "acts": [
        A("subscribe", t="T1"), peer("p1", "v11", "in", ("T1",)), peer("p2", "v12", "out", ("T1",)), A("hb"),
        peer("p3", "v11", "in", ("T1",)), peer("p4", "v12", "out", ("T1",)), peer("p5", "v11", "in", ("T1",)), A("hb"),
        A("graft", p="p5", t="T1"), A("graft", p="p4", t="T1"), A("hb"), A("down", p="p1"), A("hb"), A("cancel", t="T1")]})
    for router in ("floodsub", "randomsub"):
        pr = protos_for(router)
        S.append({"cfg": {"router": router, "queue": 1, "hosts": 6, "files": router == "floodsub"}, "acts": [
            peer("p1", pr[0], "in", ("T1",)), peer("p2", pr[-1], "out", ("T1",)), A("subscribe", t="T1"),
            A("publish", t="T1", m="m1"), A("msg", p="p1", t="T1", m="m2"), A("gate", p="p2", on=True),
            A("publish", t="T1", m="m3"), A("publish", t="T1", m="m4"), A("publish", t="T1", m="m5"), A("subscribe", t="T2"),
            A("adv", ms=1200), A("gate", p="p2", on=False), A("adv", ms=1200), A("cancel", t="T1"), A("relay", t="T1"),
            A("subscribe", t="T1"), A("unrelay", t="T1"), A("cancel", t="T1"), A("cancel", t="T2"), A("resetIn", p="p1"),
            A("adv", ms=300), A("down", p="p2"), A("subscribe", t="T1"), A("cancel", t="T1")]})
    # local publications refused by validation (PUBLISH_MESSAGE, then REJECT_MESSAGE, no DELIVER_MESSAGE), remote ones too;
    # local-only publications (delivered to subscribers, not forwarded)
    for router in ROUTERS:
        pr = protos_for(router)
        acts = [peer("p1", pr[0], "in", ("T1", "TB")), peer("p2", pr[-1] if router != "gossipsub" else "v12", "out", ("T1", "TB")),
                A("subscribe", t="T1"), A("publish", t="T1", m="x1"), A("publish", t="T1", m="y1"), A("publish", t="T1", m="m1"),
                A("publish", t="T1", m="m2", localOnly=True), A("msg", p="p1", t="T1", m="x2"), A("msg", p="p1", t="T1", m="y2"),
                A("msg", p="p1", t="T1", m="m3"), A("msg", p="p2", t="T1", m="m3"), A("cancel", t="T1"),
                A("publish", t="T1", m="x3"), A("publish", t="T1", m="m4", localOnly=True)]
        if router == "gossipsub":
            acts += [A("bsub", t="TB"), A("pubbatch", t="TB", ms=["b1", "x4", "b2", "y3"]), A("bcancel", t="TB")]
        S.append({"cfg": {"router": router, "hosts": 5, "validator": True}, "acts": acts})
    # every branch of handleGraft / handlePrune (a GRAFT that is refused must not be traced; the reply is a PRUNE RPC only)
    # G1: tiny degrees so that the mesh fills: GRAFTs from inbound peers at |mesh| >= Dhi are refused, one from an
    #     outbound peer is still accepted; the refused peers are then in backoff; the heartbeat prunes the excess
    small = {"D": 2, "Dlo": 1, "Dhi": 3, "Dscore": 1, "Dout": 0}
    ins = ["p1", "p2", "p3", "p4", "p5"]
    S.append({"cfg": dict({"router": "gossipsub", "hosts": 8}, **small), "acts":
              [peer(p, "v11", "in", ("T1",)) for p in ins] + [A("hb"), A("subscribe", t="T1")] +
              [A("graft", p=p, t="T1") for p in ins] + [peer("p6", "v12", "out", ("T1",)), A("graft", p="p6", t="T1")] +
              [A("graft", p=p, t="T1") for p in ins] + [A("hb"), A("hb"), A("cancel", t="T1")]})
    # G2: already in mesh, unknown topic, backoff, direct peer, negative score; PRUNE for an unknown topic, from a member,
    #     from a non-member
    S.append({"cfg": {"router": "gossipsub", "score": True, "hosts": 7}, "acts": [
        peer("p1", "v11", "in", ("T1",)), peer("p2", "v12", "in", ("T1",)), peer("p3", "v11", "in", ("T1",)), A("hb"),
        A("subscribe", t="T1"), A("graft", p="p1", t="T1"), A("graft", p="p1", t="T9"), A("prune", p="p1", t="T9"),
        A("prune", p="p2", t="T1", bo=3), A("graft", p="p2", t="T1"), A("prune", p="p2", t="T1"),
        peer("p4", "v11", "in", ("T1",)), A("direct", p="p4", on=True), A("graft", p="p4", t="T1"),
        peer("p5", "v12", "in", ("T1",)), A("score", p="p5", v=-1), A("graft", p="p5", t="T1"), A("hb"), A("cancel", t="T1")]})
    # G3: heartbeat conditionals: negative-score prune, outbound quota graft, opportunistic graft
    S.append({"cfg": {"router": "gossipsub", "score": True, "hosts": 8}, "acts": [
        peer("p1", "v11", "in", ("T1",)), peer("p2", "v12", "in", ("T1",)), peer("p3", "v11", "in", ("T1",)), A("hb"),
        A("subscribe", t="T1"), A("score", p="p1", v=-1), A("hb"), peer("p4", "v12", "out", ("T1",)), A("hb"),
        peer("p5", "v11", "in", ("T1",)), peer("p6", "v12", "in", ("T1",)), A("score", p="p5", v=3), A("score", p="p6", v=3),
        A("hb"), A("hb"), A("hb"), A("hb"), A("hb"), A("cancel", t="T1")]})
    # U1: every SEND_RPC/DROP_RPC call site of gossipsub with its push accepted AND refused, decided by the queue hook:
    #     a v1.2 mesh peer's writes are gated and its queue of one is filled with two small publications; then
    #     - a big message from another peer: Preprocess sends IDONTWANT (URGENT push) to the gated peer: refused; the
    #       forward (non-urgent) is refused too;  - a big local publication: urgent refused (gated) and accepted (other peer);
    #     - a batch [normal, local-only, normal] while the queue is full (batch path refused) and again after the gate opens
    S.append({"cfg": {"router": "gossipsub", "queue": 1, "hosts": 6}, "acts": [
        peer("p1", "v12", "in", ("T1",)), peer("p2", "v12", "out", ("T1",)), peer("p3", "v11", "in", ("T1",)), A("hb"),
        A("subscribe", t="T1"), A("hb"), A("hb"), A("gate", p="p1", on=True), A("publish", t="T1", m="m1"), A("publish", t="T1", m="m2"),
        A("msg", p="p2", t="T1", m="m3", size=100), A("publish", t="T1", m="m4", size=100),
        A("pubbatch", t="T1", ms=["b1", "b2", "b3"], ls=[False, True, False]), A("pubbatch", t="T1", ms=["b4", "b5"], ls=[True, False], size=100),
        A("gate", p="p1", on=False), A("hb"), A("hb"), A("msg", p="p3", t="T1", m="m5", size=100),
        A("pubbatch", t="T1", ms=["b6", "b7", "b8"], ls=[False, True, False]), A("pubbatch", t="T1", ms=["b9"], ls=[True]),
        A("cancel", t="T1"), A("pubbatch", t="T1", ms=["b10", "b11"], ls=[True, False])]})
    # U2: the split path of sendRPC (an IWANT reply larger than the maximum message size goes out as fragments),
    #     accepted, then refused by the full queue of the gated requester
    S.append({"cfg": {"router": "gossipsub", "queue": 1, "maxMsg": 400, "hosts": 5}, "acts": [
        peer("p1", "v11", "in", ("T1",)), peer("p2", "v11", "out", ("T1",)), A("hb"), A("subscribe", t="T1"), A("hb"),
        A("msg", p="p2", t="T1", m="m1", size=100), A("msg", p="p2", t="T1", m="m2", size=100), A("msg", p="p2", t="T1", m="m3", size=100),
        A("hb"), A("iwant", p="p1", ids=["m1", "m2", "m3"]), A("hb"), A("gate", p="p1", on=True),
        A("iwant", p="p1", ids=["m1", "m2", "m3"]), A("gate", p="p1", on=False), A("hb"), A("cancel", t="T1")]})
    for s in S:
        s["src"] = "scripted"
    return S


def walk(rng, router, steps):
    """A seeded random walk over the alphabet that matters for the trace (own generator because the common
    walk driver neither gates writes nor publishes batches nor knows the floodsub/randomsub protocol ids)."""
    pr = protos_for(router)
    gs = router == "gossipsub"
    np_ = rng.randint(2, 4)
    topics = ["T1", "T2"]
    cfg = {"router": router, "hosts": np_ + 2, "queue": rng.choice([0, 0, 1, 2]), "score": gs and rng.random() < 0.5,
           "flood": gs and rng.random() < 0.25, "files": rng.random() < 0.15, "validator": rng.random() < 0.3}
    if gs and rng.random() < 0.35:
        cfg.update({"D": 2, "Dlo": 1, "Dhi": 3, "Dscore": 1, "Dout": 0})   # meshes fill: GRAFTs get refused
    acts, peers, dead, gated = [], [], set(), set()
    for i in range(np_):
        p = "p%d" % (i + 1)
        peers.append(p)
        subs = [t for t in topics + (["TB", "TF"] if gs else []) if rng.random() < 0.75]
        acts.append(peer(p, rng.choice(pr), rng.choice(["in", "out"]), subs))
    nm, msgs, remote, bsubbed, tf = 0, [], [], False, False
    def newm():
        nonlocal nm
        nm += 1
        r = rng.random()
        msgs.append(("x%d" if r < 0.12 else "y%d" if r < 0.2 else "m%d") % nm)   # x../y..: refused by the validator, if any
        return msgs[-1]
    while len(acts) < steps:
        r = rng.random() * 100
        p, t = rng.choice(peers), rng.choice(topics)
        live = [x for x in peers if x not in dead]
        if r < 12:
            a = {"a": "subscribe", "t": t}
        elif r < 22:
            a = {"a": "cancel", "t": t}
        elif r < 27:
            a = {"a": "relay", "t": t}
        elif r < 32:
            a = {"a": "unrelay", "t": t}
        elif r < 40:
            a = {"a": "publish", "t": t, "m": newm(), "size": rng.choice([16, 100])}
            if rng.random() < 0.15:
                a["localOnly"] = True
        elif r < 48:
            a = {"a": "msg", "p": p, "t": t, "m": newm(), "size": rng.choice([16, 100])}
            remote.append(a["m"])
        elif r < 51 and remote:
            a = {"a": "msg", "p": p, "t": t, "m": rng.choice(remote)}   # the same bytes again: a duplicate
        elif r < 58:
            a = {"a": "hb"}
        elif r < 63:
            a = {"a": "down", "p": p}
        elif r < 68 and live:
            q = rng.choice(peers)
            if q in dead:
                continue
            a = peer(q, rng.choice(pr), rng.choice(["in", "out"]), [rng.choice(topics)])
        elif r < 71:
            a = {"a": "resetIn", "p": p}
        elif r < 72 and len(live) > 1:
            a = {"a": "blacklist", "p": p}
            dead.add(p)
        elif r < 78:
            on = p not in gated
            (gated.add if on else gated.discard)(p)
            a = {"a": "gate", "p": p, "on": on}
        elif r < 81:
            a = {"a": "sub", "p": p, "t": t, "v": rng.random() < 0.7}
        elif r < 83:
            a = {"a": "adv", "ms": rng.choice([100, 400, 700])}
        elif not gs:
            continue
        elif r < 85 and "Dhi" in cfg:
            # every peer GRAFTs the same topic in a row: with tiny degrees the mesh fills and the late ones are refused
            acts += [{"a": "graft", "p": x, "t": t} for x in peers]
            continue
        elif r < 88:
            a = {"a": "graft", "p": p, "t": t}
        elif r < 92:
            a = {"a": "prune", "p": p, "t": t}
            if rng.random() < 0.5:
                a["bo"] = rng.randint(1, 4)
        elif r < 94 and cfg["score"]:
            a = {"a": "score", "p": p, "v": rng.randint(-3, 3)}
        elif r < 96:
            if not bsubbed:
                a, bsubbed = {"a": "bsub", "t": "TB"}, True
            else:
                a, bsubbed = {"a": "bcancel", "t": "TB"}, False
        elif r < 98:
            ms = [newm() for _ in range(rng.randint(1, 3))]
            a = {"a": "pubbatch", "t": rng.choice(["TB", t]), "ms": ms, "ls": [rng.random() < 0.35 for _ in ms],
                 "size": rng.choice([16, 100])}
        elif r < 99 and remote:
            a = {"a": "iwant", "p": p, "ids": [rng.choice(remote)]}
        else:
            if not tf:
                a, tf = {"a": "join", "t": "TF", "fanoutOnly": True}, True
            else:
                a = {"a": "publish", "t": "TF", "m": newm()}
        acts.append(a)
    return {"cfg": cfg, "acts": acts, "src": "walk"}


# ----------------------------------------------------------------------------- running and judging

def run_driver(ctx, name, scns):
    inp = os.path.join(ctx.work, name + ".scn.ndjson")
    outp = os.path.join(ctx.work, name + ".ndjson")
    vlib.write_ndjson(inp, [{"cfg": s["cfg"], "acts": s["acts"]} for s in scns])
    marker = os.path.join(ctx.work, name + ".marker")
    r = vlib.run_go(ctx, "./drivers/c19/", "^TestC19Replay$", env={"VERIF_IN": inp, "VERIF_OUT": outp, "VERIF_MARKER": marker},
                    timeout=1500, name=name)
    if r["rc"] != 0 or not os.path.exists(outp) or os.path.getsize(outp) == 0:
        at = open(marker).read() if os.path.exists(marker) else "?"
        raise vlib.Inconclusive("driver TestC19Replay (%s) failed (rc=%s) at scenario %s, see %s" % (name, r["rc"], at, r["log"]))
    raw = split_raw(vlib.read_ndjson(outp))
    if len(raw) != len(scns):
        raise vlib.Inconclusive("driver %s produced %d scenarios for %d inputs" % (name, len(raw), len(scns)))
    return raw


def run_common_walks(ctx, name, walks, steps, cfg):
    outp = os.path.join(ctx.work, name + ".ndjson")
    dump = os.path.join(ctx.work, name + ".scn.ndjson")
    if os.path.exists(dump):
        os.remove(dump)
    r = vlib.run_go(ctx, "./drivers/router/", "^TestRouterWalk$",
                    env={"VERIF_OUT": outp, "VERIF_WALKS": walks, "VERIF_STEPS": steps, "VERIF_CFG": json.dumps(cfg),
                         "VERIF_DUMP_SCN": dump}, timeout=1500, name=name)
    if r["rc"] != 0 or not os.path.exists(outp) or os.path.getsize(outp) == 0:
        raise vlib.Inconclusive("driver TestRouterWalk (%s) failed (rc=%s), see %s" % (name, r["rc"], r["log"]))
    raw = split_raw(vlib.read_ndjson(outp))
    scns = vlib.read_ndjson(dump) if os.path.exists(dump) else []
    return raw, scns


def kind_of(v):
    """Machine-matchable kind of a printed violation (part of the signature)."""
    pred, info, line = v["pred"], v["info"], v["line"]
    if pred == "P_C19_Alternate":
        bad = sorted(tuple(x) for x in info["bad"])
        extra, missing = sorted(info["extra"]), sorted(info["missing"])
        if len(bad) == 1 and bad[0][0] == "JOIN" and extra == [bad[0][1]] and not missing and line["at"] == bad[0][1] \
                and line["a"] in ("cancel", "unrelay", "bcancel"):
            return "JOIN-instead-of-LEAVE"
        if len(bad) == 1 and bad[0][0] == "LEAVE" and missing == [bad[0][1]] and not extra and line["at"] == bad[0][1] \
                and line["a"] in ("subscribe", "relay", "bsub"):
            return "LEAVE-instead-of-JOIN"
        if bad:
            return "alternation-broken"
        if not info["views"]:
            return "tracer-views-differ"
        if extra and not missing:
            return "LEAVE-missing"
        if missing and not extra:
            return "JOIN-missing"
        return "joined-set-differs"
    if pred == "P_C19_Peers":
        if not info["views"]:
            return "tracer-views-differ"
        reb, rt = set(info["rebuilt"]), set(info["router"])
        if info["hasRouter"] and reb - rt:
            return "closed-stream-not-traced"
        if info["hasRouter"] and rt - reb:
            return "new-stream-not-traced"
        if set(info["framesTo"]) - reb:
            return "frames-to-untraced-peer"
        return "peer-set-differs"
    if pred == "P_C19_Mesh":
        if not info["views"]:
            return "tracer-views-differ"
        more = any(set(d["rebuilt"]) - set(d["real"]) for d in info["diff"])
        less = any(set(d["real"]) - set(d["rebuilt"]) for d in info["diff"])
        return "PRUNE-missing" if more and not less else "GRAFT-missing" if less and not more else "mesh-differs"
    if pred == "P_C19_Deliver":
        return "DELIVER-missing" if info["missing"] else "DELIVER-twice" if info["twice"] else "tracer-views-differ"
    if pred == "P_C19_Publish":
        return "PUBLISH-twice" if info["twice"] else "PUBLISH-count"
    if pred == "P_C19_Rpc":
        if not info["views"]:
            return "tracer-views-differ"
        if info["hasPush"] and info["send"] < info["pushOk"]:
            return "accepted-push-without-SEND_RPC"
        if info["hasPush"] and info["send"] > info["pushOk"]:
            return "SEND_RPC-without-accepted-push"
        if info["hasPush"] and info["drop"] < info["pushFull"]:
            return "refused-push-without-DROP_RPC"
        return "push-and-event-content-differ"
    return "files-differ"


def validate(ctx, groups):
    """groups: list of (name, raw scenarios, input scenarios). Projects, runs TraceReplayTrace chunk by chunk,
    returns (violations, tlc states, number of lines)."""
    chunks, cur, n = [], [], 0
    index = {}
    for gi, (name, raw, inputs) in enumerate(groups):
        for si, sc in enumerate(raw):
            cfg = sc[0]["act"]["cfg"]
            router, files = cfg["router"], bool(cfg.get("files"))
            gid = len(index)
            index[gid] = (gi, si)
            rows, pubnames = [], set()
            for d in sc:
                row = project(d, router, files, pubnames)
                row["scn"] = gid
                rows.append(row)
            if n + len(rows) > 2500 and cur:
                chunks.append(cur)
                cur, n = [], 0
            cur += rows
            n += len(rows)
    if cur:
        chunks.append(cur)
    viols, states, nlines = [], 0, sum(len(c) for c in chunks)

    def do(ci):
        path = os.path.join(ctx.work, "tv-chunk-%d.ndjson" % ci)
        vlib.write_ndjson(path, chunks[ci])
        res = vlib.run_tlc(ctx, FAMILY, "TraceReplayTrace", "TraceReplayTrace.cfg", mode="trace", files={"trace.ndjson": path},
                           timeout=900, name="tv-%d" % ci)
        if res.hw is None or res.hw[0] < res.hw[1]:
            raise vlib.Inconclusive("trace validation stopped early (chunk %d, high water %s): %s (see %s/tlc.out)" %
                                    (ci, res.hw, res.errors[:2], res.dir))
        return res.printed("VIOL"), res.distinct

    with cf.ThreadPoolExecutor(max_workers=max(1, min(vlib.NCPU // 2, len(chunks), 4))) as ex:
        for vs, st in ex.map(do, range(len(chunks))):
            viols += vs
            states += st
    return viols, states, nlines, index


BRANCHES = ["graft:unknown-topic", "graft:already-in-mesh", "graft:direct-peer", "graft:backoff", "graft:negative-score",
            "graft:mesh-full-inbound", "graft:accepted", "graft:accepted-at-Dhi-outbound",
            "prune:unknown-topic", "prune:member", "prune:non-member",
            "hb:graft-below-Dlo", "hb:graft-outbound-quota", "hb:graft-opportunistic", "hb:prune-negative-score", "hb:prune-excess",
            "join:fresh", "join:from-fanout", "leave:with-mesh", "leave:empty-mesh",
            "subscribe:not-first-no-JOIN", "cancel:not-last-no-LEAVE", "subscribe:fanout-only-no-JOIN"]


def branches(br, cfg, prev, d, act):
    """Which side of the conditionals next to the trace call sites of gossipsub.go / pubsub.go a validated step line
    exercised, decided from the stimulus and the snapshot BEFORE the step in the order the code tests them. Only counted
    (coverage obligations); whether the trace is right on that line is P_C19_Mesh / P_C19_Alternate's business."""
    def hit(k):
        br[k] = br.get(k, 0) + 1
    tev = d.get("tev", [])
    a, p, t = act["a"], act.get("p", ""), act.get("t", "")
    mesh = prev.get("mesh", {})
    got = lambda field: any(e["type"] == "RECV_RPC" and e["p"] == p and t in e["rpc"].get(field, []) for e in tev)
    if a == "graft" and got("graft"):
        dhi = cfg.get("Dhi", 5)
        if t not in mesh:
            hit("graft:unknown-topic")
        elif p in mesh[t]:
            hit("graft:already-in-mesh")
        elif p in prev.get("direct", []):
            hit("graft:direct-peer")
        elif prev.get("backoff", {}).get(t, {}).get(p, 0) > d["t"]:
            hit("graft:backoff")
        elif prev.get("scores", {}).get(p, 0) < 0:
            hit("graft:negative-score")
        elif len(mesh[t]) >= dhi and not prev.get("outbound", {}).get(p):
            hit("graft:mesh-full-inbound")
        else:
            hit("graft:accepted")
            if len(mesh[t]) >= dhi:
                hit("graft:accepted-at-Dhi-outbound")
    if a == "prune" and got("prune"):
        hit("prune:unknown-topic" if t not in mesh else "prune:member" if p in mesh[t] else "prune:non-member")
    if a == "hb":
        for e in tev:
            m = mesh.get(e["topic"], [])
            if e["type"] == "GRAFT" and e["topic"] in mesh:
                if len(m) < cfg.get("Dlo", 2):
                    hit("hb:graft-below-Dlo")
                elif prev.get("outbound", {}).get(e["p"]) and not any(prev.get("outbound", {}).get(x) for x in m):
                    hit("hb:graft-outbound-quota")
                else:
                    hit("hb:graft-opportunistic")
            if e["type"] == "PRUNE" and e["p"] in m:
                hit("hb:prune-negative-score" if prev.get("scores", {}).get(e["p"], 0) < 0 else "hb:prune-excess")
    joined = lambda st: {x for x in set(st.get("subs", {})) | set(st.get("relays", {}))}
    for e in tev:
        if e["type"] == "JOIN":
            hit("join:from-fanout" if prev.get("fanout", {}).get(e["topic"]) else "join:fresh")
        if e["type"] == "LEAVE":
            hit("leave:with-mesh" if mesh.get(e["topic"]) else "leave:empty-mesh")
    if a in ("subscribe", "relay", "bsub") and not any(e["type"] == "JOIN" for e in tev):
        fo = d["st"].get("myTopics", {}).get(t, {}).get("fanoutOnly")
        if fo:
            hit("subscribe:fanout-only-no-JOIN")
        elif t in joined(prev):
            hit("subscribe:not-first-no-JOIN")
    if a in ("cancel", "unrelay", "bcancel") and not any(e["type"] == "LEAVE" for e in tev) and t in joined(d["st"]) and t in mesh:
        hit("cancel:not-last-no-LEAVE")


PUSH_SITES = ["announce", "announce-retry", "gossipsub:urgent", "gossipsub:non-urgent", "gossipsub:split", "gossipsub:batch",
              "floodsub:publish", "randomsub:publish"]


def push_sites(ps, cfg, d, act):
    """Which SEND_RPC/DROP_RPC call site each push seen by the queue hook came from, and its outcome (ok / full):
    pubsub.go announce and doAnnounceRetry; gossipsub.go doSendRPC urgent and non-urgent, the split path of sendRPC,
    the batch path; floodsub.go and randomsub.go Publish. Counted only; P_C19_Rpc judges each of these lines."""
    router, a = cfg["router"], act["a"]
    l = d["push"]["list"]
    nmsg = sum(1 for x in l if x["rpc"]["msgs"])
    for x in l:
        r = x["rpc"]
        if r["subs"]:
            site = "announce" if a in ("subscribe", "cancel", "relay", "unrelay", "bsub", "bcancel") else "announce-retry"
        elif router != "gossipsub":
            site = router + ":publish" if r["msgs"] else None
        elif x["urgent"]:
            site = "gossipsub:urgent"
        elif a == "pubbatch" and r["msgs"]:
            site = "gossipsub:batch"
        elif a == "iwant" and r["msgs"] and nmsg >= 2 and cfg.get("maxMsg"):
            site = "gossipsub:split"      # one IWANT gets one reply RPC; several pushes with messages = its fragments
        else:
            site = "gossipsub:non-urgent"
        if site:
            k = site + (":ok" if x["ok"] else ":full")
            ps[k] = ps.get(k, 0) + 1


def coverage(groups):
    """Coverage obligations measured on the validated real lines."""
    cov = {"types": {}, "routers": {}, "mesh_peer_disconnect": 0, "drop_refused_push": 0, "drop_without_push": 0,
           "leave_with_mesh": 0, "rejoin_cycles": {}, "batch_publish": 0, "files_lines": 0, "hb_graft": 0, "hb_prune": 0,
           "remote_graft": 0, "remote_prune": 0, "announce_retry_send": 0, "unresolved_publication": 0, "lines_with_push": 0,
           "rejected_local_publication": 0, "local_only_publication": 0, "branches": {},
           "push_sites": {}, "batch_local_only_to_subscriber": 0, "batch_mixed": 0}
    for name, raw, _ in groups:
        for sc in raw:
            router = sc[0]["act"]["cfg"]["router"]
            cov["routers"][router] = cov["routers"].get(router, 0) + 1
            prev_mesh, joins, prev = {}, {}, sc[0]["st"]
            for d in sc:
                act = d["act"].get("c19", d["act"])
                if act["a"] == "files":
                    cov["files_lines"] += 1
                    continue
                if router == "gossipsub" and act["a"] != "reset":
                    branches(cov["branches"], sc[0]["act"]["cfg"], prev, d, act)
                prev = d["st"]
                tev = d.get("tev", [])
                for e in tev:
                    cov["types"][e["type"]] = cov["types"].get(e["type"], 0) + 1
                    if e["type"] == "ON_CLOSED_OUTBOUND_STREAM" and any(e["p"] in ps for ps in prev_mesh.values()):
                        cov["mesh_peer_disconnect"] += 1
                    if e["type"] == "LEAVE" and prev_mesh.get(e["topic"]):
                        cov["leave_with_mesh"] += 1
                    if e["type"] == "JOIN":
                        joins[e["topic"]] = joins.get(e["topic"], 0) + 1
                    if e["type"] == "PUBLISH_MESSAGE" and e["m"].startswith("#"):
                        cov["unresolved_publication"] += 1
                ndrop = sum(1 for e in tev if e["type"] == "DROP_RPC")
                if act["a"] == "pubbatch" and isinstance(act.get("ls"), list):
                    loc = {m for m, f in zip(act["ms"], act["ls"]) if f}
                    cov["batch_mixed"] += bool(loc) and len(loc) < len(act["ms"])
                    cov["batch_local_only_to_subscriber"] += any(x["m"] in loc and x["sub"] != "publish-error" for x in d["deliv"])
                if "push" in d:
                    push_sites(cov["push_sites"], sc[0]["act"]["cfg"], d, act)
                    cov["lines_with_push"] += 1
                    if d["push"]["full"] > 0:
                        cov["drop_refused_push"] += 1
                    if ndrop > d["push"]["full"]:
                        cov["drop_without_push"] += 1
                if act["a"] == "pubbatch":
                    cov["batch_publish"] += 1
                if act["a"] in ("publish", "pubbatch") and any(e["type"] == "REJECT_MESSAGE" and e["via"] == "self" for e in tev) \
                        and any(e["type"] == "PUBLISH_MESSAGE" for e in tev):
                    cov["rejected_local_publication"] += 1
                if act["a"] == "publish" and act.get("localOnly") and any(e["type"] == "DELIVER_MESSAGE" for e in tev):
                    cov["local_only_publication"] += 1
                if act["a"] == "hb":
                    cov["hb_graft"] += any(e["type"] == "GRAFT" for e in tev)
                    cov["hb_prune"] += any(e["type"] == "PRUNE" for e in tev)
                if act["a"] == "graft":
                    cov["remote_graft"] += any(e["type"] == "GRAFT" for e in tev)
                if act["a"] == "prune":
                    cov["remote_prune"] += any(e["type"] == "PRUNE" for e in tev)
                if act["a"] in ("hb", "adv", "gate") and any(e["type"] == "SEND_RPC" and e["rpc"].get("subs") for e in tev):
                    cov["announce_retry_send"] += 1
                prev_mesh = d["st"].get("mesh", {})
            if any(n >= 2 for n in joins.values()):
                cov["rejoin_cycles"][router] = cov["rejoin_cycles"].get(router, 0) + 1
    return cov


def report(ctx, viols, index, groups):
    """Printed VIOL records -> violations with machine-matchable signatures and replay files."""
    seen = {}
    for v in viols:
        gi, si = index[v["line"]["scn"]]
        name, rawg, inputs = groups[gi]
        sc = rawg[si]
        k = kind_of(v)
        sig = {"router": v["line"]["router"], "kind": k, "act": v["line"]["a"]}
        key = (v["pred"], json.dumps(sig, sort_keys=True))
        bad = next((d for d in sc if d["i"] == v["line"]["i"]), None)
        detail = "%s (%s) at step %d (%s) of a %s scenario under %s: %s" % (
            v["pred"], k, v["line"]["i"], v["line"]["a"], name, v["line"]["router"], json.dumps(v["info"], sort_keys=True)[:400])
        if key not in seen:
            seen[key] = {"driver": name, "scenario": inputs[si] if si < len(inputs) else None, "failing_step": v["line"]["i"],
                         "line": {k2: bad[k2] for k2 in ("i", "t", "act", "tev", "ev", "deliv", "push") if bad and k2 in bad},
                         "st": {k2: bad["st"].get(k2) for k2 in ("subs", "relays", "mesh", "gsPeers", "rsPeers", "peers")} if bad and "st" in bad else None}
        vlib.add_violation(ctx, v["pred"], sig, detail, seen[key])


def run_replay(ctx):
    """bin/check C19 --replay <file>: re-run the scenario of a replay file on the real node and judge it again."""
    rp = json.load(open(ctx.replay)).get("replay") or {}
    scn = rp.get("scenario")
    if not scn:
        raise vlib.Inconclusive("replay file holds no scenario")
    if rp.get("driver") == "c19":
        groups = [("c19", run_driver(ctx, "replay", [scn]), [scn])]
    else:
        inp, outp = os.path.join(ctx.work, "replay.scn.ndjson"), os.path.join(ctx.work, "replay.ndjson")
        scn = dict(scn, cfg=dict(scn["cfg"], keepPB=True))
        vlib.write_ndjson(inp, [scn])
        r = vlib.run_go(ctx, "./drivers/router/", "^TestRouterReplay$", env={"VERIF_IN": inp, "VERIF_OUT": outp}, name="replay")
        if r["rc"] != 0 or not os.path.exists(outp):
            raise vlib.Inconclusive("driver TestRouterReplay failed (rc=%s), see %s" % (r["rc"], r["log"]))
        groups = [("routerwalk", split_raw(vlib.read_ndjson(outp)), [scn])]
    viols, st, nlines, index = validate(ctx, groups)
    report(ctx, viols, index, groups)
    return vlib.finish(ctx, LEVEL, {"states": st, "transitions": nlines, "traces_validated_against_impl": 1, "evaluations": nlines * 6,
                                    "distinct_nontrivial": 1, "rule": "replay of one recorded scenario", "exhaustive": False,
                                    "samples": [{"driver": groups[0][0], "acts": scn["acts"][:10]}]}, ["replay of one scenario"])


def run(ctx):
    if ctx.replay:
        return run_replay(ctx)
    rng = random.Random(ctx.seed)
    states, transitions, samples = 0, 0, []
    # 1. model level: the replay of the router model's own events rebuilds its state at every quiet state
    mc = vlib.run_tlc(ctx, FAMILY, "MCTraceReplay", "MCTraceReplay.cfg", timeout=900, name="mc", workers=4)
    vlib.require_mc_ok(ctx, mc, "MCTraceReplay (2 peers, 2 topics, 2 messages, queue capacity 1)")
    states += mc.distinct; transitions += mc.generated
    mcinfo = {"MCTraceReplay": [mc.distinct, mc.generated]}
    # non-vacuity: each seeded defect of the emitting side must break the corresponding predicate
    for cfgname, prop in (("MCTraceReplayD8.cfg", "P_C19_Alternate"), ("MCTraceReplayNoClose.cfg", "P_C19_Peers"),
                          ("MCTraceReplayNoCloseMesh.cfg", "P_C19_Mesh"), ("MCTraceReplayNoPrune.cfg", "P_C19_Mesh"),
                          ("MCTraceReplayBatch2.cfg", "P_C19_Deliver")):
        bug = vlib.run_tlc(ctx, FAMILY, "MCTraceReplay", cfgname, timeout=600, name="mc-" + cfgname[13:-4], workers=4)
        vlib.require_mc_fails(ctx, bug, cfgname, prop)
        mcinfo[cfgname] = "violates %s as required" % prop
    if ctx.thorough:
        mc3 = vlib.run_tlc(ctx, FAMILY, "MCTraceReplay", "MCTraceReplay3.cfg", timeout=1500, name="mc3", workers=min(vlib.NCPU, 4))
        vlib.require_mc_ok(ctx, mc3, "MCTraceReplay3 (3 peers, 1 topic)", allow_timeout=True)
        states += mc3.distinct; transitions += mc3.generated
        mcinfo["MCTraceReplay3"] = [mc3.distinct, mc3.generated]

    # 2. scenarios: TLC-generated stimulus sequences (sampled by seed), targeted scripts, seeded walks
    L = 6 if ctx.thorough else 5
    g = vlib.run_tlc(ctx, FAMILY, "GenTraceReplay",
                     vlib.cfg_text(constants={"Peers": '{"p1", "p2"}', "Topics": '{"T1"}', "L": L, "MaxMsgs": 2}, invariants=["Emit"]),
                     timeout=900, name="gen", heap="6g", workers=4)
    vlib.require_mc_ok(ctx, g, "GenTraceReplay L=%d" % L)
    gen = g.printed("SCN")
    if not gen:
        raise vlib.Inconclusive("generator emitted nothing")
    states += g.distinct; transitions += g.generated
    # keep the sequences in which something the trace must rebuild can happen
    gen = [s for s in gen if any(x["a"] == "peer" for x in s["acts"]) and any(x["a"] in ("subscribe", "relay") for x in s["acts"])]
    per_router = 600 if ctx.thorough else 110
    nwalks, wsteps = (60, 70) if ctx.thorough else (10, 45)
    scns = scripted()
    for router in ROUTERS:
        pick = gen if len(gen) <= per_router else rng.sample(gen, per_router)
        scns += [from_gen(s, router) for s in pick]
        scns += [walk(rng, router, wsteps) for _ in range(nwalks)]
    ctx.log("scenarios: %d generated by TLC (of %d eligible, L=%d), %d scripted, %d walks" %
            (sum(1 for s in scns if s["src"] == "gen"), len(gen), L, sum(1 for s in scns if s["src"] == "scripted"),
             sum(1 for s in scns if s["src"] == "walk")))

    # 3. replay on real nodes
    raw = run_driver(ctx, "c19", scns)
    groups = [("c19", raw, scns)]
    cw, cs = (40, 70) if ctx.thorough else (8, 50)
    rawc, scnc = run_common_walks(ctx, "routerwalk", cw, cs, {"keepPB": True, "score": True})
    groups.append(("routerwalk", rawc, scnc))
    if ctx.thorough:
        # (default queue size: with a small queue a refused announce leaves PubSub.announceRetry asleep when the common
        # driver ends the scenario, which synctest reports as a deadlock; full queues are exercised by the C19 driver)
        rawq, scnq = run_common_walks(ctx, "routerwalk-flood", 20, 70, {"keepPB": True, "score": False, "flood": True})
        groups.append(("routerwalk-flood", rawq, scnq))
    nscn = sum(len(r) for _, r, _ in groups)
    ctx.log("recorded %d scenarios, %d step lines" % (nscn, sum(len(s) for _, r, _ in groups for s in r)))

    # 4. trace validation by TLC
    viols, st, nlines, index = validate(ctx, groups)
    states += st; transitions += nlines
    report(ctx, viols, index, groups)

    # 5. coverage obligations (only meaningful when nothing failed: a failing tree may stop short of them)
    cov = coverage(groups)
    missing = [t for t in REBUILD_TYPES if not cov["types"].get(t)]
    missing += ["router:" + r for r in ROUTERS if not cov["routers"].get(r)]
    missing += ["rejoin-cycle:" + r for r in ROUTERS if not cov["rejoin_cycles"].get(r)]
    for k in ("mesh_peer_disconnect", "drop_refused_push", "drop_without_push", "leave_with_mesh", "batch_publish", "files_lines",
              "hb_graft", "hb_prune", "remote_graft", "remote_prune", "announce_retry_send", "lines_with_push",
              "rejected_local_publication", "local_only_publication"):
        if not cov[k]:
            missing.append(k)
    missing += [b for b in BRANCHES if not cov["branches"].get(b)]
    missing += ["push " + k + o for k in PUSH_SITES for o in (":ok", ":full") if not cov["push_sites"].get(k + o)]
    missing += [k for k in ("batch_mixed", "batch_local_only_to_subscriber") if not cov[k]]
    if missing and not ctx.violations:
        raise vlib.Inconclusive("coverage obligation not met: never observed on the real node: %s" % missing)

    nontrivial = set()
    for name, rawg, inputs in groups:
        for si, sc in enumerate(rawg):
            types = {e["type"] for d in sc for e in d.get("tev", [])} & set(REBUILD_TYPES)
            if len(types) >= 3:
                nontrivial.add(json.dumps([d["act"] for d in sc[1:]], sort_keys=True))
    for name, rawg, inputs in groups:
        sc = rawg[len(rawg) // 2]
        samples.append({"driver": name, "router": sc[0]["act"]["cfg"]["router"],
                        "trace": [{"act": d["act"], "tev": [{k: v for k, v in e.items() if v not in ("", {}, [])} for e in d.get("tev", [])
                                                            if e["type"] != "RECV_RPC"][:8]} for d in sc[1:7]]})
    evid = {"states": states, "transitions": transitions, "traces_validated_against_impl": nscn, "samples": samples,
            "evaluations": nlines * 6, "distinct_nontrivial": len(nontrivial),
            "rule": "one evaluation = one of the six predicates on one quiet step line of a real node; a scenario is non-trivial when its "
                    "trace contains at least three of the ten state-bearing event types; distinct by the sequence of stimuli",
            "exhaustive": False, "step_lines": nlines, "coverage": cov, "mc": mcinfo,
            "generator": {"L": L, "eligible": len(gen), "sampled_per_router": min(per_router, len(gen))}}
    return vlib.finish(ctx, LEVEL, evid, [
        "a step line is a quiet state: synctest.Wait() returned, so every goroutine of the node is parked and every emitted event has reached the tracer",
        "the snapshot (router peer set, meshes, subscriptions, relays, queues) is taken inside the event loop by the verif-tagged read-only export",
        "RawTracer callbacks and EventTracer events are produced by the same pubsubTracer methods; they are compared only to catch corrupt event "
        "constructors, the state comparison uses the snapshot, the wire and the queue hook",
        "messages are delivered at most once only within the seen-cache TTL (120 s); scenarios stay below it",
        "RemoteTracer is not exercised (it needs a collector peer; its buffering is the same basicTracer as the file tracers)",
        "joined topics = topics with a subscription or relay that are not fanout-only (a subscription on a fanout-only topic does not join; "
        "Topic.Relay refuses fanout-only topics)"])
