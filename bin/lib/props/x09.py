"""X09 - the Topic / Subscription / TopicEventHandler / topic-validator API state machine (extension family; topic.go,
subscription.go, the API cases of pubsub.go's event loop, validator registration in validation.go).

spec/topicapi: TopicApi (ONE sequential reference machine as pure operators + the PROPERTIES X09.a-h block),
MCTopicApi (exhaustive exploration with history-only monitors; one seeded defect per predicate MUST fail),
TopicApiImpl (code-grain concurrency model: Topic.mux, event-loop turns, notifySubs, RelayCancelFunc; seeded / as-found
variants MUST fail), GenTopicApi / GenTopicApiConc (scenario generators), TopicApiTrace (deterministic replay of step lines of
ONE real node driven from one goroutine), TopicApiLin (linearisation of call/return histories of concurrent callers).

Findings (known_findings.txt): X09-F1 a REFUSED Join(t, WithTopicMessageIdFn f) replaces the message-id function of the open
topic (and the function survives Close); X09-F2 two overlapping calls of the same RelayCancelFunc release two references."""
import concurrent.futures as cf
import hashlib, json, os, random, re, subprocess
from .. import vlib

LEVEL = "model_checking"
FAMILY = "topicapi"
DEV = os.environ.get("VERIF_X09_DEV", "")          # development aids (say so in the evidence): "nomc", "noconc", "noseq"


def S(*xs):
    return "{" + ", ".join('"%s"' % x for x in xs) + "}"


def I(*xs):
    return "{" + ", ".join(str(x) for x in xs) + "}"


# ----------------------------------------------------------------------------- model checking
MC_BASE = {"L": 7, "Dev": "{}", "IdFn": '"name"', "NPeers": 2, "MaxH": 2, "MaxS": 2, "MaxR": 2, "MaxE": 1, "MaxM": 2, "Caps": I(1),
           "Vals": S("accept", "reject"), "JoinOpts": S("")}
MC_ALPHA = {"handle": S("join", "close", "sub", "cancel", "relay", "unrelay", "evh", "evcancel", "psub"),
            "delivery": S("join", "sub", "cancel", "next", "pub", "publocal", "close"),
            "net": S("psub", "relay", "unrelay", "cancel", "reg", "unreg", "pub", "rmsg", "next"),
            "joinopt": S("join", "close", "sub", "pub")}
MC_ALL = ["AllHold", "MachineOK", "P_X09_c_ExactlyCapKept"]
# seeded model defect -> (alphabet, the predicate that MUST fail, constant overrides)
MC_SEEDED = [
    ("closeIgnoresSubs", "handle", "P_X09_a_CloseIffNothingOutstanding", {}),
    ("closeIgnoresRelays", "handle", "P_X09_a_CloseIffNothingOutstanding", {}),
    ("closeIgnoresEvh", "handle", "P_X09_a_CloseIffNothingOutstanding", {}),
    ("closedHandleWorks", "handle", "P_X09_a_ClosedHandleInert", {}),
    ("secondJoinReplaces", "handle", "P_X09_a_OneHandlePerTopic", {}),
    ("cancelNotIdempotent", "handle", "P_X09_a_SubscriptionCount", {}),
    ("unrelayNotIdempotent", "handle", "P_X09_a_CloseIffNothingOutstanding", {}),
    ("gtCountsRelays", "handle", "P_X09_a_GetTopicsIsSubscriptions", {}),
    ("blockingSend", "delivery", "P_X09_c_LoopNeverBlocks", {}),
    ("capOffByOne", "delivery", "P_X09_c_ExactlyCapKept", {"Caps": I(2)}),
    ("dropNotTraced", "delivery", "P_X09_c_EachDropTracedOnce", {}),
    ("cancelLosesBuffer", "delivery", "P_X09_d_DrainBeforeCancelled", {}),
    ("localOnlySent", "delivery", "P_X09_f_LocalOnlyNotSent", {}),
    ("dupValidatorReplaces", "net", "P_X09_e_FirstValidatorStays", {}),
    ("unregAbsentOk", "net", "P_X09_e_UnregisterAbsentErrors", {}),
    ("rejectNotSeen", "net", "P_X09_f_RejectedIsSeen", {}),
    ("noInterestStillAccepts", "net", "P_X09_g_NoInterestIgnored", {}),
    ("joinOptLeaks", "joinopt", "P_X09_a_RefusedCallNoEffect", {"JoinOpts": S("", "K")}),      # the code as found: finding X09-F1
]
IMPL_BASE = {"Callers": "{c1, c2, c3}", "Menu": S("sub", "relay", "evh", "pub", "close", "join", "psub", "cancel1", "unrelay1", "evcancel"), "Cap": 1,
             "InitSubs": 1, "InitRelays": 2, "InitEvh": 1, "UseMux": True, "RelayFlagAtomic": True, "NonBlockingSend": True, "CancelCloses": True,
             "Readers": True}
IMPL_SAFE = ["TypeOK", "P_X09_b_NoLiveSubOnClosedTopic", "P_X09_b_RegisteredIsOpen", "P_X09_b_RelayReleasedOnce", "P_X09_d_NothingAfterCancelled",
             "P_X09_c_AtMostOnce"]


def mc_jobs(ctx):
    jobs = []          # (name, module, cfg text, want, predicate that must fail, timeout)

    def mc(name, alpha, dev, invs, over, want, prop=None):
        c = dict(MC_BASE)
        c.update(over)
        c["Alpha"] = MC_ALPHA[alpha]
        c["Dev"] = S(*dev)
        jobs.append((name, "MCTopicApi", vlib.cfg_text(constants=c, invariants=invs), want, prop, 900))

    def impl(name, invs, props, over, want, prop=None, fair=False):
        c = dict(IMPL_BASE)
        c.update(over)
        jobs.append((name, "TopicApiImpl", vlib.cfg_text(spec="FairSpec" if fair else "Spec", constants=c, invariants=invs, properties=props),
                     want, prop, 900))
    big = ctx.thorough
    mc("machine-handle", "handle", [], MC_ALL, {"L": 11 if big else 9, "MaxS": 3 if big else 2, "MaxE": 2}, "ok")
    mc("machine-delivery", "delivery", [], MC_ALL, {"L": 9 if big else 7, "Caps": I(1, 2), "MaxM": 3}, "ok")
    mc("machine-net", "net", [], MC_ALL, {"L": 9 if big else 7}, "ok")
    mc("machine-joinopt-repaired", "joinopt", [], MC_ALL, {"JoinOpts": S("", "K")}, "ok")
    for d, alpha, prop, over in MC_SEEDED:
        mc("seeded-" + d, alpha, [d], [prop], over, "fail", prop)
    impl("impl-busy", IMPL_SAFE, [], {}, "ok")
    impl("impl-idle", IMPL_SAFE, [], {"InitSubs": 0, "InitRelays": 0, "InitEvh": 0, "Menu": S("sub", "relay", "evh", "pub", "close", "join", "psub")}, "ok")
    impl("impl-one", IMPL_SAFE, [], {"InitSubs": 1, "InitRelays": 1, "InitEvh": 0, "Menu": S("sub", "pub", "close", "psub", "cancel1", "unrelay1")}, "ok")
    idle2 = {"InitSubs": 0, "InitRelays": 0, "InitEvh": 0, "Callers": "{c1, c2}"}
    impl("impl-seeded-nomux-sub", ["P_X09_b_NoLiveSubOnClosedTopic"], [], dict(idle2, UseMux=False, Menu=S("sub", "close")), "fail", "P_X09_b_NoLiveSubOnClosedTopic")
    impl("impl-seeded-nomux-relay", ["P_X09_b_NoLiveSubOnClosedTopic"], [], dict(idle2, UseMux=False, Menu=S("relay", "close")), "fail", "P_X09_b_NoLiveSubOnClosedTopic")
    impl("impl-asfound-relayrace", ["P_X09_b_RelayReleasedOnce"], [], {"RelayFlagAtomic": False, "Callers": "{c1, c2}", "Menu": S("unrelay1")}, "fail",
         "P_X09_b_RelayReleasedOnce")                                                                                       # finding X09-F2
    impl("impl-live", [], ["P_X09_c_CallsReturn"], {"Readers": False, "Menu": S("pub", "sub", "close", "cancel1")}, "ok", fair=True)
    impl("impl-seeded-blockingsend", [], ["P_X09_c_CallsReturn"], {"Readers": False, "NonBlockingSend": False, "Menu": S("pub", "sub")}, "fail",
         "P_X09_c_CallsReturn", fair=True)
    impl("impl-wake", [], ["P_X09_d_CancelWakes"], {"Callers": "{c1, c2}", "Menu": S("pub", "cancel1")}, "ok", fair=True)
    impl("impl-seeded-noclose", [], ["P_X09_d_CancelWakes"], {"CancelCloses": False, "Callers": "{c1, c2}", "Menu": S("pub", "cancel1")}, "fail",
         "P_X09_d_CancelWakes", fair=True)
    return jobs


def model_checking(ctx):
    jobs = mc_jobs(ctx)

    def one(j):
        name, module, cfg, want, prop, to = j
        return name, vlib.run_tlc(ctx, FAMILY, module, cfg, timeout=to, name=name, workers=2 if (want == "ok" and ctx.thorough) else 1, heap="3g")
    res = {}
    with cf.ThreadPoolExecutor(max_workers=4) as ex:
        for name, r in ex.map(one, jobs):
            res[name] = r
    states = transitions = 0
    summary = {}
    for name, module, cfg, want, prop, to in jobs:
        r = res[name]
        if want == "ok":
            vlib.require_mc_ok(ctx, r, name)
            states += r.distinct
            transitions += r.generated
        else:
            if prop not in r.violated and not (prop in ("P_X09_c_CallsReturn", "P_X09_d_CancelWakes") and "Temporal properties were violated" in r.out):
                raise vlib.Inconclusive("%s: expected %s to be violated (non-vacuity), got %s (see %s/tlc.out)" % (name, prop, r.violated, r.dir))
        summary[name] = [r.distinct, r.generated, "%.0fs" % r.wall, want]
    return states, transitions, summary


# ----------------------------------------------------------------------------- generators (cached: a function of spec text + constants)
class _Gen:
    def __init__(self, distinct, generated):
        self.distinct, self.generated = distinct, generated


def _gen_cached(ctx, key_parts, module, runner):
    h = hashlib.sha1()
    for f in ("TopicApi.tla", module + ".tla"):
        h.update(open(os.path.join(vlib.SPEC, FAMILY, f), "rb").read())
    h.update(json.dumps(key_parts, sort_keys=True, default=str).encode())
    d = os.path.join(vlib.WORK, ".x09-gencache")
    os.makedirs(d, exist_ok=True)
    path = os.path.join(d, h.hexdigest()[:20] + ".json")
    if os.path.exists(path) and not os.environ.get("VERIF_X09_NOCACHE"):
        try:
            c = json.load(open(path))
            os.utime(path)
            return c["scns"], _Gen(c["distinct"], c["generated"])
        except Exception:
            pass
    got, g = runner()
    tmp = path + ".%d.tmp" % os.getpid()
    with open(tmp, "w") as f:
        json.dump({"scns": got, "distinct": g.distinct, "generated": g.generated}, f)
    os.replace(tmp, path)
    _prune_cache(d)
    return got, _Gen(g.distinct, g.generated)


def _prune_cache(d, max_bytes=400 << 20):
    """The cache is keyed by spec text: entries of older spec versions are dead weight. Keep the most recently used ones."""
    try:
        ent = sorted(((os.path.getatime(os.path.join(d, f)), os.path.getsize(os.path.join(d, f)), f) for f in os.listdir(d) if f.endswith(".json")), reverse=True)
        tot = 0
        for at, sz, f in ent:
            tot += sz
            if tot > max_bytes:
                os.remove(os.path.join(d, f))
    except OSError:
        pass


OPF = ["o", "t", "h", "s", "r", "e", "cap", "m", "mode", "v", "inl", "to", "conc", "opt", "p", "pv"]
OPD = {"o": "", "t": "", "h": 0, "s": 0, "r": 0, "e": 0, "cap": 0, "m": "", "mode": "", "v": "", "inl": False, "to": 0, "conc": 0, "opt": "", "p": "", "pv": False}


def dec(s):
    """Operation as the generators encode it -> record without the fields at their defaults."""
    p = s.split("|")
    o = {}
    for k, x in zip(OPF, p):
        d = OPD[k]
        v = (x == "1") if isinstance(d, bool) else (int(x) if isinstance(d, int) else x)
        if v != d:
            o[k] = v
    return o


def full(o):
    r = dict(OPD)
    r.update({k: v for k, v in o.items() if k in OPD})
    return r


def run_gen(ctx, module, consts, name, simulate=None, depth=None, timeout=900):
    def runner():
        cfg = vlib.cfg_text(constants=consts, invariants=["Emit"])
        kw = {"mode": "sim", "simulate": simulate, "depth": depth} if simulate else {}
        g = vlib.run_tlc(ctx, FAMILY, module, cfg, timeout=timeout, name="gen-" + name, heap="4g", workers=1 if simulate else 2, **kw)
        if not simulate:
            vlib.require_mc_ok(ctx, g, "generator " + name)
        got = g.printed("SCN")
        if not got:
            raise vlib.Inconclusive("generator %s emitted nothing (see %s/tlc.out)" % (name, g.dir))
        return got, g
    return _gen_cached(ctx, [module, consts, simulate, ctx.seed if simulate else 0], module, runner)


GEN_BASE = {"L": 4, "Alpha": S("join"), "GT": S("A"), "Caps": I(0), "Modes": S(""), "Vals": S("accept"), "JoinOpts": S(""),
            "MaxH": 2, "MaxS": 2, "MaxR": 2, "MaxE": 1, "MaxM": 4, "Router": '"floodsub"', "IdFn": '"uniq"', "NPeers": 0, "PSubs1": "{}", "PSubs2": "{}",
            "ProName": '"none"', "Class": '"x"'}
HANDLE = ("join", "close", "sub", "cancel", "relay", "unrelay", "evh", "evcancel", "psub")
ALLMODES = ("", "local", "key", "nilkey", "emptypid", "localnilkey", "vd", "ready2", "readyto")
NET = {"NPeers": 2, "PSubs1": S("A"), "PSubs2": S("A")}


def seq_plan(ctx):
    """(class, constant overrides, number replayed at the quick tier, at the thorough tier). Every generator is exhaustive up to its
    bound; a class larger than its budget is sampled by seed."""
    t = ctx.thorough
    return [
        ("handle", dict(L=7 if t else 6, Alpha=S(*HANDLE), MaxE=2), 3500, 40000),
        ("handle-2topics", dict(L=5 if t else 4, Alpha=S("join", "close", "sub", "cancel", "relay", "unrelay", "psub"), GT=S("A", "B"), MaxH=3, MaxS=3), 1400, 20000),
        ("delivery", dict(L=7 if t else 6, Alpha=S("sub", "cancel", "next", "pub", "close"), Caps=I(1, 2), ProName='"joinA"', MaxS=2, MaxM=5), 3000, 40000),
        ("closed", dict(L=3, Alpha=S("sub", "relay", "evh", "pub", "addb", "lp", "str", "score", "close", "join", "psub", "ppub", "cancel", "next"),
                        ProName='"closedA"', Caps=I(1)), 1200, 6000),
        ("rejoin", dict(L=4 if t else 3, Alpha=S("sub", "relay", "evh", "pub", "close", "join", "cancel", "next", "unrelay"), ProName='"rejoinA"', Caps=I(1)), 800, 12000),
        ("hidden", dict(L=5 if t else 4, Alpha=S("psub", "ppub", "join", "close", "cancel", "sub", "next", "plp"), Caps=I(1)), 800, 10000),
        ("fanout", dict(L=4, Alpha=S("join", "sub", "cancel", "relay", "pub", "close", "next"), JoinOpts=S("fan"), Caps=I(1)), 1500, 5000),
        ("validators", dict(L=5 if t else 4, Alpha=S("reg", "unreg", "pub", "next", "ppub", "addb"),
                            Vals=S("accept", "reject", "ignore", "bad", "rejectTo") if t else S("accept", "reject", "ignore", "bad", "rejectTo", "rejectBool", "acceptBool", "rejectV", "ignoreEx", "weird"),
                            IdFn='"name"', ProName='"subA12"', MaxM=3), 3000, 25000),
        ("validator-types", dict(L=4 if t else 3, Alpha=S("reg", "unreg", "pub", "next"), Vals=S("reject", "rejectBool", "acceptBool", "rejectV", "ignoreEx", "weird", "bad"),
                                 ProName='"subA12"', MaxM=3), 600, 8000),
        ("validators-handles", dict(L=5 if t else 4, Alpha=S("reg", "unreg", "pub", "join", "close"), Vals=S("reject"), ProName='"joinA"', MaxM=3), 600, 6000),
        ("validators-2topics", dict(L=4 if t else 3, Alpha=S("reg", "unreg", "pub", "next"), GT=S("A", "B"), Vals=S("reject", "ignore"), ProName='"subAB"', MaxM=3), 700, 8000),
        ("modes", dict(L=2, Alpha=S("pub", "reg", "next"), Modes=S(*ALLMODES), Vals=S("reject", "acceptTo"), ProName='"subA12"', MaxM=6, **NET), 1500, 3000),
        ("score-floodsub", dict(L=3, Alpha=S("score", "close", "join"), ProName='"joinA"'), 200, 200),
        ("score-gossipsub", dict(L=3, Alpha=S("score", "close", "join"), ProName='"joinA"', Router='"gossipsub"'), 200, 200),
        ("score-gossipsub-score", dict(L=3, Alpha=S("score", "close", "join", "sub", "pub"), ProName='"joinA"', Router='"gossipsub-score"'), 400, 400),
        ("joinopt", dict(L=5 if t else 4, Alpha=S("join", "close", "pub", "sub", "next"), JoinOpts=S("", "K"), IdFn='"name"', Caps=I(2), MaxM=3), 1500, 8000),
        ("net", dict(L=5 if t else 4, Alpha=S("sub", "cancel", "relay", "unrelay", "rmsg", "pub", "next", "lp"), Caps=I(1), ProName='"joinA"', MaxM=4, **NET), 1000, 9000),
        ("net-validators", dict(L=5 if t else 4, Alpha=S("rmsg", "reg", "unreg", "rel", "next", "cancel"), Caps=I(1),
                                Vals=S("reject", "block1", "block2", "acceptInl") if t else S("reject", "ignore", "block1", "block2", "rejectTo", "acceptInl", "rejectInl", "rejectBool", "weird"),
                                ProName='"subA1"', MaxM=4, **NET), 1200, 9000),
        ("net-rsub", dict(L=4, Alpha=S("rsub", "pub", "rmsg", "lp", "plp", "relay", "close"), ProName='"joinA"', MaxM=3, NPeers=2, PSubs1=S("A"), PSubs2="{}"), 500, 3000),
    ]


def build_seq_scenarios(ctx, rng):
    scns, gs, gt, classes = [], 0, 0, {}
    for name, over, nq, nt in seq_plan(ctx):
        c = dict(GEN_BASE)
        c.update(over)
        c["Class"] = '"%s"' % name
        got, g = run_gen(ctx, "GenTopicApi", c, name)
        gs += g.distinct
        gt += g.generated
        want = nt if ctx.thorough else nq
        if "mini" in DEV:
            want = max(60, want // 6)
        got.sort(key=lambda s: json.dumps(s, sort_keys=True))
        exhaustive = len(got) <= want
        if not exhaustive:
            got = rng.sample(got, want)
        classes[name] = {"generated": g.distinct, "replayed": len(got), "exhaustive": exhaustive}
        scns += got
    # seeded simulation: long mixed sequences over (nearly) the whole alphabet
    n_sim = 300 if not ctx.thorough else 4000
    for name, over in (("long", dict(L=12, Alpha=S(*(HANDLE + ("next", "pub", "ppub", "reg", "unreg", "lp"))), GT=S("A", "B"), Caps=I(1, 2),
                                     Vals=S("accept", "reject", "ignore"), JoinOpts=S("", "fan"), IdFn='"name"', MaxH=4, MaxS=4, MaxR=3, MaxE=2, MaxM=8)),
                       ("long-net", dict(L=10, Alpha=S("sub", "cancel", "relay", "unrelay", "rmsg", "pub", "next", "reg", "unreg", "rel", "close", "join", "rsub"),
                                         Caps=I(1, 2), Vals=S("reject", "block1", "accept"), ProName='"joinA"', MaxH=3, MaxS=3, MaxM=8, **NET))):
        c = dict(GEN_BASE)
        c.update(over)
        c["Class"] = '"%s"' % name
        n = n_sim if name == "long" else n_sim // 3
        got, g = run_gen(ctx, "GenTopicApi", c, name, simulate="num=%d" % n, depth=over["L"] + 4)
        uniq = {}
        for s in got:
            uniq.setdefault(json.dumps(s, sort_keys=True), s)
        got = [uniq[k] for k in sorted(uniq)]
        if len(got) > n:
            got = rng.sample(got, n)
        classes[name] = {"generated": len(got), "replayed": len(got), "exhaustive": False}
        scns += got
    out = []
    for i, s in enumerate(scns + forced_seq()):
        out.append({"id": i, "cfg": s["cfg"], "ops": [dec(o) if isinstance(o, str) else o for o in s["ops"]]})
    classes["forced"] = {"generated": len(forced_seq()), "replayed": len(forced_seq()), "exhaustive": True}
    return out, gs, gt, classes


def forced_seq():
    """Hand-written witnesses of the coverage obligations (replayed in every run whatever the sampling does)."""
    def cfg(router="floodsub", idfn="uniq", peers=0, cls="forced"):
        return {"router": router, "idfn": idfn, "peers": peers, "psubs": {"p1": ["A"] if peers >= 1 else [], "p2": ["A"] if peers >= 2 else []}, "class": cls}
    J = lambda t="A", opt="": {"o": "join", "t": t, "opt": opt} if opt else {"o": "join", "t": t}
    return [
        # buffer boundary with two subscribers of different sizes, drain after cancel, close refused by each kind of reference
        {"cfg": cfg(), "ops": [J(), {"o": "sub", "h": 1, "cap": 1}, {"o": "sub", "h": 1, "cap": 2}, {"o": "pub", "h": 1, "m": "m1"}, {"o": "pub", "h": 1, "m": "m2"},
                               {"o": "pub", "h": 1, "m": "m3"}, {"o": "close", "h": 1}, {"o": "cancel", "s": 1}, {"o": "cancel", "s": 1}, {"o": "next", "s": 1},
                               {"o": "next", "s": 1}, {"o": "next", "s": 2}, {"o": "next", "s": 2}, {"o": "next", "s": 2}, {"o": "pub", "h": 1, "m": "m4"},
                               {"o": "cancel", "s": 2}, {"o": "next", "s": 2}, {"o": "next", "s": 2}, {"o": "relay", "h": 1}, {"o": "close", "h": 1},
                               {"o": "relay", "h": 1}, {"o": "unrelay", "r": 1}, {"o": "unrelay", "r": 1}, {"o": "close", "h": 1}, {"o": "unrelay", "r": 2},
                               {"o": "evh", "h": 1}, {"o": "close", "h": 1}, {"o": "evcancel", "e": 1}, {"o": "evcancel", "e": 1}, {"o": "close", "h": 1},
                               {"o": "close", "h": 1}, {"o": "sub", "h": 1}, {"o": "relay", "h": 1}, {"o": "evh", "h": 1}, {"o": "pub", "h": 1, "m": "m5"},
                               {"o": "lp", "h": 1}, J(), {"o": "sub", "h": 2, "cap": 1}, {"o": "pub", "h": 2, "m": "m6"}, {"o": "next", "s": 3}]},
        # default buffer size: 32 kept, the 33rd dropped
        {"cfg": cfg(), "ops": [J(), {"o": "sub", "h": 1}, {"o": "sub", "h": 1, "cap": 2}] + [{"o": "pub", "h": 1, "m": "d%d" % i} for i in range(1, 34)] +
                              [{"o": "next", "s": 1}, {"o": "pub", "h": 1, "m": "d34"}, {"o": "pub", "h": 1, "m": "d35"}, {"o": "next", "s": 2}]},
        # validators: registry, options, seen-cache after a rejection (local and remote), survival across Close / re-Join
        {"cfg": cfg(idfn="name", peers=2), "ops": [
            J(), {"o": "sub", "h": 1, "cap": 2}, {"o": "reg", "t": "A", "v": "bad"}, {"o": "unreg", "t": "A"}, {"o": "reg", "t": "A", "v": "reject", "to": 300},
            {"o": "reg", "t": "A", "v": "accept"}, {"o": "pub", "h": 1, "m": "m1", "mode": "vd"}, {"o": "rmsg", "p": "p1", "t": "A", "m": "a1"},
            {"o": "unreg", "t": "A"}, {"o": "pub", "h": 1, "m": "m1"}, {"o": "rmsg", "p": "p1", "t": "A", "m": "a1"}, {"o": "pub", "h": 1, "m": "m2"},
            {"o": "rmsg", "p": "p1", "t": "A", "m": "a2"}, {"o": "reg", "t": "A", "v": "ignore", "inl": True}, {"o": "pub", "h": 1, "m": "m3"},
            {"o": "rmsg", "p": "p1", "t": "A", "m": "a3"}, {"o": "cancel", "s": 1}, {"o": "lp", "h": 1}, {"o": "close", "h": 1}, {"o": "lp", "h": 1},
            {"o": "plp", "t": "A"}, J(), {"o": "sub", "h": 2, "cap": 2},
            {"o": "pub", "h": 2, "m": "m4"}, {"o": "rmsg", "p": "p1", "t": "A", "m": "a4"}, {"o": "unreg", "t": "A"}, {"o": "unreg", "t": "A"},
            {"o": "reg", "t": "A", "v": "block", "conc": 2}, {"o": "rmsg", "p": "p1", "t": "A", "m": "a5"}, {"o": "rmsg", "p": "p1", "t": "A", "m": "a6"},
            {"o": "rmsg", "p": "p1", "t": "A", "m": "a7"}, {"o": "rel"}, {"o": "rmsg", "p": "p1", "t": "A", "m": "a8"}, {"o": "rel"}, {"o": "rel"},
            {"o": "next", "s": 2}, {"o": "next", "s": 2}, {"o": "next", "s": 2}, {"o": "unreg", "t": "A"}, {"o": "reg", "t": "A", "v": "block", "conc": 1},
            {"o": "rmsg", "p": "p1", "t": "A", "m": "a9"}, {"o": "rmsg", "p": "p1", "t": "A", "m": "a10"}, {"o": "rel"}, {"o": "rmsg", "p": "p1", "t": "A", "m": "a11"},
            {"o": "rel"}, {"o": "next", "s": 2}, {"o": "next", "s": 2}]},
        # publish options and errors, fanout without own subscription, relay-only forwarding, no interest = ignored and not seen
        {"cfg": cfg(peers=2), "ops": [
            J(), {"o": "pub", "h": 1, "m": "m1"}, {"o": "rmsg", "p": "p1", "t": "A", "m": "a1"}, {"o": "relay", "h": 1}, {"o": "rmsg", "p": "p1", "t": "A", "m": "a1"},
            {"o": "rmsg", "p": "p1", "t": "A", "m": "a1"}, {"o": "sub", "h": 1, "cap": 1}, {"o": "rmsg", "p": "p1", "t": "A", "m": "a2"},
            {"o": "rmsg", "p": "p1", "t": "A", "m": "a3"}, {"o": "unrelay", "r": 1}, {"o": "pub", "h": 1, "m": "k1", "mode": "key"}, {"o": "next", "s": 1},
            {"o": "pub", "h": 1, "m": "l1", "mode": "local"}, {"o": "next", "s": 1}, {"o": "pub", "h": 1, "m": "n1", "mode": "nilkey"},
            {"o": "pub", "h": 1, "m": "e1", "mode": "emptypid"}, {"o": "pub", "h": 1, "m": "x1", "mode": "localnilkey"}, {"o": "next", "s": 1},
            {"o": "pub", "h": 1, "m": "r1", "mode": "ready2"}, {"o": "pub", "h": 1, "m": "r2", "mode": "readyto"}, {"o": "addb", "h": 1, "m": "b1"},
            {"o": "lp", "h": 1}, {"o": "plp", "t": "A"}, {"o": "plp", "t": "B"}, {"o": "rsub", "p": "p2", "t": "A", "pv": False}, {"o": "lp", "h": 1},
            {"o": "pub", "h": 1, "m": "m2"}, {"o": "cancel", "s": 1}, {"o": "rmsg", "p": "p1", "t": "A", "m": "a4"}, {"o": "psub", "t": "B", "cap": 1},
            {"o": "ppub", "t": "B", "m": "m3"}, {"o": "next", "s": 2}, J("B"), {"o": "ppub", "t": "A", "m": "m4"}, {"o": "str", "h": 1}]},
        # the four validator function types, a result outside the enumeration; two event handlers
        {"cfg": cfg(idfn="uniq", peers=1), "ops": [
            J(), {"o": "sub", "h": 1, "cap": 2}, {"o": "reg", "t": "A", "v": "reject", "opt": "bool"}, {"o": "pub", "h": 1, "m": "m1"},
            {"o": "rmsg", "p": "p1", "t": "A", "m": "a1"}, {"o": "unreg", "t": "A"}, {"o": "reg", "t": "A", "v": "accept", "opt": "bool"}, {"o": "pub", "h": 1, "m": "m2"},
            {"o": "unreg", "t": "A"}, {"o": "reg", "t": "A", "v": "reject", "opt": "V"}, {"o": "pub", "h": 1, "m": "m3"}, {"o": "unreg", "t": "A"},
            {"o": "reg", "t": "A", "v": "ignore", "opt": "Ex"}, {"o": "rmsg", "p": "p1", "t": "A", "m": "a2"}, {"o": "unreg", "t": "A"},
            {"o": "reg", "t": "A", "v": "weird"}, {"o": "pub", "h": 1, "m": "m4"}, {"o": "rmsg", "p": "p1", "t": "A", "m": "a3"}, {"o": "next", "s": 1},
            {"o": "next", "s": 1}, {"o": "cancel", "s": 1}, {"o": "evh", "h": 1}, {"o": "evh", "h": 1}, {"o": "evcancel", "e": 1}, {"o": "close", "h": 1},
            {"o": "evcancel", "e": 1}, {"o": "close", "h": 1}, {"o": "evcancel", "e": 2}, {"o": "close", "h": 1}]},
        # fanout-only topic, score parameters on every router flavour
        {"cfg": cfg(router="gossipsub-score"), "ops": [J("A", "fan"), {"o": "relay", "h": 1}, {"o": "sub", "h": 1, "cap": 1}, {"o": "pub", "h": 1, "m": "m1"},
                                                       {"o": "next", "s": 1}, {"o": "score", "h": 1, "v": "valid"}, {"o": "score", "h": 1, "v": "invalid"},
                                                       {"o": "cancel", "s": 1}, {"o": "close", "h": 1}, {"o": "score", "h": 1, "v": "valid"},
                                                       {"o": "score", "h": 1, "v": "invalid"}]},
        {"cfg": cfg(router="gossipsub"), "ops": [J(), {"o": "score", "h": 1, "v": "valid"}, {"o": "sub", "h": 1, "cap": 1}, {"o": "pub", "h": 1, "m": "m1"},
                                                 {"o": "next", "s": 1}]},
        {"cfg": cfg(), "ops": [J(), {"o": "score", "h": 1, "v": "valid"}]},
        # finding X09-F1: a refused Join with a message-id option, and the option surviving Close
        {"cfg": cfg(idfn="name", cls="forced-joinopt"), "ops": [J(), J("A", "K"), {"o": "sub", "h": 1, "cap": 2}, {"o": "pub", "h": 1, "m": "m1"}, {"o": "next", "s": 1}]},
        {"cfg": cfg(idfn="name", cls="forced-joinopt"), "ops": [J("A", "K"), {"o": "pub", "h": 1, "m": "m1"}, {"o": "close", "h": 1}, J(), {"o": "pub", "h": 2, "m": "m2"}]},
    ]


# ----------------------------------------------------------------------------- driver
def build_driver(ctx):
    binp = os.path.join(ctx.work, "x09.test")
    r = vlib.run_go(ctx, "./drivers/x09/", "^$", extra=["-c", "-o", binp], name="build", timeout=900)
    if not os.path.exists(binp):
        raise vlib.Inconclusive("go build of the X09 driver failed (see %s)" % r["log"])
    return binp


def run_shards(ctx, binp, test, scn_file, tag, shards, extra_env=None, timeout=1500):
    def one(k):
        outp = os.path.join(ctx.work, "%s-%d.ndjson" % (tag, k))
        marker = os.path.join(ctx.work, "%s-%d.marker" % (tag, k))
        env = dict(os.environ, VERIF_IN=scn_file, VERIF_OUT=outp, VERIF_SHARDS=str(shards), VERIF_SHARD=str(k), VERIF_MARKER=marker,
                   VERIF_SEED=str(ctx.seed), VERIF_TIER=ctx.tier)
        env.update({k: str(v) for k, v in (extra_env or {}).items()})
        env.pop("VERIF_ONLY", None)
        p = subprocess.run(["timeout", str(timeout), binp, "-test.run", "^%s$" % test, "-test.count", "1", "-test.timeout", "%ds" % (timeout - 60)],
                           cwd=os.path.join(vlib.HARNESS, "drivers", "x09"), env=env, stdout=subprocess.PIPE, stderr=subprocess.STDOUT,
                           text=True, errors="replace")
        with open(os.path.join(ctx.work, "go-%s-%d.log" % (tag, k)), "w") as f:
            f.write(p.stdout)
        return k, p.returncode, p.stdout, outp, marker
    outs, dead = [], []
    with cf.ThreadPoolExecutor(max_workers=shards) as ex:
        for k, rc, out, outp, marker in ex.map(one, range(shards)):
            if rc != 0:
                dead.append((k, rc, out, marker))
            if os.path.exists(outp) and os.path.getsize(outp) > 0:
                outs.append(outp)
    return outs, dead


def handle_dead(ctx, binp, test, scn_file, scns, dead, tag):
    """A dead driver is a violation only if the single scenario alone reproduces a panic inside the library."""
    for k, rc, out, marker in dead:
        idx = None
        try:
            idx = int(open(marker).read().strip())
        except Exception:
            pass
        if "panic:" not in out or idx is None:
            raise vlib.Inconclusive("driver %s shard %d failed (rc=%s) without an attributable panic (see %s/go-%s-%d.log)" % (test, k, rc, ctx.work, tag, k))
        outp = os.path.join(ctx.work, "%s-only-%d.ndjson" % (tag, idx))
        env = dict(os.environ, VERIF_IN=scn_file, VERIF_OUT=outp, VERIF_ONLY=str(idx), VERIF_SHARDS="1")
        p = subprocess.run(["timeout", "300", binp, "-test.run", "^%s$" % test, "-test.count", "1"], cwd=os.path.join(vlib.HARNESS, "drivers", "x09"),
                           env=env, stdout=subprocess.PIPE, stderr=subprocess.STDOUT, text=True, errors="replace")
        if p.returncode != 0 and "panic:" in p.stdout and "go-libp2p-pubsub" in p.stdout.split("panic:", 1)[1][:6000]:
            mm = re.search(r"panic: (.*)", p.stdout)
            vlib.add_violation(ctx, "P_X09_NoPanic", {"cause": "panic", "level": tag},
                               "the library panicked while replaying scenario %d: %s" % (idx, mm.group(1) if mm else "?"),
                               {"level": tag, "scenario": scns[idx], "panic": p.stdout[-3000:]})
        else:
            raise vlib.Inconclusive("driver %s died on scenario %d but the crash is not reproducible in isolation (see %s/go-%s-%d.log)" % (test, idx, ctx.work, tag, k))


# ----------------------------------------------------------------------------- sequential level
def norm_seq(l):
    """Step line -> the fields TopicApiTrace reads, every field always present (python only re-shapes; TLC judges)."""
    if l["e"] == "reset":
        c = l["cfg"]
        ps = c.get("psubs", {})
        return {"e": "reset", "scn": l["scn"], "i": 0, "cfg": {"router": c["router"], "idfn": c["idfn"], "peers": c.get("peers", 0),
                                                                "psubs": {"p1": ps.get("p1", []), "p2": ps.get("p2", [])}}}
    return {"e": "step", "scn": l["scn"], "i": l["i"], "op": full(l["op"]), "res": l["res"], "hung": l["hung"], "late": l["late"], "ev": l["ev"],
            "snd": l["snd"], "vc": l["vc"], "wire": l["wire"], "st": l["st"]}


def validate_files(ctx, module, files, name):
    """Run a deterministic, always-accepting trace spec over chunk files in parallel; collect the VIOL / MODEL / COV prints."""
    def one(arg):
        k, (path, n) = arg
        res = vlib.run_tlc(ctx, FAMILY, module, module + ".cfg", mode="trace", files={"trace.ndjson": path}, timeout=1500, name="%s-%d" % (name, k), heap="3g")
        if res.hw is None or res.hw[0] < res.hw[1] or res.hw[1] != n + 1 or not res.no_error:
            raise vlib.Inconclusive("trace validation %s chunk %d did not process the whole trace (hw=%s, see %s/tlc.out): %s" % (name, k, res.hw, res.dir, res.errors[:2]))
        if res.printed("MODEL"):
            raise vlib.Inconclusive("trace validation %s: the driver performed an operation the machine cannot follow: %s" % (name, res.printed("MODEL")[:1]))
        for f in (path, os.path.join(res.dir, "trace.ndjson")):
            try:
                os.remove(f)
            except OSError:
                pass
        return res.printed("VIOL"), res.printed("COV"), res.distinct
    viols, cov, states = [], [], 0
    with cf.ThreadPoolExecutor(max_workers=4 if not ctx.thorough else 6) as ex:
        for v, c, st in ex.map(one, list(enumerate(files))):
            viols += v
            cov += c
            states += st
    return viols, cov, states


def seq_signature(v, scn):
    if v["cause"] == "joinOptLeaks":
        return {"level": "seq", "cause": "joinOptLeaks"}
    w = v["why"]
    field = next((f for f in ("res", "st", "vc", "ev", "snd") if json.dumps(w["exp"].get(f), sort_keys=True) != json.dumps(
        {k: x for k, x in w["got"]["st"].items() if k != "extra"} if f == "st" else w["got"].get(f), sort_keys=True)), "wire")
    return {"level": "seq", "cause": "other", "op": v["op"], "field": field}


def describe_seq(v, scn):
    w = v["why"]
    ops = " ; ".join(fmt_op(o) for o in scn["ops"][:v["i"]])
    return "scenario %d (class %s, %s) after [%s]: expected result %r events %s sent %s state %s - the node gave result %r events %s sent %s state %s" % (
        scn["id"], scn["cfg"].get("class"), scn["cfg"]["router"], ops, w["exp"]["res"], fmt_ev(w["exp"]["ev"]), json.dumps(w["exp"]["snd"]),
        json.dumps(w["exp"]["st"]), w["got"]["res"], fmt_ev(w["got"]["ev"]), json.dumps(w["got"]["snd"]), json.dumps(w["got"]["st"]))


def fmt_op(o):
    return o["o"] + "(" + ",".join("%s=%s" % (k, v) for k, v in o.items() if k != "o") + ")"


def fmt_ev(ev):
    return "[" + ", ".join(e["k"] + ":" + e["m"] + (":" + e["r"] if e["r"] else "") for e in ev) + "]"


def run_seq_level(ctx, rng, binp, seen, only=None):
    return validate_seq(ctx, replay_seq(ctx, rng, binp, only), seen)


def replay_seq(ctx, rng, binp, only=None):
    if only is None:
        scns, gs, gt, classes = build_seq_scenarios(ctx, rng)
    else:
        scns, gs, gt, classes = only, 0, 0, {"replay": {"replayed": len(only)}}
    scn_file = os.path.join(ctx.work, "seq-scenarios.ndjson")
    vlib.write_ndjson(scn_file, scns)
    ctx.log("sequential level: %d scenarios %s" % (len(scns), json.dumps({k: v["replayed"] for k, v in classes.items()})))
    shards = 1 if only is not None else (4 if not ctx.thorough else 8)
    outs, dead = run_shards(ctx, binp, "TestX09Seq", scn_file, "seq", shards)
    if dead:
        handle_dead(ctx, binp, "TestX09Seq", scn_file, scns, dead, "seq")
    # split the traces into chunk files for TLC without holding them in memory
    per = 12000
    files, cur, n_lines, done, hits, sample, gaveup = [], None, 0, set(), {}, [], 0
    for o in outs:
        with open(o) as f:
            for line in f:
                if not line.strip():
                    continue
                l = json.loads(line)
                if l["e"] == "giveup":
                    gaveup += 1
                    continue
                if l["e"] == "reset":
                    done.add(l["scn"])
                    if cur is None or files[-1][1] >= per:
                        if cur:
                            cur.close()
                        files.append([os.path.join(ctx.work, "tv-seq-chunk-%d.ndjson" % len(files)), 0])
                        cur = open(files[-1][0], "w")
                else:
                    k = l["op"]["o"] + ":" + re.sub(r"^[a-z]?\d+(@[vl])*$", "msg", str(l["res"]).split("/")[0]).replace("[p1]", "[..]").replace("[p1,p2]", "[..]").replace("[p2]", "[..]")
                    hits[k] = hits.get(k, 0) + 1
                    if len(sample) < 6 and l["scn"] == len(scns) // 2:
                        sample.append({"op": l["op"], "res": l["res"], "ev": l["ev"], "st": l["st"]})
                cur.write(json.dumps(norm_seq(l), separators=(",", ":")) + "\n")
                files[-1][1] += 1
                n_lines += 1
        os.remove(o)
    if cur:
        cur.close()
    if not files:
        raise vlib.Inconclusive("driver TestX09Seq produced no trace")
    if gaveup:
        ctx.notes.append("%d driver shard(s) stopped early after 8 scenarios in which a call never returned (%d of %d scenarios replayed)" % (gaveup, len(done), len(scns)))
    if not dead and not gaveup and len(done) != len(scns):
        raise vlib.Inconclusive("driver TestX09Seq replayed %d of %d scenarios" % (len(done), len(scns)))
    ctx.log("TestX09Seq: %d scenarios replayed, %d lines" % (len(done), n_lines))
    return dict(scns=scns, gs=gs, gt=gt, classes=classes, files=files, n_lines=n_lines, done=done, hits=hits, sample=sample)


def validate_seq(ctx, r, seen):
    scns, gs, gt, classes, files, n_lines, done, hits, sample = (r[k] for k in ("scns", "gs", "gt", "classes", "files", "n_lines", "done", "hits", "sample"))
    viols, cov, states = validate_files(ctx, "TopicApiTrace", [tuple(x) for x in files], "tv-seq")
    tags = set()
    for c in cov:
        tags.update(c["tags"])
    for v in viols:
        scn = scns[v["scn"]]
        sig = seq_signature(v, scn)
        pred = "P_X09_a_RefusedCallNoEffect" if v["cause"] == "joinOptLeaks" else v["pred"]
        key = (pred, json.dumps(sig, sort_keys=True))
        seen[key] = seen.get(key, 0) + 1
        if seen[key] <= 2:
            vlib.add_violation(ctx, pred, sig, describe_seq(v, scn), {"level": "seq", "scenario": scn, "failing_line": v["i"], "violation": v})
            FIRSTS.setdefault(key, ctx.violations[-1])
        else:
            ctx.violations.append(FIRSTS[key])
    nontrivial = sum(1 for s in scns if len({o["o"] for o in s["ops"]}) >= 3)
    return {"states": gs + states, "transitions": gt + states, "scenarios": len(done), "lines": n_lines, "nontrivial": nontrivial, "tags": tags,
            "classes": classes, "hits": hits, "sample": {"level": "seq", "scenario": scns[len(scns) // 2], "trace": sample}, "viols": len(viols)}


FIRSTS = {}

SEQ_OBLIGATIONS = {
    "Close refused by each kind of outstanding reference alone, and accepted once released": ["closeBusy:s", "closeBusy:r", "closeBusy:e", "closeOkAfterRelease"],
    "every method on a closed handle": ["closedHandle:" + k for k in ("sub", "relay", "evh", "pub", "addb", "lp", "score", "close")],
    "second Join while open / while a hidden handle exists / after Close": ["joinWhileOpen", "joinWhileHidden", "rejoinAfterClose"],
    "deprecated wrappers creating and re-using a handle": ["wrapperCreatesHandle", "wrapperUsesOpenHandle"],
    "idempotent cancels while ANOTHER reference of the topic is live": ["cancelTwiceOtherLive", "unrelayTwiceOtherLive"],
    "Next: message / blocked / cancelled, drain after Cancel": ["next:msg", "next:blocked", "next:cancelled", "drainAfterCancel"],
    "buffer boundary: filled exactly, next one dropped, only the full subscriber loses it": ["fillToCap", "dropAtCap", "dropOwnBufferOnly", "deliverTwoSubs"],
    "publication with no subscription of our own still sent; local-only not sent": ["pubFanoutNoOwnSub", "pubLocalOnlyNotSent", "deliverNoSubs"],
    "publish results": ["pub:closed", "pub:nilkey", "pub:emptypid", "pub:rejected", "pub:ignored", "pubDuplicateOk", "pubMode:key", "pubMode:local",
                        "pubMode:localnilkey", "pubMode:vd", "pubMode:ready2"],
    "validator registry": ["reg:ok", "reg:duplicate", "reg:badtype", "unreg:ok", "unreg:absent", "regAgainAfterUnreg", "validatorSurvivesRejoin",
                           "regType:bool", "regType:V", "regType:Ex", "regWeird"],
    "validator invocation contexts and options": ["vc:local", "vc:async", "vc:inline", "vcTimeout:async", "vcTimeout:local", "vcValidatorData"],
    "validator concurrency boundary (n = 1 and n = 2)": ["parkedBelowConc:0", "parkedBelowConc:1", "throttledAtConc:1", "throttledAtConc:2", "released"],
    "remote messages: ignored without interest, relay-only forwarding, duplicate": ["remoteNoInterestIgnored", "relayOnlyForwarded", "subscribedForwarded", "remoteDuplicate"],
    "interest edges by each entry point": ["edge:Join:sub", "edge:Join:psub", "edge:Join:relay", "edge:Leave:cancel", "edge:Leave:unrelay"],
    "SetScoreParams on every router flavour": ["score:ok", "score:invalidparams", "score:closed", "score:notgossipsub", "score:noscoring"],
    "fanout-only": ["relayFanoutOnly"],
    "ListPeers": ["listPeersNonEmpty", "closedListPeersEmptyWithPeers"],
    "two event handlers, one cancelled": ["closeBusyLastOfTwoHandlers"],
}


# ----------------------------------------------------------------------------- concurrent level
CONC_BASE = {"NG": 2, "R": 1, "Alpha": S("close"), "ProName": '"joinA"', "Caps": I(1), "IdFn": '"uniq"', "Class": '"x"'}
CALL_OPS = ("join", "close", "sub", "psub", "cancel", "next", "relay", "unrelay", "evh", "evcancel", "pub", "ppub")


def conc_plan(ctx):
    t = ctx.thorough
    return [
        ("pairs-idle", dict(ProName='"joinA"', Alpha=S("join", "close", "sub", "psub", "relay", "evh", "pub", "ppub", "reg", "unreg", "lp")), 121, 200),
        ("pairs-one-each", dict(ProName='"oneEach"', Alpha=S(*CALL_OPS)), 144, 200),
        ("pairs-busy", dict(ProName='"busyA"', Alpha=S("close", "sub", "cancel", "next", "relay", "unrelay", "evcancel", "pub")), 121, 400),
        ("pairs-released", dict(ProName='"released"', Alpha=S("close", "cancel", "unrelay", "next", "sub", "pub", "join")), 64, 200),
        ("pairs-two-generations", dict(ProName='"twoGen"', Alpha=S("close", "sub", "cancel", "pub", "next", "relay", "join")), 80, 200),
        ("triples-sub1", dict(NG=3, ProName='"sub1"', Alpha=S("close", "sub", "cancel", "next", "pub", "psub")), 80, 400),
        ("triples-relay1", dict(NG=3, ProName='"relay1"', Alpha=S("close", "relay", "unrelay", "join", "psub")), 60, 200),
        ("triples-evh1", dict(NG=3, ProName='"evh1"', Alpha=S("close", "evh", "evcancel", "sub")), 40, 64),
        ("two-rounds-sub1", dict(NG=2, R=2, ProName='"sub1"', Alpha=S("close", "sub", "cancel", "next", "pub")), 80, 700),
        ("two-rounds-idle", dict(NG=2, R=2, ProName='"joinA"', Alpha=S("close", "sub", "relay", "join", "psub")), 80, 700),
    ]


def forced_conc():
    cfg = {"router": "floodsub", "idfn": "uniq", "peers": 0, "class": "forced"}
    J = {"o": "join", "t": "A"}
    return [
        # X09-F2: the same cancel function twice at once while another reference is held
        {"cfg": cfg, "pro": [J, {"o": "relay", "h": 1}, {"o": "relay", "h": 1}], "g": [[{"o": "unrelay", "r": 1}], [{"o": "unrelay", "r": 1}]]},
        # Subscribe passed its test, Close waits for the mutex (and the other way round); the same for Relay / EventHandler
        {"cfg": cfg, "pro": [J], "g": [[{"o": "sub", "h": 1, "cap": 1}], [{"o": "close", "h": 1}]]},
        {"cfg": cfg, "pro": [J], "g": [[{"o": "close", "h": 1}], [{"o": "sub", "h": 1, "cap": 1}]]},
        {"cfg": cfg, "pro": [J], "g": [[{"o": "relay", "h": 1}], [{"o": "close", "h": 1}]]},
        {"cfg": cfg, "pro": [J], "g": [[{"o": "evh", "h": 1}], [{"o": "close", "h": 1}]]},
        {"cfg": cfg, "pro": [J], "g": [[{"o": "close", "h": 1}], [{"o": "psub", "t": "A", "cap": 1}], [{"o": "join", "t": "A"}]]},
        {"cfg": cfg, "pro": [J], "g": [[{"o": "close", "h": 1}], [{"o": "relay", "h": 1}], [{"o": "evh", "h": 1}]]},
        {"cfg": cfg, "pro": [J], "g": [[{"o": "close", "h": 1}], [{"o": "pub", "h": 1, "m": "c1"}], [{"o": "ppub", "t": "A", "m": "c2"}]]},
        {"cfg": cfg, "pro": [J, {"o": "sub", "h": 1, "cap": 1}], "g": [[{"o": "close", "h": 1}], [{"o": "join", "t": "A"}]]},
        # Cancel racing delivery racing Next; a slow second subscriber
        {"cfg": cfg, "pro": [J, {"o": "sub", "h": 1, "cap": 1}, {"o": "sub", "h": 1, "cap": 1}],
         "g": [[{"o": "next", "s": 1}, {"o": "next", "s": 1}, {"o": "next", "s": 1}], [{"o": "pub", "h": 1, "m": "c1"}, {"o": "pub", "h": 1, "m": "c2"}, {"o": "pub", "h": 1, "m": "c3"}],
               [{"o": "pub", "h": 1, "m": "c4"}, {"o": "cancel", "s": 1}, {"o": "cancel", "s": 1}]]},
        {"cfg": cfg, "pro": [J, {"o": "sub", "h": 1, "cap": 2}], "g": [[{"o": "next", "s": 1}], [{"o": "cancel", "s": 1}], [{"o": "cancel", "s": 1}]]},
        {"cfg": cfg, "pro": [J, {"o": "sub", "h": 1, "cap": 2}, {"o": "evh", "h": 1}], "g": [[{"o": "evcancel", "e": 1}], [{"o": "evcancel", "e": 1}], [{"o": "close", "h": 1}]]},
    ]


def build_conc_scenarios(ctx, rng):
    scns, gs, gt, classes = [], 0, 0, {}
    for name, over, nq, nt in conc_plan(ctx):
        c = dict(CONC_BASE)
        c.update(over)
        c["Class"] = '"%s"' % name
        got, g = run_gen(ctx, "GenTopicApiConc", c, name)
        gs += g.distinct
        gt += g.generated
        want = nt if ctx.thorough else nq
        if "mini" in DEV:
            want = max(30, want // 4)
        got.sort(key=lambda s: json.dumps(s, sort_keys=True))
        exhaustive = len(got) <= want
        if not exhaustive:
            got = rng.sample(got, want)
        classes[name] = {"generated": len(got) if exhaustive else g.distinct, "replayed": len(got), "exhaustive": exhaustive}
        for s in got:
            scns.append({"cfg": s["cfg"], "pro": [dec(o) for o in s["pro"]], "g": [[dec(o) for o in gr] for gr in s["g"]]})
    scns += forced_conc()
    classes["forced"] = {"generated": len(forced_conc()), "replayed": len(forced_conc()), "exhaustive": True}
    for i, s in enumerate(scns):
        s["id"] = i
    return scns, gs, gt, classes


def norm_conc(l):
    e = l["e"]
    if e == "reset":
        return {"e": "reset", "scn": l["scn"], "cfg": {"router": l["cfg"]["router"], "idfn": l["cfg"]["idfn"]}}
    if e == "call":
        return {"e": "call", "scn": l["scn"], "id": l["id"], "g": l["g"], "op": full(l["op"])}
    if e == "release":
        return {"e": "release", "scn": l["scn"], "slow": bool(l.get("slow"))}
    return l


def same_unrelay_overlap(scn):
    """Does a round of the scenario call the same RelayCancelFunc from two goroutines (the input class of finding X09-F2)."""
    rounds = max(len(g) for g in scn["g"])
    for r in range(rounds):
        rs = [g[r]["r"] for g in scn["g"] if r < len(g) and g[r]["o"] == "unrelay"]
        if len(rs) != len(set(rs)):
            return True
    return False


def run_conc_level(ctx, rng, binp, seen, only=None):
    return validate_conc(ctx, replay_conc(ctx, rng, binp, only), seen)


def replay_conc(ctx, rng, binp, only=None):
    if only is None:
        scns, gs, gt, classes = build_conc_scenarios(ctx, rng)
    else:
        scns, gs, gt, classes = only, 0, 0, {"replay": {"replayed": len(only)}}
    scn_file = os.path.join(ctx.work, "conc-scenarios.ndjson")
    vlib.write_ndjson(scn_file, scns)
    reps = 2 if not ctx.thorough else 4
    ctx.log("concurrent level: %d scenarios x %d repetitions %s" % (len(scns), reps, json.dumps({k: v["replayed"] for k, v in classes.items()})))
    shards = 1 if only is not None else (3 if not ctx.thorough else 4)
    outs, dead = run_shards(ctx, binp, "TestX09Conc", scn_file, "conc", shards, extra_env={"VERIF_REPS": reps})
    if dead:
        handle_dead(ctx, binp, "TestX09Conc", scn_file, scns, dead, "conc")
    hist, lines, gaveup = [], 0, 0
    for o in outs:
        cur = None
        for l in vlib.read_ndjson(o):
            if l["e"] == "giveup":
                gaveup += 1
                continue
            if l["e"] == "reset":
                cur = []
                hist.append(cur)
            cur.append(norm_conc(l))
            lines += 1
        os.remove(o)
    if not hist:
        raise vlib.Inconclusive("driver TestX09Conc produced no history")
    noq = [h for h in hist if any(l["e"] == "noquiesce" for l in h)]
    hist = [h for h in hist if not any(l["e"] == "noquiesce" for l in h)]
    slow = sum(1 for h in hist for l in h if l["e"] == "release" and l["slow"])
    if slow:
        ctx.notes.append("%d round(s) in which a call finished only in the 200 ms grace period after the goroutine dump looked quiescent" % slow)
    if noq:
        ctx.notes.append("%d of %d concurrent histories dropped: quiescence was not reached within 10 s (machine load)" % (len(noq), len(noq) + len(hist)))
    if len(noq) > max(3, len(hist) // 20):
        raise vlib.Inconclusive("too many concurrent histories without quiescence (%d)" % len(noq))
    if gaveup:
        ctx.notes.append("%d concurrent driver shard(s) stopped early after 4 histories in which a call never returned" % gaveup)
    if not dead and not gaveup and len(hist) + len(noq) != len(scns) * reps:
        raise vlib.Inconclusive("driver TestX09Conc recorded %d of %d histories" % (len(hist) + len(noq), len(scns) * reps))
    ctx.log("TestX09Conc: %d histories, %d lines" % (len(hist), lines))
    return dict(scns=scns, gs=gs, gt=gt, classes=classes, hist=hist, lines=lines)


def validate_conc(ctx, r, seen):
    scns, gs, gt, classes, hist, lines = (r[k] for k in ("scns", "gs", "gt", "classes", "hist", "lines"))
    # histories of the input class of finding X09-F2 go last and in small chunks: every rejection costs a re-run of its chunk
    sus = {id(h) for h in hist if same_unrelay_overlap(scns[h[0]["scn"] // 100])}
    hist = [h for h in hist if id(h) not in sus] + [h for h in hist if id(h) in sus]
    n_plain = len(hist) - len(sus)
    rej, acc, states = vlib.validate_by_cursor(ctx, FAMILY, "TopicApiLin", "TopicApiLin.cfg", hist[:n_plain], chunk=max(60, -(-n_plain // 4)), max_rejects=5, name="tv-conc")
    if sus:
        rej_s, acc_s, st_s = vlib.validate_by_cursor(ctx, FAMILY, "TopicApiLin", "TopicApiLin.cfg", hist[n_plain:], chunk=12, max_rejects=12, name="tv-conc-sus")
        rej += [(i + n_plain, k, inv) for (i, k, inv) in rej_s]
        states += st_s
    # histories the intended machine cannot explain: does the code as found (RelayCancelFunc's flag race) explain them?
    overlap, hits = 0, {}
    for h in hist:
        calls = [l for l in h if l["e"] == "call" and l["g"] > 0]
        if len(calls) >= 2:
            overlap += 1
        for l in h:
            if l["e"] == "ret":
                op = next(c["op"]["o"] for c in h if c["e"] == "call" and c["id"] == l["id"])
                k = op + ":" + re.sub(r"^[a-z]?\d+(@[vl])*$", "msg", str(l["res"]))
                hits[k] = hits.get(k, 0) + 1
            elif l["e"] in ("dlv", "undlv"):
                hits[l["e"]] = hits.get(l["e"], 0) + 1
            elif l["e"] == "quiet" and l["blocked"]:
                hits["quiet:blocked"] = hits.get("quiet:blocked", 0) + 1
    if rej:
        # only histories of the input class of finding X09-F2 can be explained by it: ask the as-found model about those
        cand = [n for n, (i, k, inv) in enumerate(rej) if same_unrelay_overlap(scns[hist[i][0]["scn"] // 100])]
        explained = set()
        if cand:
            bad = [hist[rej[n][0]] for n in cand]
            rej2, acc2, st2 = vlib.validate_by_cursor(ctx, FAMILY, "TopicApiLin", "TopicApiLinAsFound.cfg", bad, chunk=50, max_rejects=len(bad) + 1, name="tv-conc-asfound")
            states += st2
            explained = {cand[j] for j in range(len(cand))} - {cand[i] for (i, k, inv) in rej2}
        for n, (i, k, inv) in enumerate(rej):
            h = hist[i]
            scn = scns[h[0]["scn"] // 100]
            line = h[k] if k < len(h) else {}
            kinds = sorted({l["op"]["o"] for l in h if l["e"] == "call" and l["g"] > 0})
            if n in explained:
                sig = {"level": "conc", "cause": "relayCancelRace"}
                detail = ("two overlapping calls of the SAME RelayCancelFunc released two relay references: history of scenario %d (%s) is not linearizable, "
                          "it is explained only by the as-found test-then-set of isCancelled; final state %s" % (scn["id"], scn["cfg"].get("class"), json.dumps(h[-1].get("st"))))
            else:
                sig = {"level": "conc", "cause": "other", "line": line.get("e"), "ops": kinds}
                detail = "history of scenario %d (%s; concurrent calls %s) cannot be linearised against the reference machine at line %d: %s" % (
                    scn["id"], scn["cfg"].get("class"), kinds, k, json.dumps(line)[:400])
            key = ("P_X09_b_Linearizable", json.dumps(sig, sort_keys=True))
            seen[key] = seen.get(key, 0) + 1
            if seen[key] <= 2:
                vlib.add_violation(ctx, "P_X09_b_Linearizable", sig, detail, {"level": "conc", "scenario": scn, "history": h, "failing_line": k})
                FIRSTS.setdefault(key, ctx.violations[-1])
            else:
                ctx.violations.append(FIRSTS[key])
    mid = hist[len(hist) // 2]
    return {"states": gs + states, "transitions": gt + states, "histories": len(hist), "lines": lines, "overlapping": overlap, "classes": classes, "hits": hits,
            "rejected": len(rej), "sample": {"level": "conc", "history": mid[:16]}}


def race_stage(ctx, scns):
    """Thorough tier: the forced concurrent scenarios and a sample of the generated pairs once more under the Go race detector. A report whose two
    stacks both end in API code of the library is an observation of X09.b (calls are not atomic); the unsynchronised isCancelled flag of
    RelayCancelFunc is finding X09-F2."""
    pick = [s for s in scns if s["cfg"].get("class") == "forced"] + [s for s in scns if str(s["cfg"].get("class", "")).startswith("pairs-")][:160]
    pick = [dict(s, id=i) for i, s in enumerate(pick)]
    scn_file, outp = os.path.join(ctx.work, "race-scenarios.ndjson"), os.path.join(ctx.work, "race.ndjson")
    vlib.write_ndjson(scn_file, pick)
    r = vlib.run_go(ctx, "./drivers/x09/", "^TestX09Conc$", env={"VERIF_IN": scn_file, "VERIF_OUT": outp, "VERIF_REPS": 2}, extra=["-race"], timeout=1500,
                    name="race", stall=None)
    out = r["out"]
    if "WARNING: DATA RACE" not in out and r["rc"] != 0:
        raise vlib.Inconclusive("race-detector run of TestX09Conc failed (rc=%s, see %s)" % (r["rc"], r["log"]))
    reports = 0
    for blk in out.split("WARNING: DATA RACE")[1:]:
        blk = blk.split("==================")[0]
        stacks = re.split(r"\n(?=(?:Previous )?(?:[Rr]ead|[Ww]rite) at )", "\n" + blk)
        tops = []
        for st in stacks:
            if not re.match(r"(?:Previous )?(?:[Rr]ead|[Ww]rite) at ", st.strip()):
                continue
            st = st.split("\nGoroutine ")[0]
            fr = [m for m in re.findall(r"^  (\S+)\(\)\s*$", st, re.M) if not m.startswith(("runtime.", "sync.", "sync/atomic."))]
            if fr:
                tops.append(fr[0])
        if len(tops) < 2 or not all("go-libp2p-pubsub." in t and "verifharness" not in t for t in tops):
            continue          # a race that involves the driver's own code says nothing about the library
        fns = sorted({t.split("go-libp2p-pubsub.")[-1] for t in tops})
        reports += 1
        if fns == ["(*PubSub).handleAddRelay.func1"]:
            sig = {"level": "conc", "cause": "relayCancelRace"}
            detail = "race detector: RelayCancelFunc reads and writes its isCancelled flag from two goroutines without synchronisation"
        else:
            sig = {"level": "race", "cause": "other", "funcs": fns}
            detail = "race detector: unsynchronised access from two API calls of the library: %s" % fns
        vlib.add_violation(ctx, "P_X09_b_Linearizable", sig, detail, {"level": "race", "report": blk[:3000]})
    return {"scenarios": len(pick), "reports": reports}


CONC_OBLIGATIONS = ["close:ok", "close:outstanding", "sub:ok", "sub:closed", "psub:ok", "psub:closed", "relay:ok", "relay:closed", "evh:ok", "evh:closed",
                    "join:ok", "join:exists", "next:msg", "next:cancelled", "next:blocked", "pub:ok", "pub:closed", "dlv", "undlv", "quiet:blocked",
                    "cancel:ok", "unrelay:ok", "evcancel:ok"]


# ----------------------------------------------------------------------------- verdict
def unmet(obligations, tags, level):
    out = []
    for what, need in obligations.items():
        miss = [t for t in need if t not in tags]
        if miss:
            out.append("%s: %s (never observed: %s)" % (level, what, miss))
    return out


def run(ctx):
    rng = random.Random(ctx.seed)
    if ctx.replay:
        return run_replay(ctx)
    # the model-level phase (TLC only) runs while the Go drivers replay the scenarios; the trace validations (TLC again) follow it
    mc_pool = cf.ThreadPoolExecutor(max_workers=1)
    if "mini" in DEV:
        ctx.notes.append("reduced volumes (VERIF_X09_DEV=mini): development aid for mutation screening only")
    if "nomc" in DEV:
        mc_fut = None
        ctx.notes.append("model-level phase skipped (VERIF_X09_DEV)")
    else:
        ctx.log("model checking (in the background)")
        mc_fut = mc_pool.submit(model_checking, ctx)
    binp = build_driver(ctx)
    seen = {}
    seq_r = replay_seq(ctx, rng, binp) if "noseq" not in DEV else None
    conc_r = replay_conc(ctx, rng, binp) if "noconc" not in DEV else None
    if mc_fut is None:
        states, transitions, mc_summary = 0, 0, {"skipped": True}
    else:
        states, transitions, mc_summary = mc_fut.result()
        ctx.log("MC ok: %d configurations, %d must-fail" % (len(mc_summary), sum(1 for v in mc_summary.values() if v[3] == "fail")))
    if "noseq" in DEV:
        ctx.notes.append("sequential level skipped (VERIF_X09_DEV)")
        seq = {"states": 0, "transitions": 0, "scenarios": 0, "lines": 0, "nontrivial": 0, "tags": {t for l in SEQ_OBLIGATIONS.values() for t in l},
               "classes": {}, "hits": {}, "sample": {}, "viols": 0}
    else:
        seq = validate_seq(ctx, seq_r, seen)
    ctx.log("TopicApiTrace: %d predicate failures on %d scenarios (%d lines)" % (seq["viols"], seq["scenarios"], seq["lines"]))
    if "noconc" in DEV:
        ctx.notes.append("concurrent level skipped (VERIF_X09_DEV)")
        conc = {"states": 0, "transitions": 0, "histories": 0, "lines": 0, "overlapping": 0, "classes": {}, "hits": {k: 1 for k in CONC_OBLIGATIONS},
                "rejected": 0, "sample": {}}
    else:
        conc = validate_conc(ctx, conc_r, seen)
        if ctx.thorough:
            conc["race"] = race_stage(ctx, conc_r["scns"])
            ctx.log("race detector: %d report(s) on %d scenarios" % (conc["race"]["reports"], conc["race"]["scenarios"]))
    ctx.log("TopicApiLin: %d of %d histories not linearizable; failures by signature %s" % (
        conc["rejected"], conc["histories"], json.dumps({k[0] + " " + k[1]: n for k, n in seen.items()})))
    missing = unmet(SEQ_OBLIGATIONS, seq["tags"], "seq") + ["conc: never observed: " + k for k in CONC_OBLIGATIONS if not conc["hits"].get(k)]
    findings = vlib.load_findings(ctx.pid)
    new = [v for v in ctx.violations if not any(vlib.sig_matches(f, v) for f in findings)]
    if missing and not new:
        raise vlib.Inconclusive("coverage obligations not met: " + "; ".join(missing))
    cov = {"states": states + seq["states"] + conc["states"], "transitions": transitions + seq["transitions"] + conc["transitions"],
           "traces_validated_against_impl": seq["scenarios"] + conc["histories"], "samples": [seq["sample"], conc["sample"]],
           "evaluations": seq["lines"] + conc["lines"], "distinct_nontrivial": seq["nontrivial"] + conc["overlapping"],
           "rule": "sequential level: evaluation = one API call / stimulus on a real node with result, tracer events, validator calls, sends, wire and snapshot all "
                   "compared with the reference machine by TLC; a scenario (distinct by call sequence, generated exhaustively up to the bound of its class and sampled "
                   "by seed above the class budget) is non-trivial if it uses at least 3 different operation kinds. Concurrent level: evaluation = one history line; a history "
                   "is non-trivial if at least two calls overlapped (issued while the event loop was parked)",
           "exhaustive": False,
           "exhaustive_note": "classes whose generator output fits the budget are replayed exhaustively (see seq_classes / conc_classes)",
           "mc": mc_summary, "seq_classes": seq["classes"], "conc_classes": conc["classes"], "seq_scenarios": seq["scenarios"], "seq_lines": seq["lines"],
           "conc_histories": conc["histories"], "conc_lines": conc["lines"], "conc_not_linearizable": conc["rejected"], "race_stage": conc.get("race"),
           "obligation_tags": sorted(seq["tags"]), "result_hits": {"seq": seq["hits"], "conc": conc["hits"]},
           "failures_by_signature": {k[0] + " " + k[1]: n for k, n in seen.items()}}
    return vlib.finish(ctx, LEVEL, cov, [
        "the sequential level settles the node after every call (synctest.Wait, or 12 ms of virtual time when fake peers are attached): a Publish has been "
        "delivered before the next call is made; delivery racing other calls is the concurrent level's business",
        "message ids are made readable by WithMessageIdFn (payload name, or name + seqno + author): the library's DefaultMsgIdFn is not exercised here",
        "floodsub is the router wherever messages are forwarded (forwarding = every topic peer except source and author); gossipsub only for SetScoreParams",
        "concurrent level: no virtual time (a goroutine parked on Topic.mux is not durably blocked for testing/synctest); quiescence is read off a "
        "stop-the-world goroutine dump; the schedules after the event loop is released are the runtime's (each scenario is repeated)",
        "concurrent level: Subscription.Cancel / RelayCancelFunc return when the event loop has TAKEN the request; their effect is placed between call and return",
        "the where-was-the-validator-called observation reads the goroutine's stack (ValidateLocal / validateWorker / doValidateTopic frames)"])


def run_replay(ctx):
    payload = json.load(open(ctx.replay))
    rp = payload.get("replay") or {}
    scn = rp.get("scenario")
    if not scn:
        raise vlib.Inconclusive("replay file has no scenario")
    binp = build_driver(ctx)
    seen = {}
    scn = dict(scn, id=0)
    if rp.get("level") == "conc":
        res = run_conc_level(ctx, random.Random(ctx.seed), binp, seen, only=[scn])
        n, st, sample = res["histories"], res["states"], res["sample"]
    else:
        res = run_seq_level(ctx, random.Random(ctx.seed), binp, seen, only=[scn])
        n, st, sample = res["scenarios"], res["states"], res["sample"]
    cov = {"states": max(st, 1), "transitions": max(st, 1), "traces_validated_against_impl": n, "samples": [sample],
           "evaluations": n, "distinct_nontrivial": n, "rule": "single replayed case"}
    return vlib.finish(ctx, LEVEL, cov, ["replay of one recorded case"])
