"""C09 - score thresholds gate what a peer may send and receive.

spec/thresholds: Thresholds (one node + 3 peers, score is an input, thresholds are constants; every step is a
pure function from (state, action) to its possible results, the seven P_C09_* predicates are checked on every
action in every reachable state), MCThresholds (*.cfg: exhaustive; Bug configurations MUST fail),
GenThresholds (scenario programs enumerated by TLC), ThresholdsTrace (one-pass judge over the common
step-line format). Drivers: drivers/router (TestRouterReplay, TestRouterWalk) and drivers/c09 (RPC mixes,
signed peer records for PX, validation-overload gater)."""
import concurrent.futures as cf
import json, os, random, re, shutil, subprocess, threading, time
from .. import vlib

LEVEL = "model_checking"
FAMILY = "thresholds"

# threshold sets: magnitudes of gossip/publish/graylist, acceptPX, oppGraft
THR = {"A": (1, 2, 3, 2, 1), "B": (2, 4, 6, 2, 1), "Z": (0, 0, 0, 0, 0)}

# seeded defects of the MODEL (non-vacuity): bug -> (invariant that must fail, constant overrides)
BUGS = {
    "graylistLE": ("Inv_Graylist", {}), "ctlUnderNone": ("Inv_Graylist", {}),
    "ihaveLE": ("Inv_Gossip", {}), "iwantLE": ("Inv_Gossip", {}), "emitGT": ("Inv_Gossip", {}),
    "floodPubGT": ("Inv_Publish", {"FloodPublish": True}),
    # flood publishing also serves every mesh member, whatever its score
    "floodPubMesh": ("Inv_Publish", {"FloodPublish": True}), "floodsubGT": ("Inv_Publish", {"FloodProto": "{p3}"}),
    # (dropping fanout peers AT the publish threshold is not listed: the same heartbeat's fill re-adds them, model and code alike)
    "fanoutSelGT": ("Inv_Publish", {}), "fanoutNoDrop": ("Inv_Publish", {}),
    "fanoutFillGT": ("Inv_Publish", {}),
    "graftLE0": ("Inv_Negative", {}), "hbNoNegPrune": ("Inv_Negative", {}), "fillNegative": ("Inv_Negative", {}),
    "joinNegative": ("Inv_Negative", {}), "pxOnNegRefusal": ("Inv_Negative", {}), "hbNoPXunset": ("Inv_Negative", {}),
    "acceptPXinv": ("Inv_PX", {}), "acceptPXGT": ("Inv_PX", {}), "pxNoIdCheck": ("Inv_PX", {}),
    "pxNoEnvelopeCheck": ("Inv_PX", {}),
    "noDirectExempt": ("Inv_Direct", {"Direct": "{p3}"}),
    "gaterNone": ("Inv_Gater", {}),
    # the mesh-full refusal (the only one that keeps doPX) tested before the negative-score refusal: needs a mesh that fills up
    "fullBeforeNegative": ("Inv_Negative", {"D": 2, "Dlo": 1, "Dhi": 2, "Dscore": 1}),
}
# one per predicate (plus the two no-PX rules) in the quick tier, all of them in the thorough tier
QUICK_BUGS = ["graylistLE", "emitGT", "floodPubGT", "graftLE0", "pxOnNegRefusal", "hbNoPXunset", "acceptPXinv", "noDirectExempt",
              "gaterNone", "fullBeforeNegative", "floodPubMesh"]

# coverage obligations (DESIGN C09): tags emitted by ThresholdsTrace when a validated real step could tell the
# two sides of a comparison apart
def obligations():
    need = []
    for fam in ("graylist", "gossip-ihave", "gossip-iwant", "gossip-emit", "publish-flood", "publish-fanout-sel",
                "publish-fanout-hb", "publish-floodsub", "neg-graft", "neg-hb", "neg-join"):
        need += ["%s/%s" % (fam, r) for r in ("m1", "eq", "p1")]
    need += ["neg-graft-pxavail/m1", "neg-graft-pxavail/eq", "neg-hb-pxavail/m1"]
    # a negative sender under every OTHER refusal precondition of handleGraft, with PX on and something to list
    need += ["neg-graft-meshfull-pxavail", "neg-graft-backoff-pxavail", "neg-graft-direct-pxavail"]
    # own publication under flood publishing right after a score change (no heartbeat in between), per recipient class and
    # score band; flood-own/mesh/belowpub|belowgray = "... while a mesh member scored below the publish threshold".
    # (class "fanout" cannot occur: the flood branch never creates or consults a fanout.) The forwarded message is the contrast.
    need += ["flood-own/%s/%s" % (c, b) for c in ("mesh", "plain", "floodsub", "direct")
             for b in ("nonneg", "below0", "belowpub", "belowgray")]
    need += ["forward-under-flood/mesh/belowpub", "forward-under-flood/mesh/belowgray"]
    need += ["px/%s/%s" % (r, c) for r in ("m1", "eq", "p1") for c in ("none", "valid")]
    need += ["px/eq/%s" % c for c in ("wrongid", "baddomain", "garbage", "notrecord")]
    need += ["px/dialled", "px/over-limit", "px/graylisted", "direct/below-graylist", "direct/gater-overloaded",
             "combined/below-gossip-above-graylist", "combined/below-publish-above-graylist",
             "gater/throttled-with-control", "graylist/subscription-seen"]
    return need


def mc_constants(thr, direct="{}", flood="{}", fpub=False, mix="basic", free="{p1, p2, p3}", bug="none", strings=False, small=False):
    g, p, y, a, o = THR[thr]
    peers = '{"p1", "p2", "p3"}' if strings else "{p1, p2, p3}"
    c = {}
    if not strings:
        c.update({"p1": "p1", "p2": "p2", "p3": "p3"})
    c.update({"Peers": peers, "Direct": direct, "FloodProto": flood, "NegGossip": g, "NegPublish": p, "NegGraylist": y,
              "AcceptPX": a, "OppGraft": o, "FloodPublish": fpub, "DoPX": True, "Gater": '"throttling"',
              "MixMode": '"%s"' % mix, "ScoreFree": free, "Bug": '"%s"' % bug})
    c.update(dict(zip(("D", "Dlo", "Dhi", "Dscore"), (2, 1, 2, 1) if small else (4, 2, 5, 2))))
    return c


def model_check(ctx):
    """Exhaustive checks of the model and the configurations that must fail."""
    # quick tier: two of the three scores vary in the main configuration (all three in A-rich and in the thorough tier)
    runs = [("A-global", dict(thr="A", mix="move", free="{p1, p2, p3}" if ctx.thorough else "{p1, p2}")),
            ("A-rpc", dict(thr="A", mix="all", free="{p1}")),
            ("A-rich", dict(thr="A", mix="move", direct="{p3}", flood="{p2}", fpub=True)),
            ("Z-global", dict(thr="Z", mix="basic", free="{p1, p2, p3}" if ctx.thorough else "{p1, p2}")),
            ("B-rpc", dict(thr="B", mix="all", free="{p1}")),
            # small degrees: the mesh fills up, so the mesh-full refusal and the over-subscription prune are reachable
            ("A-small", dict(thr="A", mix="move", small=True, free="{p1, p2, p3}" if ctx.thorough else "{p1, p2}"))]
    if ctx.thorough:
        runs += [("A-rpc-direct", dict(thr="A", mix="all", free="{p1}", direct="{p1}")),
                 ("Z-rich", dict(thr="Z", mix="basic", direct="{p3}", flood="{p2}", fpub=True)),
                 ("B-global", dict(thr="B", mix="move")),
                 ("B-rich", dict(thr="B", mix="move", direct="{p3}", flood="{p2}", fpub=True)),
                 ("A-basic", dict(thr="A", mix="basic")),
                 ("A-flood", dict(thr="A", mix="move", fpub=True, flood="{p3}"))]
    bugs = list(BUGS) if ctx.thorough else QUICK_BUGS
    stats = {}

    def one(item):
        name, kw = item
        cfg = vlib.cfg_text(constants=mc_constants(**kw), invariants=["TypeOK", "Inv_All"])
        r = vlib.run_tlc(ctx, FAMILY, "MCThresholds", cfg, workers=2, timeout=1500 if ctx.thorough else 400, name="mc-" + name)
        return name, r

    def bug(b):
        inv, over = BUGS[b]
        kw = dict(thr="A", mix="basic", bug=b)
        c = mc_constants(**kw)
        c.update(over)
        cfg = vlib.cfg_text(constants=c, invariants=[inv])
        r = vlib.run_tlc(ctx, FAMILY, "MCThresholds", cfg, workers=1, timeout=300, name="bug-" + b)
        return b, inv, r

    with cf.ThreadPoolExecutor(max_workers=2) as ex:
        for name, r in ex.map(one, runs):
            vlib.require_mc_ok(ctx, r, "MCThresholds " + name)
            stats[name] = [r.distinct, r.generated]
    with cf.ThreadPoolExecutor(max_workers=4) as ex:
        for b, inv, r in ex.map(bug, bugs):
            vlib.require_mc_fails(ctx, r, "MCThresholds Bug=%s" % b, inv)
    return stats, bugs


def generate(ctx):
    """One TLC run enumerates the scenario programs of GenThresholds for every threshold set."""
    fams = ["rpc1", "mix", "px", "gater", "meshA", "meshB", "fanA", "fanB", "joinfan", "graftfull", "graftbo", "floodmesh", "floodplain"] + \
           (["rpc2"] if ctx.thorough else [])
    c = mc_constants("A", strings=True, free='{"p1", "p2", "p3"}')
    c["Families"] = "{" + ", ".join('"%s"' % f for f in fams) + "}"
    c["ThrSets"] = "ThrSets <- StdThrSets"
    c["AllVec"] = "AllVec <- " + ("AZAllVec" if ctx.thorough else "NoAllVec")
    cfg = vlib.cfg_text(spec="GSpec", constants=c, invariants=["Emit"])
    g = vlib.run_tlc(ctx, FAMILY, "GenThresholds", cfg, workers=4, timeout=1200, name="gen", heap="6g")
    vlib.require_mc_ok(ctx, g, "GenThresholds")
    names = {tuple(v): k for k, v in THR.items()}
    out = {}
    for s in g.printed("SCN"):
        s["thrset"] = names[tuple(s["thrset"])]
        out.setdefault(s["thrset"], []).append(s)
    if sorted(out) != sorted(THR):
        raise vlib.Inconclusive("generator emitted nothing for some threshold set: %s" % sorted(out))
    return out, g.distinct


def select(ctx, gen):
    """Keep the families that carry the equality obligations whole for the main threshold set; sample the
    rest by seed (quick tier) or above a cap (thorough)."""
    rng = random.Random(ctx.seed)
    q = not ctx.thorough
    # how many to keep: None = all
    budget = {"rpc1": {"A": None, "B": 80 if q else None, "Z": None},
              "rpc2": {"A": 150, "B": 100, "Z": 60},
              "mix": {"A": None, "B": 24 if q else None, "Z": 24 if q else None},
              "px": {"A": 64 if q else None, "B": 30 if q else None, "Z": 30 if q else None},
              "gater": {"A": 8 if q else 64, "B": 8 if q else 32, "Z": 8 if q else 32},
              "graftfull": {"A": None, "B": 4 if q else None, "Z": None},
              "graftbo": {"A": None, "B": 4 if q else None, "Z": None}}
    cap = {"A": 10, "B": 6, "Z": 5} if q else {"A": 260, "B": 120, "Z": 27}
    keep, total = [], 0

    def offzero(s):
        return sum(1 for a in s["acts"] if a.get("a") == "score")

    for thr, scns in sorted(gen.items()):
        by = {}
        for s in scns:
            by.setdefault(s["fam"], []).append(s)
        for fam, l in sorted(by.items()):
            total += len(l)
            l = sorted(l, key=lambda s: json.dumps(s, sort_keys=True))
            if fam in budget:
                n = budget[fam][thr]
                if fam == "px" and n is not None:
                    # the joined variant carries the obligations; a few of the not-joined variant
                    joined = [s for s in l if any(a.get("a") == "subscribe" for a in s["acts"])]
                    other = [s for s in l if s not in joined]
                    rng.shuffle(other)
                    if thr != "A":
                        rng.shuffle(joined)
                        joined = joined[:n]
                    l = joined + other[:8]
                elif fam == "gater":
                    # half with a direct sender, half without
                    isdir = lambda s: any(a.get("a") == "direct" for a in s["acts"])
                    d, nd = [s for s in l if isdir(s)], [s for s in l if not isdir(s)]
                    rng.shuffle(d)
                    rng.shuffle(nd)
                    l = d[:n // 2] + nd[:n - n // 2]
                elif n is not None and len(l) > n:
                    rng.shuffle(l)
                    l = l[:n]
                keep += l
            else:
                # the axis vectors (one peer off zero) carry the equality cases of heartbeat / publish / join
                axis = [s for s in l if offzero(s) <= 1]
                rest = [s for s in l if offzero(s) > 1]
                rng.shuffle(rest)
                if q and thr == "B":
                    rng.shuffle(axis)
                    axis = axis[:len(axis) // 3]
                keep += axis + rest[:cap[thr]]
    for s in keep:
        s["cfg"]["hosts"] = (7 if s["fam"] == "graftfull" else 5) if s["native"] else 12
    return keep, total


_GO_LOCK = threading.Lock()


def go_test(ctx, pkg, run, env, name, timeout=1500):
    """vlib.run_go for CONCURRENT driver processes. vlib.run_go rewrites <work>/go.alt.mod on every call when
    VERIF_REPO points at a scratch worktree; two concurrent calls race on that file (one `go` reads it while the
    other has it truncated). Here the alternative module file is written once, atomically, under a lock."""
    e = dict(os.environ)
    e.update(vlib.GOENV)
    e.pop("GOSUMDB", None)
    e.pop("GOTOOLCHAIN", None)
    e["VERIF_SEED"], e["VERIF_TIER"] = str(ctx.seed), ctx.tier
    e.update({k: str(v) for k, v in env.items()})
    modargs = []
    repo = os.path.realpath(vlib.REPO)
    with _GO_LOCK:
        if repo == "/repo":
            try:
                src, dst = os.path.join(repo, "go.sum"), os.path.join(vlib.HARNESS, "go.sum")
                if open(src).read() != open(dst).read():
                    shutil.copy(src, dst)
            except Exception:
                pass
        else:
            alt = os.path.join(ctx.work, "go.c09.mod")
            if not os.path.exists(alt):
                with open(alt + ".tmp", "w") as f:
                    f.write(open(os.path.join(vlib.HARNESS, "go.mod")).read().replace("=> /repo", "=> " + repo))
                shutil.copy(os.path.join(repo, "go.sum"), os.path.join(ctx.work, "go.c09.sum"))
                os.rename(alt + ".tmp", alt)
            modargs = ["-modfile=" + alt]
    cmd = ["go", "test"] + modargs + ["-tags", "verif", "-count", "1", "-vet=off", "-timeout", "%ds" % timeout, "-run", run, pkg]
    t0 = time.time()
    p = subprocess.run(["timeout", str(timeout + 30)] + cmd, cwd=vlib.HARNESS, env=e, stdout=subprocess.PIPE,
                       stderr=subprocess.STDOUT, text=True, errors="replace")
    logf = os.path.join(ctx.work, "go-%s.log" % name)
    with open(logf, "w") as f:
        f.write(p.stdout)
    if "[build failed]" in p.stdout or "cannot find package" in p.stdout or \
            (re.search(r"^# ", p.stdout, re.M) and "FAIL" in p.stdout and "--- FAIL" not in p.stdout and "panic:" not in p.stdout) or \
            re.search(r"^go: ", p.stdout, re.M):
        raise vlib.Inconclusive("go build of %s failed (hooks no longer fit the tree?) see %s" % (pkg, logf))
    return {"rc": p.returncode, "out": p.stdout, "wall": time.time() - t0, "log": logf}


def run_shards(ctx, scns, pkg, test, tag, shards):
    """Replay scenarios with `shards` concurrent driver processes; returns the scenarios' traces in order."""
    shards = max(1, min(shards, len(scns)))
    parts = [scns[i::shards] for i in range(shards)]

    def one(k):
        inp = os.path.join(ctx.work, "%s-in-%d.ndjson" % (tag, k))
        outp = os.path.join(ctx.work, "%s-out-%d.ndjson" % (tag, k))
        mark = os.path.join(ctx.work, "%s-marker-%d" % (tag, k))
        vlib.write_ndjson(inp, parts[k])
        r = go_test(ctx, pkg, "^%s$" % test, {"VERIF_IN": inp, "VERIF_OUT": outp, "VERIF_MARKER": mark}, "%s-%d" % (tag, k))
        return k, r, inp, outp, mark

    traces = []
    with cf.ThreadPoolExecutor(max_workers=shards) as ex:
        results = list(ex.map(one, range(shards)))
    for k, r, inp, outp, mark in results:
        if r["rc"] != 0:
            crash(ctx, r, pkg, test, inp, mark, parts[k], tag)
        if not os.path.exists(outp) or os.path.getsize(outp) == 0:
            raise vlib.Inconclusive("driver %s produced no trace (rc=%s, see %s)" % (test, r["rc"], r["log"]))
        by = {}
        for ln in vlib.read_ndjson(outp):
            by.setdefault(ln["scn"], []).append(ln)
        for i, s in enumerate(parts[k]):
            if i in by:
                traces.append((s, by[i]))
    return traces


def crash(ctx, r, pkg, test, inp, mark, part, tag):
    """A dead driver is a violation only if the same scenario alone reproduces a panic inside the library."""
    idx = None
    try:
        idx = int(open(mark).read().strip())
    except Exception:
        pass
    if "panic:" in r["out"] and idx is not None and idx < len(part):
        outp = os.path.join(ctx.work, "%s-crash.ndjson" % tag)
        r2 = go_test(ctx, pkg, "^%s$" % test, {"VERIF_IN": inp, "VERIF_OUT": outp, "VERIF_ONLY": idx}, "%s-crash" % tag, timeout=300)
        m = re.search(r"panic: (.*)", r2["out"])
        if r2["rc"] != 0 and m and re.search(r"go-libp2p-pubsub(@[^/]*)?/[a-z_]+\.go|/repo/[a-z_]+\.go|wt-[^/]*/[a-z_]+\.go", r2["out"]):
            vlib.add_violation(ctx, "P_C09_NoCrash", {"clause": "panic", "panic": m.group(1)[:80]},
                               "the node under test panicked while replaying a C09 scenario: %s" % m.group(1)[:200],
                               {"scenario": part[idx], "log": r2["log"]})
            return
    raise vlib.Inconclusive("driver %s failed (rc=%s, scenario %s, see %s)" % (test, r["rc"], idx, r["log"]))


def walks(ctx):
    """Seeded random walks of the router driver over the whole alphabet with random scores."""
    n, steps = (10, 70) if not ctx.thorough else (60, 120)
    res = []

    def one(thr):
        g, p, y, a, o = THR[thr]
        cfg = {"score": True, "thr": {"gossip": -g, "publish": -p, "graylist": -y, "acceptPX": a, "oppGraft": o}}
        outp = os.path.join(ctx.work, "walk-%s.ndjson" % thr)
        dump = os.path.join(ctx.work, "walk-%s-scn.ndjson" % thr)
        r = go_test(ctx, "./drivers/router/", "^TestRouterWalk$",
                    {"VERIF_OUT": outp, "VERIF_WALKS": n, "VERIF_STEPS": steps, "VERIF_CFG": json.dumps(cfg),
                     "VERIF_DUMP_SCN": dump, "VERIF_MARKER": os.path.join(ctx.work, "walk-marker-" + thr)}, "walk-" + thr)
        return thr, r, outp, dump

    with cf.ThreadPoolExecutor(max_workers=3) as ex:
        for thr, r, outp, dump in ex.map(one, ["A", "B", "Z"]):
            if r["rc"] != 0 or not os.path.exists(outp):
                raise vlib.Inconclusive("random walk driver failed for threshold set %s (rc=%s, see %s)" % (thr, r["rc"], r["log"]))
            scn = vlib.read_ndjson(dump) if os.path.exists(dump) else []
            by = {}
            for ln in vlib.read_ndjson(outp):
                by.setdefault(ln["scn"], []).append(ln)
            for i in sorted(by):
                s = dict(scn[i]) if i < len(scn) else {"cfg": {}, "acts": []}
                s.update({"fam": "walk", "thrset": thr, "native": True})
                res.append((s, by[i]))
    return res


def validate(ctx, traces):
    """One TLC pass per chunk of scenarios; returns (violations, coverage tags, states)."""
    chunks, cur, n = [], [], 0
    for idx, (s, lines) in enumerate(traces):
        cur.append(idx)
        n += len(lines)
        if n >= 4000:
            chunks.append(cur)
            cur, n = [], 0
    if cur:
        chunks.append(cur)

    def one(k):
        lines, owner = [], []
        for idx in chunks[k]:
            for j, ln in enumerate(traces[idx][1]):
                lines.append(ln)
                owner.append((idx, j))
        path = os.path.join(ctx.work, "tv-chunk-%d.ndjson" % k)
        vlib.write_ndjson(path, lines)
        r = vlib.run_tlc(ctx, FAMILY, "ThresholdsTrace", "ThresholdsTrace.cfg", mode="trace", files={"trace.ndjson": path},
                         timeout=900, name="tv-%d" % k, heap="3g")
        return k, r, owner

    viol, cov, states = [], set(), 0
    with cf.ThreadPoolExecutor(max_workers=max(1, min(4, vlib.NCPU // 2))) as ex:
        for k, r, owner in ex.map(one, range(len(chunks))):
            if r.hw is None or r.hw[0] < r.hw[1] or r.errors:
                raise vlib.Inconclusive("trace validation did not read chunk %d completely (see %s/tlc.out): %s" % (k, r.dir, r.errors[:2]))
            states += r.distinct
            for c in r.printed("COV"):
                cov.update(c)
            for v in r.printed("VIOL"):
                idx, j = owner[v["line"] - 1]
                viol.append((idx, j, v))
    return viol, cov, states


def run(ctx):
    stats, bugs = model_check(ctx)
    states = sum(v[0] for v in stats.values())
    transitions = sum(v[1] for v in stats.values())
    ctx.log("model checked: %s; %d seeded model defects rejected" % (stats, len(bugs)))

    gen, gstates = generate(ctx)
    states += gstates
    scns, total = select(ctx, gen)
    native = [s for s in scns if s["native"]]
    own = [s for s in scns if not s["native"]]
    ctx.log("generated %d scenarios, replaying %d (%d common driver, %d c09 driver)" % (total, len(scns), len(native), len(own)))

    shards = 4 if not ctx.thorough else 6
    with cf.ThreadPoolExecutor(max_workers=3) as ex:
        f1 = ex.submit(run_shards, ctx, native, "./drivers/router/", "TestRouterReplay", "nat", shards)
        f2 = ex.submit(run_shards, ctx, own, "./drivers/c09/", "TestC09Replay", "own", shards)
        f3 = ex.submit(walks, ctx)
        traces = f1.result() + f2.result() + f3.result()
    nlines = sum(len(t[1]) for t in traces)
    ctx.log("replayed %d scenarios / walks, %d step lines" % (len(traces), nlines))

    viol, cov, tstates = validate(ctx, traces)
    states += tstates
    transitions += tstates
    for idx, j, v in viol:
        s, lines = traces[idx]
        for e in v["v"]:
            sig = {"clause": e["clause"], "act": v["a"], "fam": s.get("fam")}
            vlib.add_violation(ctx, e["pred"], sig,
                               "%s: %s (peer/topic %s) at step %d (%s) of a %s scenario, thresholds %s" %
                               (e["pred"], e["clause"], e["who"], v["i"], json.dumps(lines[j]["act"])[:160], s.get("fam"),
                                json.dumps(lines[0]["act"]["cfg"].get("thr"))),
                               {"driver": "drivers/router" if s.get("native") else "drivers/c09",
                                "scenario": {"cfg": s.get("cfg"), "acts": s.get("acts")}, "failing_step": v["i"],
                                "prev_line": lines[j - 1] if j > 0 else None, "line": lines[j]})

    missing = [t for t in obligations() if t not in cov]
    if missing and not ctx.violations:
        raise vlib.Inconclusive("coverage obligations not met by validated real steps: %s" % missing)

    # measured evidence: distinct non-trivial steps
    distinct, samples = set(), []
    for s, lines in traces:
        thr = json.dumps(lines[0]["act"]["cfg"].get("thr"), sort_keys=True)
        for k in range(1, len(lines)):
            a = lines[k]["act"]
            if a.get("a") in ("reset", "score", "peer", "direct"):
                continue
            sc = lines[k - 1]["st"].get("scores", {})
            if not any(sc.values()) and "0" not in thr:
                continue
            shape = {x: (sorted(p for p in ("subs", "msgs", "graft", "prune", "ihave", "iwant", "idontwant") if a.get(p)) if a.get("a") == "rpc" else a.get("a")) for x in ["a"]}
            px = [e.get("rec") for pr in (a.get("prune") or []) if isinstance(pr, dict) for e in pr.get("px", [])] if a.get("a") == "rpc" else a.get("px")
            st = lines[k - 1]["st"]
            distinct.add(json.dumps([thr, shape, a.get("p"), px, sorted(sc.items()), st.get("mesh"), st.get("fanout"), st.get("direct")], sort_keys=True))
    def telling(fam, lines):
        if fam == "px":
            return any(l["conn"] for l in lines)
        if fam == "gater":
            return any(e["k"] == "Throttle" for l in lines for e in l["ev"])
        return any(l["act"].get("a") == "score" for l in lines)

    for fam in ("rpc1", "px", "gater", "fanA", "walk"):
        for s, lines in traces:
            if s.get("fam") == fam and telling(fam, lines):
                samples.append({"family": fam, "thresholds": lines[0]["act"]["cfg"].get("thr"),
                                "steps": [{"act": l["act"], "scores": l["st"].get("scores"), "mesh": l["st"].get("mesh"),
                                           "fanout": l["st"].get("fanout"), "conn": l["conn"],
                                           "sent": [{"to": e["p"], "prune": e["rpc"]["prune"], "iwant": e["rpc"]["iwant"],
                                                     "ihave": e["rpc"]["ihave"], "msgs": [m["m"] for m in e["rpc"]["msgs"]]}
                                                    for e in l["ev"] if e["k"] == "Send"]} for l in lines[-4:]]})
                break
    covd = {"states": states, "transitions": transitions, "traces_validated_against_impl": len(traces),
            "samples": samples, "evaluations": nlines, "distinct_nontrivial": len(distinct),
            "rule": "evaluation = one step line of the real node judged by ThresholdsTrace; non-trivial = a stimulus, publish, join or heartbeat "
                    "performed while some peer's score is off zero (or a threshold is zero); distinct by (threshold set, action shape, sender, "
                    "PX record classes, score vector, mesh, fanout, direct set). Scenario programs are enumerated exhaustively by TLC "
                    "(%d emitted); the per-peer families are replayed whole, score-vector families are sampled by seed" % total,
            "exhaustive": False, "mc": stats, "model_defects_rejected": bugs, "coverage_tags": sorted(cov),
            "obligations": obligations()}
    return vlib.finish(ctx, LEVEL, covd, [
        "the score seen by the router is the application score set by the scenario (behaviour-penalty weight 0, decay interval 24 h, no topic parameters, IP colocation weight 0)",
        "a step line is complete: world settles 15 ms of virtual time after every stimulus, PX connectors log their Connect call in the same step",
        "the gater's random early drop is a free choice: either verdict is accepted, control must be processed under both",
        "a peer-exchange record signed by a key other than the advertised peer's (envelope valid, PeerID matching) is not classified as a defect (DESIGN reading of 'valid')",
        "positive (at-or-above-threshold) clauses read their preconditions (counters, cache, backoff, queue presence) from the previous snapshot"])
