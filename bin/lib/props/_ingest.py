"""Shared orchestration of the in-node pipeline family (spec/ingest): C04 and the pipeline part of C02.

    run_ingest(ctx, focus) -> evidence dict of one part   (focus = "C02" or "C04")

Steps: exhaustive model checking of Ingest (all P_C02_* / P_C04_* as invariants, plus seeded variants of the
model that MUST fail), scenario generation (GenIngest under TLC -simulate, plus directed scenarios for the
coverage obligations), replay on the real node (harness/drivers/ingest), projection of the recorded step lines,
trace validation by TLC (IngestTrace evaluates the predicates on the OBSERVED deliveries, forwards, validator
calls, penalties and Publish return values), coverage obligations, evidence.  Predicates that do not belong to
the focus property are still evaluated; their failures are reported as notes (the sibling check owns them)."""
import concurrent.futures as cf
import json, os, random, re

from .. import vlib

FAMILY = "ingest"
DRIVER_PKG = "./drivers/ingest/"
A, R, I, U = 0, 1, 2, 7
VMAP = {"A": 0, "R": 1, "I": 2}

PREDS = {"C02": ["P_C02_DeliverOnce", "P_C02_ValidateOnce", "P_C02_LocalDup"],
         "C04": ["P_C04_OnlyIfAllAccept", "P_C04_Outcome", "P_C04_Penalty", "P_C04_Local", "P_C04_Applicable"]}

OBLIGATIONS = {
    "C02": ["dup_dropped_at_shouldPush", "dup_dropped_at_markSeen_in_worker", "dup_of_locally_published_id",
            "local_publish_of_seen_id_returns_nil", "dup_inside_one_rpc_on_novalidator_path",
            "dup_inside_one_rpc_on_novalidator_path_gossipsub", "dup_inside_one_rpc_on_novalidator_path_floodsub",
            "addtobatch_while_earlier_publishbatch_pending"],
    "C04": ["inline_ignore_then_async_accept_stays_ignore", "inline_ignore_plus_async_reject", "throttled_plus_ignore",
            "unknown_verdict", "timeout", "dup_during_validation_then_reject_penalised",
            "dup_during_validation_then_ignore_unpenalised", "local_reject", "dup_after_reject_with_full_queue_penalised",
            "two_topics_queued_together_with_3plus_defaults",
            "forwarder_left_before_reject_retained_record_inspected", "first_deliverer_left_before_reject", "dup_forwarder_left_before_reject",
            "batch_with_rejected_and_ignored_next_to_accepted_published"],
}

ASSUMPTIONS = [
    "ingest: scenarios are shorter than the seen-cache TTL (120 s); expiry is the subject of the time-cache part of C02",
    "ingest: validators are harness functions that block on gates, so every schedule is one in which the node is quiescent between stimuli; "
    "the exhaustive model covers the interleavings in between",
    "ingest: 'penalised' is read as the per-peer invalid-message-delivery counter of the score state (only non-zero topic weight); floodsub runs have no score",
    "ingest: copies dropped because the validation queue was full before the id was seen are not charged (they never entered the pipeline); "
    "ids whose validation ran on a LOCAL publish carry no delivery record, so no penalty is demanded for their forwarders",
    "ingest: every signature is valid except the blocker messages' (signature classes are C03's subject)",
]


# ----------------------------------------------------------------------------------------------- model checking

def _q(xs):
    return set('"%s"' % x for x in xs)


def _mc_cfg(ids, local, calls, nvmax, qcap, copies, verdicts, space, bug="none", workers=("w1", "w2"), symmetry=True, batch=1, t2=(), down=0, modes=("pub",)):
    consts = {"Fwd": {"p1", "p2"}, "Ids": set(ids), "LocalIds": set(local), "T2Ids": set(t2), "Workers": set(workers), "Calls": set(calls),
              "Subs": {"s1"}, "NVmax": nvmax, "QCap": qcap, "MaxCopies": copies, "MaxBatch": batch, "MaxDown": down, "Modes": _q(modes), "Verdicts": _q(verdicts),
              "CfgSpace": "CfgSpace <- " + space, "Bug": '"%s"' % bug}
    return vlib.cfg_text(constants=consts,
                         invariants=["TypeOK"] + PREDS["C02"] + PREDS["C04"], view="View",
                         symmetry="Sym" if symmetry else None)


ALL4 = ["A", "R", "I", "U"]
# (name, cfg text, expected violated invariants (None = must pass), timeout, allow_timeout)
def mc_plan(thorough):
    plan = [
        ("verdicts", _mc_cfg(["m1"], ["m1"], ["c1"], 3, 2, 2, ALL4, "CfgC04", batch=2), None, 600, False),
        ("two-ids", _mc_cfg(["m1", "m2"], [], [], 2, 1, 2, ["A", "R", "I"], "CfgTwo"), None, 900, False),
        ("c02-races", _mc_cfg(["m1"], ["m1"], ["c1"], 3, 2, 3, ALL4, "CfgC02", batch=3), None, 600, False),
        ("loop-path", _mc_cfg(["m1", "m2"], ["m1"], ["c1"], 0, 2, 3, ["A"], "CfgLoop", batch=3), None, 300, False),
        ("two-topics", _mc_cfg(["m1", "m2"], ["m1"], ["c1"], 3, 2, 1, ["A", "R", "I"], "CfgTopics01", t2=["m2"]), None, 300, False),
        ("disconnect", _mc_cfg(["m1"], [], [], 2, 2, 3, ["A", "R", "I"], "CfgBugAB", down=1), None, 300, False),
        ("batch-api", _mc_cfg(["m1", "m2"], ["m1", "m2"], ["c1", "c2"], 2, 2, 0, ALL4, "CfgBugA", modes=("pub", "batch")), None, 300, False),
    ]
    bugs = [("markSeenLate", "CfgBugA", ["P_C02_ValidateOnce"], 1), ("noCarry", "CfgBugA", ["P_C04_OnlyIfAllAccept", "P_C04_Outcome"], 1),
            ("unknownAccept", "CfgBugA", ["P_C04_OnlyIfAllAccept", "P_C04_Outcome", "P_C04_Local"], 1),
            ("penaliseIgnore", "CfgBugA", ["P_C04_Penalty"], 1), ("localSwallow", "CfgBugA", ["P_C04_Local", "P_C04_OnlyIfAllAccept"], 1),
            ("dupErrReturned", "CfgBugA", ["P_C02_LocalDup"], 1), ("ignoreOverThrottle", "CfgBugB", ["P_C04_Outcome"], 2),
            ("acceptOverrides", "CfgBugB", ["P_C04_OnlyIfAllAccept", "P_C04_Outcome"], 1), ("pushNoMark", "CfgBugL", ["P_C02_DeliverOnce"], 1),
            ("noSeenCheck", "CfgBugA", ["P_C04_Penalty"], 3), ("pushIgnoreResult", "CfgBugL", ["P_C02_DeliverOnce"], 4),
            ("sharedVals", "CfgTopics1", ["P_C04_Applicable", "P_C04_OnlyIfAllAccept"], 5),
            ("frozenRetained", "CfgBugAB", ["P_C04_Penalty"], 6), ("batchSharedArray", "CfgBugL", ["P_C02_DeliverOnce"], 8), ("batchKeepsFailed", "CfgBugA", ["P_C04_Local", "P_C04_OnlyIfAllAccept"], 7)]
    for bug, space, expect, shape in bugs:
        if shape == 1:
            cfg = _mc_cfg(["m1"], ["m1"], ["c1"], 2, 2, 2, ALL4, space, bug)
        elif shape == 2:   # needs a second id for the per-validator throttle
            cfg = _mc_cfg(["m1", "m2"], [], [], 2, 2, 1, ["A", "R", "I"], space, bug)
        elif shape == 8:   # one MessageBatch reused while its earlier request is pending
            cfg = _mc_cfg(["m1", "m2"], ["m1", "m2"], ["c1", "c2"], 0, 2, 0, ["A"], space, bug, modes=("batch",))
        elif shape == 6:   # a forwarder leaves while its message is being validated
            cfg = _mc_cfg(["m1"], [], [], 2, 2, 2, ["A", "R"], space, bug, down=1)
        elif shape == 7:   # AddToBatch + PublishBatch
            cfg = _mc_cfg(["m1", "m2"], ["m1", "m2"], ["c1", "c2"], 2, 2, 0, ["A", "R"], space, bug, modes=("pub", "batch"))
        elif shape == 5:   # two topics with their own validators, two messages queued together
            cfg = _mc_cfg(["m1", "m2"], [], [], 3, 2, 1, ["A", "R"], space, bug, t2=["m2"])
        elif shape == 4:   # no local publish: only two copies of one id inside ONE RPC both pass shouldPush
            cfg = _mc_cfg(["m1"], [], [], 0, 2, 2, ["A"], space, bug, batch=2)
        else:              # one worker, queue of one: a copy of a seen id meets a full queue
            cfg = _mc_cfg(["m1", "m2"], [], [], 2, 1, 2, ["A", "R"], space, bug, workers=("w1",))
        plan.append(("bug-" + bug, cfg, expect, 600, False))
    if thorough:
        plan += [
            ("batch-api-remote", _mc_cfg(["m1", "m2"], ["m1", "m2"], ["c1", "c2"], 2, 2, 1, ["A", "R", "I"], "CfgBugA", modes=("batch",)), None, 600, True),
            ("two-ids-all", _mc_cfg(["m1", "m2"], [], [], 2, 1, 2, ["A", "R", "I"], "CfgTwoAll", batch=2), None, 600, True),
            ("verdicts4", _mc_cfg(["m1"], ["m1"], ["c1"], 4, 2, 2, ALL4, "CfgC04"), None, 700, True),
            ("design-c02", _mc_cfg(["m1", "m2"], ["m1"], ["c1"], 3, 2, 3, ALL4, "CfgC02"), None, 500, True),
            ("two-ids-local", _mc_cfg(["m1", "m2"], ["m1"], ["c1"], 2, 2, 2, ["A", "R", "I"], "CfgTwoAll"), None, 600, True),
        ]
    return plan


def run_mc(ctx, thorough, pool):
    futs = []
    for name, cfg, expect, to, allow in mc_plan(thorough):
        futs.append((name, expect, allow, pool.submit(vlib.run_tlc, ctx, FAMILY, "MCIngest", cfg, timeout=to,
                                                      name="mc-" + name, workers=1)))
    return futs


def join_mc(ctx, futs):
    states = transitions = 0
    info = {}
    for name, expect, allow, f in futs:
        res = f.result()
        if expect is None:
            vlib.require_mc_ok(ctx, res, "MCIngest " + name, allow_timeout=allow)
            dist, gen = res.distinct, res.generated
            if res.timed_out:
                # no final summary: what was explored (and found free of violations) is in the last progress line
                pr = re.findall(r"Progress\(\d+\) at [^:]+:\d+:\d+: ([\d,]+) states generated \([\d,]+ s/min\), ([\d,]+) distinct states found", res.out)
                if pr:
                    gen, dist = int(pr[-1][0].replace(",", "")), int(pr[-1][1].replace(",", ""))
            states += dist
            transitions += gen
            info[name] = [dist, gen] + (["explored before the time limit, no violation"] if res.timed_out else [])
        else:
            if not set(expect) & set(res.violated):
                raise vlib.Inconclusive("MCIngest %s: expected one of %s to be violated (non-vacuity), got %s (see %s/tlc.out)" %
                                        (name, expect, res.violated, res.dir))
            info[name] = "fails %s as required" % res.violated[0]
    return states, transitions, info


# ----------------------------------------------------------------------------------------------- scenarios

def mkcfg(nv, inl=(), tmo=(), gthr=1, vthr=1, signed=True, subs=1, relay=False, deaf=False, qcap=2, workers=2, **kw):
    """nv validators numbered 1..nv; tv1 / tv2 (keyword) = the ones registered as validator of topic T1 / T2, the others
    are default validators.  Messages named n* travel on T2.  Without tv1/tv2 the variants decide whether the last
    validator is T1's topic validator."""
    c = {"nv": nv, "inl": list(inl), "tmo": list(tmo), "gthr": gthr, "vthr": vthr, "signed": signed, "subs": subs,
         "relay": relay, "deaf": deaf, "qcap": qcap, "workers": workers}
    c.update(kw)
    return c


def msg(p, m): return {"a": "msg", "p": p, "m": m}
def rpc(p, *ms): return {"a": "rpc", "p": p, "ms": list(ms)}
def rel(v, m, r): return {"a": "rel", "v": v, "m": m, "r": r}
def adv(*tv): return {"a": "adv", "tv": [{"v": v, "m": m, "r": r} for v, m, r in tv]}
def pub(m): return {"a": "pub", "m": m}
def badd(m): return {"a": "badd", "m": m}
def bpub(): return {"a": "bpub"}
def down(p): return {"a": "down", "p": p}
def held(*acts): return {"a": "held", "acts": list(acts)}
def block(m): return {"a": "block", "m": m}
def unblock(m): return {"a": "unblock", "m": m}


def directed():
    """Hand-written schedules, one per coverage obligation and per corner of the verdict algebra
    (the counterpart of C15's forced histories).  (name, cfg, acts)"""
    D = []
    add = lambda n, c, a: D.append((n, c, a))
    ia = mkcfg(2, [1])
    add("inl_ignore_async_accept", ia, [msg("p1", "m1"), rel(1, "m1", I), rel(2, "m1", A)])
    add("inl_ignore_async_reject", ia, [msg("p1", "m1"), msg("p2", "m1"), rel(1, "m1", I), rel(2, "m1", R)])
    add("inl_accept_async_accept", ia, [msg("p1", "m1"), rel(1, "m1", A), msg("p2", "m1"), rel(2, "m1", A), msg("p2", "m1")])
    add("inl_unknown_async_accept", ia, [msg("p1", "m1"), rel(1, "m1", U), rel(2, "m1", A)])
    add("inl_accept_async_unknown", ia, [msg("p1", "m1"), rel(1, "m1", A), rel(2, "m1", -1)])
    add("throttle_global_after_inline_ignore", ia,
        [msg("p1", "m1"), rel(1, "m1", A), msg("p2", "m2"), rel(1, "m2", I), msg("p1", "m2"), rel(2, "m1", A)])
    add("throttle_global_after_inline_accept", ia,
        [msg("p1", "m1"), rel(1, "m1", A), msg("p2", "m2"), rel(1, "m2", A), rel(2, "m1", R), msg("p2", "m2")])
    aa = mkcfg(2, [], gthr=2, deaf=True)
    add("throttle_validator_plus_ignore", aa,
        [msg("p1", "m1"), rel(1, "m1", R), msg("p2", "m2"), rel(1, "m2", I), rel(2, "m1", A), msg("p1", "m3"), rel(1, "m3", A), rel(2, "m3", A)])
    add("throttle_validator_plus_accept", aa,
        [msg("p1", "m1"), rel(2, "m1", R), msg("p2", "m2"), rel(2, "m2", A), rel(1, "m1", A)])
    add("throttle_validator_plus_reject", aa,
        [msg("p1", "m1"), rel(2, "m1", R), msg("p2", "m2"), msg("p1", "m2"), rel(2, "m2", R), rel(1, "m1", A)])
    add("async_reject_cancels_other", mkcfg(2, [], gthr=2), [msg("p1", "m1"), rel(1, "m1", R), msg("p2", "m1")])
    add("async_ignore_then_reject", mkcfg(2, []), [msg("p1", "m1"), rel(2, "m1", I), msg("p2", "m1"), rel(1, "m1", R)])
    add("async_ignore_then_accept", mkcfg(2, []), [msg("p1", "m1"), rel(2, "m1", I), msg("p2", "m1"), rel(1, "m1", A)])
    add("async_accept_accept", mkcfg(2, []), [msg("p1", "m1"), rel(2, "m1", A), rel(1, "m1", A), msg("p2", "m1")])
    add("unknown_inline", mkcfg(1, [1]), [msg("p1", "m1"), msg("p2", "m1"), rel(1, "m1", U), msg("p2", "m1")])
    add("unknown_async", mkcfg(1, []), [msg("p1", "m1"), rel(1, "m1", 3)])
    add("timeout_async_ignore", mkcfg(1, [], tmo=[1]), [msg("p1", "m1"), msg("p2", "m1"), adv((1, "m1", I))])
    add("timeout_inline_reject", mkcfg(2, [1], tmo=[1, 2]), [msg("p1", "m1"), adv((1, "m1", R))])
    add("timeout_async_accept", mkcfg(2, [], tmo=[2]), [msg("p1", "m1"), rel(1, "m1", A), adv((2, "m1", A))])
    add("timeout_local", mkcfg(1, [], tmo=[1], idfn="content"), [pub("m1"), adv((1, "m1", I))])
    for nm, c in (("inl", mkcfg(1, [1])), ("async", mkcfg(1, []))):
        add("dup_during_reject_" + nm, c, [msg("p1", "m1"), msg("p2", "m1"), rel(1, "m1", R), msg("p2", "m1")])
        add("dup_during_ignore_" + nm, c, [msg("p1", "m1"), msg("p2", "m1"), rel(1, "m1", I), msg("p2", "m1")])
        add("dup_same_peer_reject_" + nm, c, [msg("p1", "m1"), msg("p1", "m1"), rel(1, "m1", R), msg("p1", "m1")])
        add("dup_during_accept_" + nm, c, [msg("p1", "m1"), msg("p2", "m1"), rel(1, "m1", A), msg("p2", "m1"), msg("p1", "m1")])
    add("dup_during_throttled", ia, [msg("p1", "m1"), rel(1, "m1", A), msg("p2", "m2"), msg("p1", "m2"), rel(1, "m2", A), msg("p1", "m2"), rel(2, "m1", A)])
    lc = mkcfg(2, [1], idfn="content")
    add("local_reject", lc, [pub("m1"), rel(1, "m1", A), rel(2, "m1", R), msg("p1", "m1")])
    add("local_reject_first", lc, [pub("m1"), rel(1, "m1", R)])
    add("local_ignore", lc, [pub("m1"), rel(1, "m1", I), rel(2, "m1", A)])
    add("local_unknown", lc, [pub("m1"), rel(1, "m1", A), rel(2, "m1", U)])
    add("local_accept", lc, [pub("m1"), rel(1, "m1", A), rel(2, "m1", A), msg("p1", "m1"), pub("m1")])
    add("local_novalidators", mkcfg(0, idfn="content"), [pub("m1"), msg("p1", "m1"), pub("m1"), msg("p2", "m2"), pub("m2")])
    one = mkcfg(1, [1])
    add("dup_at_shouldPush_busy", one, [msg("p1", "m1"), block("b1"), msg("p2", "m1"), msg("p1", "m1"), rel(1, "m1", A), unblock("b1")])
    for nm, c in (("inl", one), ("async", mkcfg(1, [])), ("sigonly", mkcfg(0))):
        acts = [block("b1"), block("b2"), msg("p1", "m1"), msg("p2", "m1"), unblock("b1"), unblock("b2")]
        if c["nv"]:
            acts.append(rel(1, "m1", A))
        add("dup_at_markSeen_" + nm, c, acts + [msg("p2", "m1")])
    add("dup_at_markSeen_then_reject", one, [block("b1"), block("b2"), msg("p1", "m1"), msg("p2", "m1"), unblock("b1"), unblock("b2"), rel(1, "m1", R)])
    oc = mkcfg(1, [1], idfn="content")
    add("localdup_local_first", oc, [pub("m1"), rel(1, "m1", A), msg("p1", "m1"), pub("m1")])
    add("localdup_remote_first", oc, [msg("p1", "m1"), rel(1, "m1", A), pub("m1")])
    add("localdup_remote_in_validation", oc, [msg("p1", "m1"), pub("m1"), rel(1, "m1", A)])
    add("localdup_local_in_validation", oc, [pub("m1"), msg("p1", "m1"), rel(1, "m1", A), msg("p2", "m1")])
    add("localdup_both_before_markSeen", oc, [block("b1"), block("b2"), msg("p1", "m1"), pub("m1"), unblock("b1"), rel(1, "m1", R), unblock("b2")])
    add("localdup_remote_rejected", oc, [msg("p1", "m1"), rel(1, "m1", R), pub("m1")])
    q1 = mkcfg(1, [1], qcap=1)
    add("queue_full", q1, [msg("p1", "m1"), msg("p1", "m2"), msg("p1", "m3"), msg("p2", "m4"), msg("p2", "m3"),
                           rel(1, "m1", R), rel(1, "m2", A), rel(1, "m3", R), msg("p2", "m4"), rel(1, "m4", A)])
    add("queue_full_dup_after_reject", q1, [msg("p1", "m1"), rel(1, "m1", R), msg("p1", "m2"), msg("p1", "m3"), msg("p1", "m4"),
                                            msg("p2", "m1"), rel(1, "m2", A), rel(1, "m3", A), rel(1, "m4", A)])
    add("queue_full_dup_after_ignore", q1, [msg("p1", "m1"), rel(1, "m1", I), msg("p1", "m2"), msg("p1", "m3"), msg("p1", "m4"),
                                            msg("p2", "m1"), rel(1, "m2", A), rel(1, "m3", A), rel(1, "m4", A)])
    nos = mkcfg(0, signed=False)
    add("loop_path", nos, [msg("p1", "m1"), msg("p2", "m1"), msg("p1", "m2"), msg("p1", "m1")])
    add("loop_path_local", mkcfg(0, signed=False, idfn="content"), [pub("m2"), msg("p1", "m2"), msg("p1", "m1"), pub("m1")])
    # one RPC whose Publish list repeats a message: shouldPush runs over the whole list before any pushMsg
    for rt in ("gossipsub", "floodsub"):
        add("rpc_dup_fastpath_" + rt, mkcfg(0, signed=False, router=rt), [rpc("p1", "m1", "m2", "m1"), rpc("p1", "m1"), msg("p2", "m1"), rpc("p2", "m2", "m3", "m3", "m3")])
        add("rpc_dup_fastpath_local_" + rt, mkcfg(0, signed=False, router=rt, idfn="content"), [pub("m2"), rpc("p1", "m1", "m2", "m1", "m2"), pub("m1")])
    add("rpc_dup_sigonly", mkcfg(0), [rpc("p1", "m1", "m1", "m2"), rpc("p2", "m2", "m1")])
    add("rpc_dup_validators", mkcfg(1, [1]), [rpc("p1", "m1", "m1"), rel(1, "m1", R), rpc("p2", "m1", "m2", "m2"), rel(1, "m2", A)])
    add("rpc_dup_async", mkcfg(1, []), [rpc("p1", "m1", "m2", "m1"), rel(1, "m1", A), rel(1, "m2", I), rpc("p2", "m2", "m1")])
    # two topics with their own validators next to d default validators: messages of both topics wait in valQ together
    # (getValidators must hand every message its OWN list: defaults + the validator of its own topic)
    for dn in (0, 1, 2, 3, 4, 5):
        t1, t2 = dn + 1, dn + 2
        allv = list(range(1, dn + 3))
        ci = mkcfg(dn + 2, allv, tv1=t1, tv2=t2, t2=True)                       # everything inline
        ca = mkcfg(dn + 2, [], tv1=t1, tv2=t2, t2=True, gthr=2, vthr=4)         # everything asynchronous
        defs_m = [rel(v, "m1", A) for v in range(1, dn + 1)]
        defs_n = [rel(v, "n1", A) for v in range(1, dn + 1)]
        q2 = [block("b1"), block("b2"), msg("p1", "m1"), msg("p2", "n1"), unblock("b1"), unblock("b2")]
        add("topics_inl_d%d_own_accepts_other_rejects" % dn, ci, q2 + defs_m + [rel(t1, "m1", A)] + defs_n + [rel(t2, "n1", R), msg("p2", "m1")])
        add("topics_async_d%d_own_rejects_other_accepts" % dn, ca, q2 + defs_m + defs_n + [rel(t1, "m1", R), rel(t2, "n1", A), msg("p1", "n1")])
        if dn in (3, 5):
            # one worker, busy with an earlier message; then T2 first, T1 second, and the reverse verdicts
            c1 = mkcfg(dn + 2, [1], tv1=t1, tv2=t2, t2=True, gthr=2, vthr=4, workers=1, qcap=3)
            add("topics_oneworker_d%d" % dn, c1,
                [msg("p1", "m0"), msg("p2", "n1"), msg("p1", "m1"), msg("p2", "n2"), rel(1, "m0", R),
                 rel(1, "n1", A)] + [rel(v, "n1", A) for v in range(2, dn + 1)] + [rel(t2, "n1", I),
                 rel(1, "m1", A)] + [rel(v, "m1", A) for v in range(2, dn + 1)] + [rel(t1, "m1", A),
                 rel(1, "n2", A)] + [rel(v, "n2", A) for v in range(2, dn + 1)] + [rel(t2, "n2", R)])
    add("topics_only_t2_has_validator", mkcfg(4, [1], tv2=4, t2=True, gthr=2, vthr=4),
        [block("b1"), block("b2"), msg("p1", "n1"), msg("p2", "m1"), unblock("b1"), unblock("b2"),
         rel(1, "n1", A), rel(1, "m1", A), rel(2, "n1", A), rel(3, "n1", A), rel(2, "m1", A), rel(3, "m1", A), rel(4, "n1", R)])
    add("topics_local_publish", mkcfg(5, [1, 2], tv1=4, tv2=5, t2=True, idfn="content"),
        [pub("n1"), rel(1, "n1", A), rel(2, "n1", A), rel(3, "n1", A), msg("p1", "m1"), rel(5, "n1", R), rel(1, "m1", A), rel(2, "m1", A),
         rel(3, "m1", A), rel(4, "m1", A), msg("p1", "n1")])
    # a forwarder leaves while its message is parked in a validator: the verdict is charged to its RETAINED record
    for nm, c in (("inl", mkcfg(1, [1], router="gossipsub")), ("async", mkcfg(1, [], router="gossipsub")), ("two_async", mkcfg(2, [], router="gossipsub"))):
        last = c["nv"]
        pre = [rel(v, "m1", A) for v in range(1, last)]
        add("left_first_deliverer_reject_" + nm, c, [msg("p1", "m1"), msg("p2", "m1"), down("p1")] + pre + [rel(last, "m1", R), msg("p2", "m1")])
        add("left_dup_forwarder_reject_" + nm, c, [msg("p1", "m1"), msg("p2", "m1"), down("p2")] + pre + [rel(last, "m1", R), msg("p1", "m1")])
        add("left_first_deliverer_ignore_" + nm, c, [msg("p1", "m1"), msg("p2", "m1"), down("p1")] + pre + [rel(last, "m1", I), msg("p2", "m1")])
        add("left_dup_forwarder_ignore_" + nm, c, [msg("p1", "m1"), msg("p2", "m1"), down("p2")] + pre + [rel(last, "m1", I)])
        add("left_only_forwarder_reject_" + nm, c, [msg("p1", "m1"), down("p1")] + pre + [rel(last, "m1", R), msg("p2", "m1")])
    add("left_in_queue_reject", mkcfg(1, [1], router="gossipsub"), [block("b1"), block("b2"), msg("p1", "m1"), msg("p2", "m1"), down("p1"), unblock("b1"),
                                                                   unblock("b2"), rel(1, "m1", R)])
    # the batch API on the local side: AddToBatch runs the validators like Publish; what fails must not stay in the batch
    bc = mkcfg(2, [1], idfn="content", router="gossipsub")
    add("batch_mixed", bc, [badd("m1"), rel(1, "m1", A), rel(2, "m1", A), badd("m2"), rel(1, "m2", R), badd("m3"), rel(1, "m3", A), rel(2, "m3", I),
                            badd("m4"), rel(1, "m4", A), rel(2, "m4", A), bpub(), msg("p1", "m2"), msg("p1", "m1")])
    add("batch_mixed_unknown", bc, [badd("m1"), rel(1, "m1", I), rel(2, "m1", A), badd("m2"), rel(1, "m2", A), rel(2, "m2", A), badd("m3"),
                                    rel(1, "m3", A), rel(2, "m3", R), badd("m4"), rel(1, "m4", U), bpub(), pub("m3"), bpub()])
    add("batch_rejected_only", bc, [badd("m1"), rel(1, "m1", A), rel(2, "m1", R), bpub(), msg("p1", "m1")])
    add("batch_ignored_only", mkcfg(1, [], idfn="topic", router="gossipsub"), [badd("m1"), rel(1, "m1", I), bpub(), bpub()])
    add("batch_dup_of_remote", bc, [msg("p1", "m1"), rel(1, "m1", A), rel(2, "m1", A), badd("m1"), badd("m2"), rel(1, "m2", A), rel(2, "m2", A), bpub()])
    add("batch_two_publishes", bc, [badd("m1"), rel(1, "m1", A), rel(2, "m1", A), bpub(), badd("m2"), rel(1, "m2", R), badd("m3"), rel(1, "m3", A),
                                    rel(2, "m3", A), bpub(), badd("m1")])
    add("batch_topics", mkcfg(4, [1, 3], tv1=3, tv2=4, t2=True, idfn="content", router="gossipsub"),
        [badd("m1"), rel(1, "m1", A), rel(2, "m1", A), rel(3, "m1", R), badd("n1"), rel(1, "n1", A), rel(2, "n1", A), rel(4, "n1", I),
         badd("n2"), rel(1, "n2", A), rel(2, "n2", A), rel(4, "n2", A), badd("m2"), rel(1, "m2", A), rel(2, "m2", A), rel(3, "m2", A), bpub()])
    # batch REUSE: AddToBatch lands on the batch object while an earlier PublishBatch of the same object is still pending
    # in front of the (parked) event loop; every accepted message is delivered exactly once
    add("batch_reuse_while_pending", bc, [badd("m1"), rel(1, "m1", A), rel(2, "m1", A), badd("m2"), rel(1, "m2", A), rel(2, "m2", A),
                                          badd("m3"), rel(1, "m3", A), held(bpub(), rel(2, "m3", A)), bpub(), msg("p1", "m1")])
    add("batch_reuse_while_pending_two", mkcfg(1, [1], idfn="topic", router="gossipsub"),
        [badd("m1"), rel(1, "m1", A), badd("m2"), badd("m3"), held(bpub(), rel(1, "m2", A), rel(1, "m3", A)), bpub(), badd("m4"), rel(1, "m4", A), bpub()])
    add("batch_reuse_while_pending_reject", bc, [badd("m1"), rel(1, "m1", A), rel(2, "m1", A), badd("m2"), rel(1, "m2", A),
                                                 held(bpub(), rel(2, "m2", R)), badd("m3"), rel(1, "m3", A), rel(2, "m3", A), bpub()])
    add("batch_reuse_after_consumed", bc, [badd("m1"), rel(1, "m1", A), rel(2, "m1", A), bpub(), badd("m2"), rel(1, "m2", A), rel(2, "m2", A), bpub()])
    add("batch_novalidators", mkcfg(0, idfn="content", router="gossipsub"), [badd("m1"), badd("m2"), badd("m1"), bpub(), msg("p1", "m1")])
    add("unsigned_validators", mkcfg(2, [2], signed=False), [msg("p1", "m1"), msg("p2", "m1"), rel(2, "m1", A), rel(1, "m1", R), msg("p2", "m1")])
    add("relay_only", mkcfg(1, [1], subs=0, relay=True), [msg("p1", "m1"), rel(1, "m1", A), msg("p2", "m1"), msg("p1", "m2"), rel(1, "m2", I)])
    add("not_interested", mkcfg(1, [1], subs=0), [msg("p1", "m1"), msg("p2", "m1")])
    add("two_subscriptions", mkcfg(1, [1], subs=2), [msg("p1", "m1"), msg("p2", "m1"), rel(1, "m1", A), msg("p2", "m1")])
    add("inline_reject_skips_rest", mkcfg(3, [1, 2]), [msg("p1", "m1"), rel(1, "m1", R)])
    add("inline_ignore_then_inline_accept", mkcfg(2, [1, 2]), [msg("p1", "m1"), rel(1, "m1", I), rel(2, "m1", A)])
    add("inline_ignore_then_inline_reject", mkcfg(2, [1, 2]), [msg("p1", "m1"), rel(1, "m1", I), msg("p2", "m1"), rel(2, "m1", R)])
    f4 = mkcfg(4, [1, 3])
    add("four_all_accept", f4, [msg("p1", "m1"), rel(1, "m1", A), rel(3, "m1", A), msg("p2", "m1"), rel(4, "m1", A), rel(2, "m1", A)])
    add("four_inline_ignore_async_accept", f4, [msg("p1", "m1"), rel(1, "m1", A), rel(3, "m1", I), rel(2, "m1", A), rel(4, "m1", A)])
    add("four_async_reject_last", f4, [msg("p1", "m1"), rel(1, "m1", A), rel(3, "m1", A), msg("p2", "m1"), rel(2, "m1", I), rel(4, "m1", R)])
    add("four_local", mkcfg(4, [1, 3], idfn="topic"), [pub("m1"), rel(1, "m1", A), rel(2, "m1", A), rel(3, "m1", U), rel(4, "m1", A), msg("p1", "m1")])
    return D


def variants(cfg, acts, rng, n):
    """Concrete driver configurations of one scenario: id function, seen strategy, router, topic validator."""
    has_pub = any(a["a"] in ("pub", "badd") for a in acts)
    if any(a["a"] in ("badd", "bpub", "held") for a in acts):
        cfg = dict(cfg, router="gossipsub")          # only the gossipsub router is a BatchPublisher
    # a local publish needs a content-based id: to collide with remote copies, and because the harness names messages by
    # payload while the event tracer reports locally published ones by id only
    idfns = ["content", "topic"] if has_pub or cfg.get("idfn") in ("content", "topic") else ["default", "content", "topic"]
    routers = (cfg["router"],) if cfg.get("router") else ("gossipsub", "gossipsub", "floodsub")
    allv = [(i, s, r, t) for i in idfns for s in ("first", "last") for r in routers
            for t in ((False, True) if cfg["nv"] > 0 and "tv1" not in cfg and "tv2" not in cfg else (False,))]
    rng.shuffle(allv)
    # the first variant is always a gossipsub one (penalties are only observable there)
    allv.sort(key=lambda v: v[2] != "gossipsub")
    head, tail = allv[:1], allv[1:]
    rng.shuffle(tail)
    out = []
    for i, s, r, t in (head + tail)[:n]:
        c = dict(cfg)
        c.update({"idfn": i, "strategy": s, "router": r, "tmoMs": 20000, "drain": rng.choice([A, I])})
        c.setdefault("tv1", cfg["nv"] if t else 0)
        c.setdefault("tv2", 0)
        c["t2"] = bool(c.get("t2") or c["tv2"] or any(str(x).startswith("n") for a in acts for x in [a.get("m", "")] + list(a.get("ms", []))))
        out.append(c)
    return out


def gen_cfgs(rng, n):
    """Sample of the configuration space handed to GenIngest (python controls the distribution):
    (nv, inl, tmo, gthr, signed, deaf, subs, relay, tv1, tv2, vthr)."""
    out, seen = [], set()
    must = [(2, (1,), (), 1, True, False), (3, (1,), (), 1, True, False), (2, (), (), 2, True, True), (1, (1,), (1,), 1, True, False),
            (2, (1,), (2,), 1, True, False), (0, (), (), 1, False, False), (3, (2,), (), 2, True, True), (4, (1, 3), (), 1, True, False),
            (1, (), (), 1, True, False), (0, (), (), 1, True, False)]
    def put(nv, inl, tmo, gthr, signed, deaf, subs=1, relay=False, tv1=0, tv2=0, vthr=1):
        k = (nv, inl, tmo, gthr, signed, deaf, subs, relay, tv1, tv2, vthr)
        if k in seen:
            return
        seen.add(k)
        out.append(k)
    for m in must:
        put(*m)
    # two topics with their own validators next to 3 / 1 / 0 default validators
    put(5, (1, 2, 3, 4, 5), (), 2, True, False, 1, False, 4, 5, 2)
    put(5, (), (), 2, True, False, 1, False, 4, 5, 2)
    put(5, (1, 4), (), 2, True, True, 1, False, 4, 5, 2)
    put(3, (1,), (), 2, True, False, 1, False, 2, 3, 2)
    put(2, (2,), (), 1, True, False, 1, False, 1, 2, 1)
    put(4, (1,), (), 1, True, False, 1, False, 0, 4, 1)
    while len(out) < n:
        nv = rng.choice([0, 1, 1, 2, 2, 2, 3, 3, 4, 5])
        inl = tuple(v for v in range(1, nv + 1) if rng.random() < 0.45)
        tmo = tuple(v for v in range(1, nv + 1) if rng.random() < 0.25)
        subs, relay = rng.choice([(1, False)] * 6 + [(2, False), (0, True), (1, True), (0, False)])
        lay = rng.choice(["none", "none", "t1", "t1", "both", "t2"])
        tv1, tv2 = {"none": (0, 0), "t1": (nv, 0), "t2": (0, nv), "both": (nv - 1, nv)}[lay]
        if nv == 0 or (lay == "both" and nv < 2):
            tv1, tv2 = 0, 0
        put(nv, inl, tmo, rng.choice([1, 1, 2]), rng.random() < 0.85, rng.random() < 0.4, subs, relay, tv1, tv2, rng.choice([1, 1, 2]))
    return out


def _tla_set(xs):
    return "{" + ", ".join(str(x) for x in xs) + "}"


def gen_module(cfgs):
    recs = []
    for nv, inl, tmo, gthr, signed, deaf, subs, relay, tv1, tv2, vthr in cfgs:
        ss = "{" + ", ".join('"s%d"' % i for i in range(1, subs + 1)) + "}"
        recs.append("[nv |-> %d, inl |-> %s, tmo |-> %s, gthr |-> %d, vthr |-> %d, tv1 |-> %d, tv2 |-> %d, signed |-> %s, subs |-> %s, relay |-> %s, deaf |-> %s]" %
                    (nv, _tla_set(inl), _tla_set(tmo), gthr, vthr, tv1, tv2, vlib.tla(signed), ss, vlib.tla(relay), vlib.tla(deaf)))
    return "---- MODULE GenRun ----\nEXTENDS GenIngest\nGenCfgs == {\n  " + ",\n  ".join(recs) + " }\n====\n"


def run_gen(ctx, rng, walks, L, name, ncfg=28, min_emit=3):
    consts = {"Fwd": _q(["p1", "p2"]), "Ids": _q(["m1", "m2", "n1"]), "T2Ids": _q(["n1"]), "LocalIds": _q(["m1", "m2"]), "Workers": _q(["w1", "w2"]),
              "Calls": _q(["c1", "c2"]), "Subs": _q(["s1", "s2"]), "NVmax": 5, "QCap": 2, "MaxCopies": 3, "MaxBatch": 2, "MaxDown": 1, "Modes": _q(["pub", "batch"]), "Verdicts": _q(ALL4),
              "CfgSpace": "CfgSpace <- GenCfgs", "Bug": '"none"', "L": L, "MinEmit": min_emit, "MaxBlock": 2, "MaxAdv": 1}
    cfg = vlib.cfg_text(init="GInit", next_="GNext", constants=consts, invariants=["Emit", "GenOK"])
    g = vlib.run_tlc(ctx, FAMILY, "GenRun", cfg, mode="sim", simulate="num=%d" % walks, depth=6 * L + 10, workers=1,
                     timeout=900, name=name, files={"GenRun.tla": gen_module(gen_cfgs(rng, ncfg))})
    if g.timed_out or g.violated or g.errors:
        raise vlib.Inconclusive("GenIngest failed: violated=%s errors=%s (see %s/tlc.out)" % (g.violated, g.errors[:2], g.dir))
    return g.printed("SCN"), g.generated


def from_model(s, rng):
    """A scenario emitted by GenIngest -> (cfg, acts) in the driver's vocabulary."""
    unk = rng.choice([7, 7, 3, -1, 100])
    conv = lambda r: VMAP.get(r, unk)
    acts = []
    for a in s["acts"]:
        a = dict(a)
        if a["a"] == "rel":
            a["r"] = conv(a["r"])
        elif a["a"] == "adv":
            a["tv"] = [{"v": x["v"], "m": x["m"], "r": conv(x["r"])} for x in a["tv"]]
        acts.append(a)
    if any(a["a"] == "badd" for a in acts):
        acts.append({"a": "bpub"})      # whatever the batch still holds (nothing, when the node did what the model expects) is published
    c = dict(s["cfg"])
    return c, acts


def classify(s):
    e = s["exp"]
    kinds = sorted({a["a"] for a in s["acts"]})
    fin = tuple(sorted(tuple(sorted(v)) for v in e["finals"].values()))
    pen = any(n > 0 for d in e["pen"].values() for n in d.values())
    c = s["cfg"]
    return json.dumps([fin, sorted(e["origin"].values()), kinds, pen, c["nv"], len(c["inl"]), e["ret"], bool(e["racy"])])


def select(scns, rng, limit):
    """Stratified sample: round-robin over outcome classes, longer scenarios first inside a class."""
    seen, classes = set(), {}
    for s in scns:
        k = json.dumps([s["cfg"], s["acts"]], sort_keys=True)
        if k in seen or len(s["acts"]) < 2:
            continue
        seen.add(k)
        classes.setdefault(classify(s), []).append(s)
    for l in classes.values():
        rng.shuffle(l)
        l.sort(key=lambda s: -len(s["acts"]))
    out, keys = [], sorted(classes)
    rng.shuffle(keys)
    while len(out) < limit and keys:
        for k in list(keys):
            if classes[k]:
                out.append(classes[k].pop(0))
                if len(out) >= limit:
                    break
            else:
                keys.remove(k)
    return out, len(seen), len(classes)


# ----------------------------------------------------------------------------------------------- replay and projection

def replay(ctx, scns, name, timeout=1500):
    inp = os.path.join(ctx.work, name + "-in.ndjson")
    outp = os.path.join(ctx.work, name + "-out.ndjson")
    mark = os.path.join(ctx.work, name + "-marker")
    vlib.write_ndjson(inp, [{"cfg": s["cfg"], "acts": s["acts"]} for s in scns])
    r = vlib.run_go(ctx, DRIVER_PKG, "^TestIngestReplay$", env={"VERIF_IN": inp, "VERIF_OUT": outp, "VERIF_MARKER": mark},
                    timeout=timeout, name=name)
    if r["rc"] != 0:
        at = open(mark).read() if os.path.exists(mark) else "?"
        in_lib = bool(re.search(r"go-libp2p-pubsub(@[^/]*)?/[a-z_]+\.go", r["out"])) and "panic:" in r["out"]
        if in_lib and at.isdigit():
            # a panic inside the library: a violation only if the scenario alone reproduces it
            one = vlib.run_go(ctx, DRIVER_PKG, "^TestIngestReplay$", env={"VERIF_IN": inp, "VERIF_OUT": outp + ".one", "VERIF_ONLY": at},
                              timeout=300, name=name + "-one")
            if one["rc"] != 0 and "panic:" in one["out"]:
                m = re.search(r"panic: (.*)", one["out"])
                vlib.add_violation(ctx, "P_C12_NoPanic", {"part": "ingest", "panic": (m.group(1) if m else "")[:120]},
                                   "library panic while replaying scenario %s: %s" % (at, m.group(1) if m else "?"),
                                   {"scenario": scns[int(at)], "log": one["log"]})
                return None, r
        raise vlib.Inconclusive("driver TestIngestReplay failed at scenario %s (rc=%s, see %s)" % (at, r["rc"], r["log"]))
    if not os.path.exists(outp) or os.path.getsize(outp) == 0:
        raise vlib.Inconclusive("driver TestIngestReplay produced no trace (see %s)" % r["log"])
    lines = vlib.read_ndjson(outp)
    traces, cur = [], None
    for ln in lines:
        if ln["act"].get("a") == "reset":
            cur = [ln]
            traces.append(cur)
        elif cur is not None:
            cur.append(ln)
    if len(traces) != len(scns):
        raise vlib.Inconclusive("driver recorded %d of %d scenarios (see %s)" % (len(traces), len(scns), r["log"]))
    return traces, r


BLOCKER = re.compile(r"^b\d+$")


def _nm(x):
    return str(x).split("|")[0]


def project(idx, cfg, tr):
    """World step lines of one scenario -> the slim lines IngestTrace reads."""
    out, names = [], set()
    score = cfg.get("router", "gossipsub") == "gossipsub"
    for ln in tr:
        act = ln["act"]
        kind = act.get("a")
        s = ln["i"]
        if kind == "reset":
            continue
        if kind == "msg" and act.get("role") == "block":
            kind = "block"
        if kind in ("elapse",):
            kind = "adv"
        m = _nm(act.get("m", "")) if act.get("m") else ""
        ms = [_nm(x) for x in act.get("ms", [])] if kind == "rpc" else []
        names.update(ms)
        ev = []
        for e in ln["ev"]:
            if e["k"] not in ("Validate", "Deliver", "Reject", "Duplicate"):
                continue
            n = _nm(e.get("m", ""))
            if BLOCKER.match(n):
                continue
            ev.append({"k": e["k"], "m": n, "via": e.get("via", ""), "reason": e.get("reason", ""), "self": bool(e.get("self")), "s": s})
            names.add(n)
        val = []
        for v in ln.get("val", []):
            val.append({"e": v["e"], "v": v["v"], "m": v["m"], "local": bool(v["local"]), "r": v.get("r", -99), "how": v.get("how", ""), "s": s})
            names.add(v["m"])
        fwd, ih = [], []
        for p, frames in sorted(ln["out"].items()):
            for fr in frames:
                for mm in fr["msgs"]:
                    fwd.append({"p": p, "m": _nm(mm["m"]), "s": s})
                    names.add(_nm(mm["m"]))
                for h in fr["ihave"]:
                    for i in h["ids"]:
                        ih.append({"p": p, "m": _nm(i), "s": s})
                        names.add(_nm(i))
        dl = [{"sub": d["sub"], "m": _nm(d["m"]), "s": s} for d in ln["deliv"]]
        names.update(d["m"] for d in dl)
        pr = [{"m": x["m"], "err": x["err"], "api": x.get("api", "pub"), "s": s} for x in ln.get("pubret", [])]
        if m and not BLOCKER.match(m):
            names.add(m)
        pen = [{"p": x["p"], "n": x["n"], "c": bool(x.get("c", True))} for x in ln.get("pen", []) if x["p"] != "pb"] if score else []
        out.append({"a": kind, "scn": idx, "s": s, "m": m, "ms": ms, "p": act.get("p", ""), "ev": ev, "val": val, "fwd": fwd, "ih": ih,
                    "dl": dl, "pr": pr, "pen": pen})
    names = sorted(n for n in names if n and not BLOCKER.match(n))
    reset = {"a": "reset", "scn": idx, "s": 0, "m": "", "p": "",
             "cfg": {"nv": cfg["nv"], "tv1": cfg.get("tv1", 0), "tv2": cfg.get("tv2", 0), "nsubs": cfg["subs"], "score": score, "obs": True},
             "msgs": names, "t2": [n for n in names if n.startswith("n")],
             "peers": ["p1", "p2", "obs", "g1"] if score else [], "subs": ["s%d" % i for i in range(1, cfg["subs"] + 1)],
             "subs2": ["u%d" % i for i in range(1, cfg["subs"] + 1)] if cfg.get("t2") else [],
             "pen": []}
    return [reset] + out


# ----------------------------------------------------------------------------------------------- trace validation

def validate(ctx, traces, name, lines_per_chunk=6000, timeout=900):
    chunks, cur, n = [], [], 0
    for tr in traces:
        cur.append(tr)
        n += len(tr)
        if n >= lines_per_chunk:
            chunks.append(cur)
            cur, n = [], 0
    if cur:
        chunks.append(cur)

    def one(ci, chunk):
        path = os.path.join(ctx.work, "%s-chunk-%d.ndjson" % (name, ci))
        lines = [ln for tr in chunk for ln in tr]
        vlib.write_ndjson(path, lines)
        res = vlib.run_tlc(ctx, FAMILY, "IngestTrace", "IngestTrace.cfg", mode="trace", files={"trace.ndjson": path},
                           timeout=timeout, name="%s-%d" % (name, ci))
        if res.timed_out:
            raise vlib.Inconclusive("%s: trace validation timed out (see %s/tlc.out)" % (name, res.dir))
        if res.hw is None:
            raise vlib.Inconclusive("%s: trace validation produced no verdict (see %s/tlc.out): %s" % (name, res.dir, res.errors[:2]))
        hw, end = res.hw
        if hw < end:
            raise vlib.Inconclusive("%s: trace line %d of %s cannot be read by IngestTrace (malformed trace): %s" %
                                    (name, hw, path, res.errors[:2]))
        return res.printed("VIOL"), res.distinct
    viols, states = [], 0
    with cf.ThreadPoolExecutor(max_workers=max(1, min(vlib.NCPU // 2, 3, len(chunks)))) as ex:
        for v, st in ex.map(lambda a: one(*a), list(enumerate(chunks))):
            viols += v
            states += st
    return viols, states


def _L(a, scn, s, **kw):
    d = {"a": a, "scn": scn, "s": s, "m": "", "ms": [], "p": "", "ev": [], "val": [], "fwd": [], "ih": [], "dl": [], "pr": [], "pen": []}
    d.update(kw)
    return d


def _ev(k, m, via, s, reason="", self_=False):
    return {"k": k, "m": m, "via": via, "reason": reason, "self": self_, "s": s}


def _val(e, v, m, s, r=-99, how="", local=False):
    return {"e": e, "v": v, "m": m, "local": local, "r": r, "how": how if e == "ret" else "", "s": s}


def selftest(ctx):
    """Non-vacuity of the trace specification: hand-written observations that break each predicate must be
    reported, a correct one must not."""
    def reset(scn, nv, score=True):
        return {"a": "reset", "scn": scn, "s": 0, "m": "", "p": "", "cfg": {"nv": nv, "tv1": 0, "tv2": 0, "nsubs": 1, "score": score, "obs": True},
                "msgs": ["m1"], "t2": [], "subs2": [], "peers": ["p1", "p2", "obs", "g1"] if score else [], "subs": ["s1"], "pen": []}
    pen0 = [{"p": p, "n": 0} for p in ("g1", "obs", "p1", "p2")]
    def pen(**kw):
        return [{"p": p, "n": kw.get(p, 0)} for p in ("g1", "obs", "p1", "p2")]
    T = []
    # 1: correct accept
    T += [reset(1, 1), _L("msg", 1, 1, m="m1", p="p1", ev=[_ev("Validate", "m1", "p1", 1)], val=[_val("call", 1, "m1", 1)], pen=pen0),
          _L("rel", 1, 2, m="m1", ev=[_ev("Deliver", "m1", "p1", 2)], val=[_val("ret", 1, "m1", 2, 0, "gate")],
             fwd=[{"p": "obs", "m": "m1", "s": 2}], dl=[{"sub": "s1", "m": "m1", "s": 2}], pen=pen0), _L("end", 1, 3, pen=pen0)]
    # 2: delivered twice, validated twice
    T += [reset(2, 1), _L("msg", 2, 1, m="m1", p="p1", ev=[_ev("Validate", "m1", "p1", 1)], val=[_val("call", 1, "m1", 1)], pen=pen0),
          _L("msg", 2, 2, m="m1", p="p2", ev=[_ev("Validate", "m1", "p2", 2)], val=[_val("call", 1, "m1", 2)], pen=pen0),
          _L("rel", 2, 3, m="m1", ev=[_ev("Deliver", "m1", "p1", 3), _ev("Deliver", "m1", "p2", 3)],
             val=[_val("ret", 1, "m1", 3, 0, "gate"), _val("ret", 1, "m1", 3, 0, "gate")], fwd=[{"p": "obs", "m": "m1", "s": 3}],
             dl=[{"sub": "s1", "m": "m1", "s": 3}, {"sub": "s1", "m": "m1", "s": 3}], pen=pen0), _L("end", 2, 4, pen=pen0)]
    # 3: ignored but delivered
    T += [reset(3, 1), _L("msg", 3, 1, m="m1", p="p1", ev=[_ev("Validate", "m1", "p1", 1)], val=[_val("call", 1, "m1", 1)], pen=pen0),
          _L("rel", 3, 2, m="m1", ev=[_ev("Deliver", "m1", "p1", 2)], val=[_val("ret", 1, "m1", 2, 2, "gate")],
             fwd=[{"p": "obs", "m": "m1", "s": 2}], dl=[{"sub": "s1", "m": "m1", "s": 2}], pen=pen0), _L("end", 3, 3, pen=pen0)]
    # 4: rejected, duplicate sender not penalised; 5: ignored but penalised
    T += [reset(4, 1), _L("msg", 4, 1, m="m1", p="p1", ev=[_ev("Validate", "m1", "p1", 1)], val=[_val("call", 1, "m1", 1)], pen=pen0),
          _L("msg", 4, 2, m="m1", p="p2", ev=[_ev("Duplicate", "m1", "p2", 2)], pen=pen0),
          _L("rel", 4, 3, m="m1", ev=[_ev("Reject", "m1", "p1", 3, "validation failed")], val=[_val("ret", 1, "m1", 3, 1, "gate")], pen=pen(p1=1)),
          _L("end", 4, 4, pen=pen(p1=1))]
    T += [reset(5, 1), _L("msg", 5, 1, m="m1", p="p1", ev=[_ev("Validate", "m1", "p1", 1)], val=[_val("call", 1, "m1", 1)], pen=pen0),
          _L("rel", 5, 2, m="m1", ev=[_ev("Reject", "m1", "p1", 2, "validation ignored")], val=[_val("ret", 1, "m1", 2, 2, "gate")], pen=pen(p1=1)),
          _L("end", 5, 3, pen=pen(p1=1))]
    # 6: local publish fails validation, Publish says nil and the message leaves; 7: Publish of a seen id returns an error
    T += [reset(6, 1), _L("pub", 6, 1, m="m1", val=[_val("call", 1, "m1", 1, local=True)], pen=pen0),
          _L("rel", 6, 2, m="m1", ev=[_ev("Deliver", "m1", "self", 2, self_=True)], val=[_val("ret", 1, "m1", 2, 1, "gate", local=True)],
             fwd=[{"p": "obs", "m": "m1", "s": 2}], dl=[{"sub": "s1", "m": "m1", "s": 2}], pr=[{"m": "m1", "err": "", "s": 2}], pen=pen0),
          _L("end", 6, 3, pen=pen0)]
    T += [reset(7, 1), _L("msg", 7, 1, m="m1", p="p1", ev=[_ev("Validate", "m1", "p1", 1)], val=[_val("call", 1, "m1", 1)], pen=pen0),
          _L("pub", 7, 2, m="m1", pr=[{"m": "m1", "err": "duplicate message", "s": 2}], pen=pen0),
          _L("rel", 7, 3, m="m1", ev=[_ev("Deliver", "m1", "p1", 3)], val=[_val("ret", 1, "m1", 3, 0, "gate")],
             fwd=[{"p": "obs", "m": "m1", "s": 3}], dl=[{"sub": "s1", "m": "m1", "s": 3}], pen=pen0), _L("end", 7, 4, pen=pen0)]
    # 8: throttled reported as ignored (precedence)
    T += [reset(8, 2), _L("msg", 8, 1, m="m1", p="p1", ev=[_ev("Validate", "m1", "p1", 1)], val=[_val("call", 1, "m1", 1)], pen=pen0),
          _L("rel", 8, 2, m="m1", ev=[_ev("Reject", "m1", "p1", 2, "validation ignored")], val=[_val("ret", 1, "m1", 2, 2, "gate")], pen=pen0),
          _L("end", 8, 3, pen=pen0)]
    # 9: two topics; message m1 of the first topic is judged by the validator of the second topic (validator 3)
    r9 = reset(9, 3)
    r9["cfg"].update({"tv1": 2, "tv2": 3})
    T += [r9, _L("msg", 9, 1, m="m1", p="p1", ev=[_ev("Validate", "m1", "p1", 1)], val=[_val("call", 1, "m1", 1), _val("call", 3, "m1", 1)], pen=pen0),
          _L("rel", 9, 2, m="m1", ev=[_ev("Deliver", "m1", "p1", 2)], val=[_val("ret", 1, "m1", 2, 0, "gate"), _val("ret", 3, "m1", 2, 0, "gate")],
             fwd=[{"p": "obs", "m": "m1", "s": 2}], dl=[{"sub": "s1", "m": "m1", "s": 2}], pen=pen0), _L("end", 9, 3, pen=pen0)]
    want = {(9, "P_C04_Applicable"), (9, "P_C04_OnlyIfAllAccept"), (9, "P_C04_Outcome"), (2, "P_C02_DeliverOnce"), (2, "P_C02_ValidateOnce"), (3, "P_C04_OnlyIfAllAccept"), (3, "P_C04_Outcome"),
            (4, "P_C04_Penalty"), (5, "P_C04_Penalty"), (6, "P_C04_Local"), (6, "P_C04_OnlyIfAllAccept"), (6, "P_C04_Outcome"),
            (7, "P_C02_LocalDup"), (8, "P_C04_Outcome")}
    res = vlib.run_tlc(ctx, FAMILY, "IngestTrace", "IngestTrace.cfg", mode="trace",
                       files={"trace.ndjson": "".join(json.dumps(l) + "\n" for l in T)}, timeout=120, name="tv-selftest")
    got = {(v["scn"], v["pred"]) for v in res.printed("VIOL")}
    if res.hw is None or res.hw[0] < res.hw[1] or got != want:
        raise vlib.Inconclusive("IngestTrace self-test: expected %s, got %s (hw=%s, see %s/tlc.out)" %
                                (sorted(want), sorted(got), res.hw, res.dir))
    return res.distinct


# ----------------------------------------------------------------------------------------------- coverage and drift

def summarize(cfg, tr):
    """Per-message observations of one projected scenario (python mirror used for coverage and drift only)."""
    S = {"calls": {}, "rets": {}, "finals": {}, "deliv": {}, "dups": {}, "validate": {}, "pen": {}, "pubrets": [], "local": set(),
         "qfull": {}, "fwd": {}}
    for ln in tr[1:]:
        for v in ln["val"]:
            if v["e"] == "call":
                S["calls"].setdefault(v["m"], {}).setdefault(v["v"], 0)
                S["calls"][v["m"]][v["v"]] += 1
                if v["local"]:
                    S["local"].add(v["m"])
            else:
                S["rets"].setdefault(v["m"], []).append(v)
        for e in ln["ev"]:
            if e["k"] == "Deliver":
                S["finals"].setdefault(e["m"], set()).add("A")
                if e["self"]:
                    S["local"].add(e["m"])
            elif e["k"] == "Reject":
                f = {"validation failed": "R", "validation ignored": "I", "validation throttled": "T"}.get(e["reason"])
                if f:
                    S["finals"].setdefault(e["m"], set()).add(f)
                    if e["self"]:
                        S["local"].add(e["m"])
                if e["reason"] == "validation queue full":
                    S["qfull"].setdefault(e["m"], []).append((e["via"], ln["s"]))
            elif e["k"] == "Duplicate":
                S["dups"].setdefault(e["m"], []).append((e["via"], ln["s"], ln["a"], ln["m"]))
            elif e["k"] == "Validate":
                S["validate"][e["m"]] = (e["via"], ln["s"])
        for d in ln["dl"]:
            S["deliv"].setdefault(d["m"], {}).setdefault(d["sub"], 0)
            S["deliv"][d["m"]][d["sub"]] += 1
        for f in ln["fwd"]:
            S["fwd"][f["m"]] = S["fwd"].get(f["m"], 0) + 1
        for x in ln["pr"]:
            if x.get("api") != "bpub":
                S["pubrets"].append((x["m"], x["err"], ln["s"]))
        if ln["pen"]:
            S["pen"] = {x["p"]: x["n"] for x in ln["pen"]}
    return S


def appl(cfg, m):
    """The validators that apply to message m: the defaults plus the validator of m's own topic."""
    tv1, tv2 = cfg.get("tv1", 0), cfg.get("tv2", 0)
    own = tv2 if m.startswith("n") else tv1
    return [v for v in range(1, cfg["nv"] + 1) if v not in (tv1, tv2) or v == own]


def coverage_hits(cfg, tr, hits):
    S = summarize(cfg, tr)
    inl = set(cfg["inl"])
    def hit(k):
        hits[k] = hits.get(k, 0) + 1
    # workers known to be busy before each step: parked blockers + remote inline validator calls outstanding
    parked, inline_out = 0, set()
    seen_local_step = {}
    reject_step = {}
    for ln in tr[1:]:
        for e in ln["ev"]:
            if e["k"] == "Reject" and e["reason"] in ("validation failed", "validation ignored", "validation throttled"):
                reject_step.setdefault(e["m"], (e["reason"], ln["s"]))
    ndef = len([v for v in range(1, cfg["nv"] + 1) if v not in (cfg.get("tv1", 0), cfg.get("tv2", 0))])
    waiting, together = set(), set()
    for ln in tr[1:]:
        busy = parked + len(inline_out)
        # messages of both topics waiting in valQ at the same time (nothing is traced for a copy that just sits in the queue)
        for e in ln["ev"]:
            if e["k"] == "Validate":
                if e["m"] in together:
                    together.discard(e["m"])
                    if not together and ndef >= 3 and cfg.get("tv1") and cfg.get("tv2"):
                        hit("two_topics_queued_together_with_3plus_defaults")
                        hit("two_topics_queued_together_defaults_%d" % ndef)
                    elif not together and cfg.get("tv1") and cfg.get("tv2"):
                        hit("two_topics_queued_together_defaults_%d" % ndef)
                waiting.discard(e["m"])
        if ln["a"] == "msg" and busy >= cfg["workers"] and not ln["ev"] and not ln["val"]:
            waiting.add(ln["m"])
            if any(x.startswith("n") for x in waiting) and any(not x.startswith("n") for x in waiting):
                together = set(waiting)
        if ln["a"] == "msg":
            for e in ln["ev"]:
                if e["k"] == "Duplicate" and e["m"] == ln["m"] and e["via"] == ln["p"] and busy >= cfg["workers"]:
                    hit("dup_dropped_at_shouldPush")
        if ln["a"] == "rpc" and cfg["nv"] == 0 and not cfg["signed"]:
            for m in set(ln["ms"]):
                if ln["ms"].count(m) > 1 and any(e["k"] == "Deliver" and e["m"] == m and not e["self"] for e in ln["ev"]):
                    hit("dup_inside_one_rpc_on_novalidator_path")
                    hit("dup_inside_one_rpc_on_novalidator_path_" + cfg.get("router", "gossipsub"))
        for e in ln["ev"]:
            if e["k"] == "Duplicate" and not (ln["a"] == "msg" and ln["m"] == e["m"]) and not (ln["a"] == "rpc" and e["m"] in ln["ms"]):
                hit("dup_dropped_at_markSeen_in_worker")
            if e["k"] == "Duplicate" and e["m"] in seen_local_step and seen_local_step[e["m"]] <= ln["s"]:
                hit("dup_of_locally_published_id")
        if ln["a"] == "block":
            parked += 1
        elif ln["a"] == "unblock":
            parked -= 1
        for v in ln["val"]:
            if v["local"]:
                seen_local_step.setdefault(v["m"], ln["s"])
            elif v["v"] in inl:
                if v["e"] == "call":
                    inline_out.add((v["v"], v["m"]))
                else:
                    inline_out.discard((v["v"], v["m"]))
        for e in ln["ev"]:
            if e["self"] and e["k"] == "Deliver":
                seen_local_step.setdefault(e["m"], ln["s"])
        if ln["a"] == "pub":
            m = ln["m"]
            before = (m in S["validate"] and S["validate"][m][1] < ln["s"]) or any(
                x[0] == m and x[2] < ln["s"] and x[1] == "" for x in S["pubrets"])
            if before and any(x[0] == m and x[2] == ln["s"] and x[1] == "" for x in S["pubrets"]):
                hit("local_publish_of_seen_id_returns_nil")
    for m, rets in S["rets"].items():
        fin = S["finals"].get(m, set())
        remote = [r for r in rets if not r["local"]]
        ir = [r for r in remote if r["v"] in inl]
        ar = [r for r in remote if r["v"] not in inl]
        called = S["calls"].get(m, {})
        skipped = any(v not in called for v in appl(cfg, m))
        if any(r["r"] == I for r in ir) and ar and all(r["r"] == A for r in ar) and fin == {"I"} and not skipped:
            hit("inline_ignore_then_async_accept_stays_ignore")
        if any(r["r"] == I for r in ir) and any(r["r"] == R for r in ar) and fin == {"R"}:
            hit("inline_ignore_plus_async_reject")
        if any(r["r"] not in (A, R) for r in remote) and skipped and fin == {"T"}:
            hit("throttled_plus_ignore")
        if any(r["r"] not in (A, R, I) for r in rets) and fin == {"I"}:
            hit("unknown_verdict")
        if any(r["how"] == "timeout" for r in rets):
            hit("timeout")
        if any(r["how"] == "cancel" for r in rets):
            hit("async_cancelled_after_reject")
    for m, dl in S["dups"].items():
        if m not in S["validate"] or m not in reject_step:
            continue
        first, vs = S["validate"][m]
        reason, rs = reject_step[m]
        for via, s, _, _ in dl:
            if via != first and vs <= s < rs:
                if reason == "validation failed" and S["pen"].get(via, 0) >= 1:
                    hit("dup_during_validation_then_reject_penalised")
                if reason == "validation ignored" and S["pen"] and S["pen"].get(via, 0) == 0:
                    hit("dup_during_validation_then_ignore_unpenalised")
            if s > rs and reason == "validation failed" and S["pen"].get(via, 0) >= 1:
                hit("dup_after_reject_penalised")
    # a forwarder left between forwarding m and m's Reject verdict, and its retained record was read at the verdict
    down_step = {ln["p"]: ln["s"] for ln in tr[1:] if ln["a"] == "down"}
    sent_at = {}
    for ln in tr[1:]:
        if ln["a"] == "msg":
            sent_at.setdefault((ln["p"], ln["m"]), ln["s"])
        elif ln["a"] == "rpc":
            for x in ln["ms"]:
                sent_at.setdefault((ln["p"], x), ln["s"])
    for m, (reason, rs) in reject_step.items():
        if reason != "validation failed" or m not in S["validate"]:
            continue
        at = next((ln for ln in tr[1:] if ln["s"] == rs), None)
        for q, sd in down_step.items():
            if (q, m) in sent_at and sent_at[(q, m)] < sd < rs and at and any(x["p"] == q and not x.get("c", True) for x in at["pen"]):
                hit("forwarder_left_before_reject_retained_record_inspected")
                hit("first_deliverer_left_before_reject" if S["validate"][m][0] == q else "dup_forwarder_left_before_reject")
    # AddToBatch ... PublishBatch: a batch with a rejected and an ignored message next to accepted ones was published
    adds = []
    for ln in tr[1:]:
        adds += [(x["m"], x["err"]) for x in ln["pr"] if x.get("api") == "badd"]
        if ln["a"] == "held":
            apis = [x.get("api") for x in ln["pr"]]
            if "bpub" in apis and "badd" in apis[apis.index("bpub"):]:
                hit("addtobatch_while_earlier_publishbatch_pending")
        if any(x.get("api") == "bpub" for x in ln["pr"]):
            errs = {e for _, e in adds}
            ok = [m for m, e in adds if e == "" and any(v["k"] == "Deliver" and v["m"] == m and v["self"] for v in ln["ev"])]
            if "validation failed" in errs and "validation ignored" in errs and ok:
                hit("batch_with_rejected_and_ignored_next_to_accepted_published")
            if adds:
                hit("batch_published")
            adds = []
    for m, err, s in S["pubrets"]:
        if err == "validation failed":
            hit("local_reject")
        elif err == "validation ignored":
            hit("local_ignore")
    if S["qfull"]:
        hit("queue_full")
    return S


def full_queue_dup(cfg, tr):
    """A copy of an already rejected id arrives while both workers are busy and valQ is full, and its sender
    is charged (the step that tells a node whose shouldPush forgot the seen cache)."""
    S = summarize(cfg, tr)
    waiting, busy = 0, 0
    rej = {}
    for ln in tr[1:]:
        if ln["a"] == "msg":
            for e in ln["ev"]:
                if e["k"] == "Duplicate" and e["m"] in rej and waiting >= cfg["qcap"] and S["pen"].get(e["via"], 0) >= 1:
                    return True
            if not ln["ev"] and not ln["val"]:
                waiting += 1        # the copy sits in the queue: nothing was traced for it
        for v in ln["val"]:
            if v["e"] == "call" and not v["local"] and ln["a"] != "msg":
                waiting = max(0, waiting - 1)
        for e in ln["ev"]:
            if e["k"] == "Reject" and e["reason"] == "validation failed":
                rej[e["m"]] = ln["s"]
    return False


def drift(s, S):
    """Differences between what the real node did and what GenIngest predicted (conformance; never a verdict)."""
    e = s.get("exp")
    if not e or e.get("racy"):
        return []
    out = []
    cfg = s["cfg"]
    for m, fin in e["finals"].items():
        if sorted(S["finals"].get(m, set())) != sorted(fin):
            out.append("final(%s): model %s, node %s" % (m, sorted(fin), sorted(S["finals"].get(m, set()))))
        for sub, n in e["delivered"][m].items():
            if int(sub[1:]) > cfg["subs"]:
                continue
            if m.startswith("n"):
                sub = "u" + sub[1:]          # the subscriptions of the second topic
            if S["deliv"].get(m, {}).get(sub, 0) != n:
                out.append("delivered(%s,%s): model %d, node %d" % (sub, m, n, S["deliv"].get(m, {}).get(sub, 0)))
        for v, n in enumerate(e["calls"][m], 1):
            if S["calls"].get(m, {}).get(v, 0) != n:
                out.append("calls(%d,%s): model %d, node %d" % (v, m, n, S["calls"].get(m, {}).get(v, 0)))
    if cfg.get("router") == "gossipsub" and S["pen"]:
        for p, d in e["pen"].items():
            if S["pen"].get(p, 0) != sum(d.values()):
                out.append("penalised(%s): model %d, node %d" % (p, sum(d.values()), S["pen"].get(p, 0)))
    rets = [("nil" if err == "" else "err") for (_, err, _) in S["pubrets"]]
    want = [r for r in e["ret"].values() if r != "-"]
    if sorted(rets) != sorted(want):
        out.append("Publish returns: model %s, node %s" % (want, rets))
    return out


# ----------------------------------------------------------------------------------------------- the part

def run_ingest(ctx, focus):
    T = ctx.thorough
    rng = random.Random(ctx.seed * 1000 + (1 if focus == "C02" else 2))
    pool = cf.ThreadPoolExecutor(max_workers=4)      # 4 lanes x 1 TLC worker
    # development aid only (never set by a registered command): skip the model-level runs while trying changes of /repo
    dev_skip_mc = os.environ.get("VERIF_INGEST_DEV_SKIP_MC") == "1"
    mc_futs = run_mc(ctx, T, pool) if not dev_skip_mc else []
    st_self = selftest(ctx)

    # ---- scenarios
    raw, gen_trans = run_gen(ctx, rng, 1000 if not T else 5000, 12 if not T else 14, "gen", min_emit=3 if not T else 5)
    if T:
        raw2, t2 = run_gen(ctx, rng, 4000, 9, "gen-short", ncfg=40, min_emit=2)
        raw += raw2
        gen_trans += t2
    if not raw:
        raise vlib.Inconclusive("GenIngest emitted nothing")
    chosen, n_distinct, n_classes = select(raw, rng, 360 if not T else 2800)
    scns = []
    for name, c, acts in directed():
        for vc in variants(c, acts, rng, 2 if not T else 8):
            scns.append({"name": name, "cfg": vc, "acts": acts + [{"a": "hb"}, {"a": "hb"}], "exp": None})
    n_dir = len(scns)
    for s in chosen:
        c, acts = from_model(s, rng)
        vc = variants(c, acts, rng, 1)[0]
        scns.append({"name": "gen", "cfg": vc, "acts": acts + [{"a": "hb"}], "exp": s["exp"]})
    ctx.log("ingest: %d directed + %d generated scenarios (GenIngest: %d emitted, %d distinct, %d outcome classes)" %
            (n_dir, len(scns) - n_dir, len(raw), n_distinct, n_classes))

    # ---- replay on the real node, projection, validation by TLC
    traces, gr = replay(ctx, scns, "ingest")
    states = transitions = 0
    hits, viols, ptraces, drifts, nontrivial = {}, [], [], [], set()
    samples = []
    if traces is not None:
        ptraces = [project(i, s["cfg"], tr) for i, (s, tr) in enumerate(zip(scns, traces))]
        ctx.log("ingest: replayed in %.0fs: %d step lines" % (gr["wall"], sum(len(t) for t in ptraces)))
        viols, st = validate(ctx, ptraces, "tv-ingest")
        states += st
        transitions += st
        fq = 0
        for s, tr in zip(scns, ptraces):
            S = coverage_hits(s["cfg"], tr, hits)
            if s["name"].startswith("queue_full_dup_after_reject") and s["cfg"].get("router") == "gossipsub" and full_queue_dup(s["cfg"], tr):
                fq += 1
            d = drift(s, S)
            if d:
                drifts.append((s, d))
            kinds = {f for fs in S["finals"].values() for f in fs}
            if len(kinds) >= 1 and (S["dups"] or len(S["finals"]) >= 2 or S["pubrets"]):
                nontrivial.add(json.dumps([s["cfg"], s["acts"]], sort_keys=True))
        if fq:
            hits["dup_after_reject_with_full_queue_penalised"] = fq
        mid = len(scns) // 2
        samples = [{"scenario": {"name": scns[i]["name"], "cfg": scns[i]["cfg"], "acts": scns[i]["acts"]},
                    "trace": [{k: v for k, v in ln.items() if v not in ([], "", 0) or k in ("a",)} for ln in ptraces[i][1:12]]}
                   for i in (0, mid)]

    # ---- model checking results (ran concurrently)
    mst, mtr, mc_info = join_mc(ctx, mc_futs)
    pool.shutdown()
    states += mst + st_self
    transitions += mtr + gen_trans
    ctx.log("ingest: model checked %s" % mc_info)

    # ---- verdicts
    mine, others = set(PREDS[focus]), {}
    by_sig, nsig = {}, {}
    for v in viols:
        s = scns[v["scn"]]
        sig = {"part": "ingest", "what": v["what"]}
        if v["pred"] not in mine:
            others[v["pred"]] = others.get(v["pred"], 0) + 1
            continue
        k = (v["pred"], json.dumps(sig, sort_keys=True))
        nsig[k] = nsig.get(k, set()) | {v["scn"]}
        if k not in by_sig or len(s["acts"]) < len(scns[by_sig[k][0]["scn"]]["acts"]):
            by_sig[k] = (v, sig)
    for k, (v, sig) in sorted(by_sig.items()):
        pred = k[0]
        s = scns[v["scn"]]
        vlib.add_violation(ctx, pred, sig, "%s: message %s: %s; %s; in %d recorded scenario(s), shortest: %s cfg=%s acts=%s" %
                           (pred, v["m"], v["what"], json.dumps(v["info"], sort_keys=True), len(nsig[k]), s["name"],
                            json.dumps(s["cfg"], sort_keys=True), json.dumps(s["acts"])),
                           {"driver": "TestIngestReplay", "scenario": {"cfg": s["cfg"], "acts": s["acts"]}, "trace": ptraces[v["scn"]], "viol": v})
    if viols:
        ctx.log("ingest: %d predicate failures in %d scenarios (%d distinct signatures of %s)" %
                (len(viols), len({v["scn"] for v in viols}), len(by_sig), focus))
    for p, n in sorted(others.items()):
        ctx.notes.append("ingest: %s failed %d time(s) on the recorded traces; it is judged by the check of %s" % (p, n, p[2:5]))
    if drifts:
        ex = drifts[0]
        ctx.notes.append("MODEL-DRIFT ingest: %d of %d generated scenarios ended differently from GenIngest's prediction, e.g. %s in acts=%s cfg=%s" %
                         (len(drifts), len(scns) - n_dir, ex[1][:3], json.dumps(ex[0]["acts"]), json.dumps(ex[0]["cfg"], sort_keys=True)))
    own_viol = bool(by_sig) or any(v["sig"].get("part") == "ingest" for v in ctx.violations if isinstance(v["sig"], dict))
    missing = [o for o in OBLIGATIONS[focus] if not hits.get(o)]
    if missing and not own_viol:
        raise vlib.Inconclusive("ingest: coverage obligations not met by validated real steps: %s" % missing)
    n_gen = len(scns) - n_dir
    # (a drift that comes with failures of the sibling property's predicates is explained by them)
    if n_gen and len(drifts) > max(3, n_gen // 10) and not own_viol and not others:
        raise vlib.Inconclusive("ingest: the real node disagrees with GenIngest's prediction in %d of %d generated scenarios "
                                "although no predicate failed (model or driver out of step): %s" % (len(drifts), n_gen, drifts[0][1][:3]))
    return {"part": "ingest", "states": states, "transitions": transitions, "traces": len(ptraces), "samples": samples,
            "evaluations": len(ptraces) * len(PREDS[focus]), "distinct_nontrivial": len(nontrivial), "hits": hits,
            "rule": "ingest: scenario = validator layout + stimulus sequence (copies, gate releases with verdicts, timeouts, local publishes, "
                    "worker blockers) emitted by GenIngest under TLC -simulate (stratified sample over outcome classes) or directed; one evaluation = "
                    "one predicate of %s on one recorded scenario; non-trivial = at least one message reached an outcome and the scenario has a "
                    "duplicate copy, a second message or a local publish; distinct by (configuration, stimulus sequence)" % focus,
            "exhaustive": False, "mc": mc_info, "generated": n_gen, "directed": n_dir, "drift": len(drifts),
            "predicates": PREDS[focus], "obligations": {o: hits.get(o, 0) for o in OBLIGATIONS[focus]},
            "assumptions": ASSUMPTIONS}
