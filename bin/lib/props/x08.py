"""X08 - the buffered event tracers (tracer.go): JSONTracer / PBTracer (lossless, ordered, exactly once, no lost
wake-up, Trace never waits for the writer, Close flushes and terminates, idempotent Close) and RemoteTracer (bounded
memory, in-order duplicate-free delivery, loss only through stream failure, re-open, termination).

spec/tracer: Tracer (basicTracer + file writer goroutine at lock / channel-operation grain; exhaustive MC, one seeded
model defect per property MUST fail), RemoteTracer (writer loop of the remote tracer with stream failures, unreachable
collector, context; ditto), GenTracer / GenRemote (scenario generators: exhaustive up to a bound + seeded simulation),
TracerTrace / RemoteTrace (trace specifications).

Real code: harness/drivers/x08 - TLC scenarios on tracers over a gated writer inside synctest bubbles (TestX08File),
forced schedules through the library's own constructors on a one-page named pipe (TestX08Fifo), the constructors on
regular files (TestX08RealFile), concurrent stress rounds (TestX08Stress), TLC scenarios on a real RemoteTracer over
simnet hosts under virtual time with stream resets / collector restarts / write gate / cancellation (TestX08Remote),
and the tracer inside a real node (TestX08Node)."""
import concurrent.futures as cf
import json, os, random, re
from .. import vlib

LEVEL = "model_checking"
FAMILY = "tracer"

# (config, must-fail property or None, thorough only)
MC_TRACER = [("MCTracer.cfg", None, False), ("MCTracerStuck.cfg", None, False), ("MCTracerLossy.cfg", None, False),
             ("MCTracer2.cfg", None, True), ("MCTracerNoFlushEquiv.cfg", None, True),
             ("MCTracerBugChan0.cfg", "P_X08_NoLostWakeup", False),
             ("MCTracerBugNoGuardTrace.cfg", "P_X08_AfterClose", False),
             ("MCTracerBugNoGuardClose.cfg", "P_X08_NoPanic", False),
             ("MCTracerBugNoCloseFile.cfg", "P_X08_FileClosedLast", False),
             ("MCTracerBugSwap.cfg", "P_X08_Conservation", False),
             ("MCTracerBugLockAcross.cfg", "P_X08_CallersFinish", False),
             ("MCTracerBugNoBound.cfg", "P_X08_Bounded", False),
             ("MCTracerBugAlwaysDrop.cfg", "P_X08_NoDropUnlessLossy", False)]
MC_REMOTE = [("MCRemote.cfg", None, False), ("MCRemoteNoFail.cfg", None, False), ("MCRemoteDown.cfg", None, False),
             ("MCRemoteEarlyExitEquiv.cfg", None, True), ("MCRemoteEarlyExitEquivNoFail.cfg", None, True),
             ("MCRemoteBugCloseIgnored.cfg", "P_X08_CloseTerminates", False),
             ("MCRemoteBugNoBound.cfg", "P_X08_Bounded", False),
             ("MCRemoteBugRequeue.cfg", "P_X08_Subsequence", False),
             ("MCRemoteBugSwap.cfg", "P_X08_LossOnlyOnFailure", False),
             ("MCRemoteBugCtx.cfg", "P_X08_CloseAndCancelTerminate", False)]

# remote scenarios every run contains (each one is the shortest witness of one coverage obligation)
REMOTE_CORE = [
    {"down0": False, "ops": ["tr1", "adv", "tr4", "adv", "burst", "adv", "cl", "adv"]},
    {"down0": False, "ops": ["tr1", "adv", "reset", "tr1", "adv", "tr1", "adv", "tr1", "adv"]},
    {"down0": False, "ops": ["tr1", "adv", "down", "tr1", "adv", "cl", "adv61", "adv61"]},
    {"down0": True, "ops": ["tr1", "adv", "up", "adv61", "tr1", "adv"]},
    {"down0": False, "ops": ["gon", "tr1", "adv", "burst", "goff", "adv"]},
    {"down0": False, "ops": ["tr1", "adv", "down", "tr1", "adv", "up", "adv61", "tr1", "adv", "tr1", "adv"]},
    {"down0": False, "ops": ["tr1", "adv", "down", "tr1", "adv", "cancel", "adv"]},
    {"down0": False, "ops": ["tr1", "adv", "reset", "burst", "adv", "burst", "adv"]},
    {"down0": False, "ops": ["tr1", "tr1", "cl", "tr1", "cl", "adv"]},
    {"down0": True, "ops": ["burst", "burst", "up", "adv61", "adv"]},
    {"down0": False, "ops": ["gon", "tr1", "adv", "reset", "tr1", "goff", "adv", "tr1", "adv"]},
]
FILE_CORE = [
    {"ops": ["gon", "tr", "par", "step", "par", "goff"]},
    {"ops": ["gon", "tr", "par", "step", "par", "step", "step", "tr", "goff", "cl"]},
    {"ops": ["gon", "tr", "tr", "tr", "cl", "tr", "cl", "goff"]},
    {"ops": ["gon", "tr", "par", "par", "tr", "goff", "tr", "cl"]},
    {"ops": ["tr", "gon", "tr", "trc", "step", "goff"]},
]


def model_check(ctx):
    jobs = [("Tracer", c, must, th) for c, must, th in MC_TRACER] + [("RemoteTracer", c, must, th) for c, must, th in MC_REMOTE]
    jobs = [j for j in jobs if ctx.thorough or not j[3]]
    if os.environ.get("VERIF_X08_SKIP_MC"):      # development aid for trying seeded changes of /repo: the models do not depend on it
        return 1, 1, {"skipped": True}

    def one(job):
        mod, cfg, must, _ = job
        module = "MCTracer" if mod == "Tracer" else "RemoteTracer"
        return vlib.run_tlc(ctx, FAMILY, module, cfg, timeout=1200, workers=2 if cfg == "MCTracer2.cfg" else 1,
                            name="mc-" + cfg[:-4], heap="2g")

    with cf.ThreadPoolExecutor(max_workers=4) as ex:
        results = list(ex.map(one, jobs))
    states = transitions = 0
    info = {}
    for (mod, cfg, must, _), res in zip(jobs, results):
        if must:
            vlib.require_mc_fails(ctx, res, "%s %s (seeded model defect)" % (mod, cfg), must)
            info[cfg[:-4]] = "fails %s as required" % must
        else:
            vlib.require_mc_ok(ctx, res, "%s %s" % (mod, cfg))
            states += res.distinct
            transitions += res.generated
            info[cfg[:-4]] = [res.distinct, res.generated]
    return states, transitions, info


def dedupe(scns):
    seen, out = set(), []
    for s in scns:
        k = json.dumps(s, sort_keys=True)
        if k not in seen:
            seen.add(k)
            out.append(s)
    return out


def gen_cached(ctx, module, consts, emit, sim=None, depth=None, name="gen"):
    """One generator run; its output is a function of the spec text, the constants and (for -simulate) the seed, so it is
    kept under work/ (git-ignored, rebuilt when absent): repeated checks do not pay four JVM starts."""
    import hashlib
    h = hashlib.sha1(open(os.path.join(vlib.SPEC, FAMILY, module + ".tla"), "rb").read())
    h.update(json.dumps([consts, emit, sim, depth, ctx.seed if sim else 0], sort_keys=True).encode())
    d = os.path.join(vlib.WORK, ".x08-gencache")
    os.makedirs(d, exist_ok=True)
    path = os.path.join(d, h.hexdigest()[:20] + ".json")
    if os.path.exists(path) and not os.environ.get("VERIF_X08_NOCACHE"):
        try:
            c = json.load(open(path))
            return c["scns"], c["distinct"], c["generated"]
        except Exception:
            pass
    cfg = vlib.cfg_text(constants=consts, invariants=[emit])
    if sim:
        g = vlib.run_tlc(ctx, FAMILY, module, cfg, mode="sim", simulate="num=%d" % sim, depth=depth, workers=1, timeout=600, name=name)
    else:
        g = vlib.run_tlc(ctx, FAMILY, module, cfg, timeout=900, name=name, workers=2, heap="3g")
    vlib.require_mc_ok(ctx, g, "%s %s" % (module, consts))
    scns = dedupe(g.printed("SCN"))
    if not scns:
        raise vlib.Inconclusive("generator %s emitted nothing (see %s/tlc.out)" % (name, g.dir))
    tmp = path + ".%d.tmp" % os.getpid()
    with open(tmp, "w") as f:
        json.dump({"scns": scns, "distinct": g.distinct, "generated": g.generated}, f)
    os.replace(tmp, path)
    return scns, g.distinct, g.generated


def generate(ctx):
    """Exhaustive enumeration up to a bound plus seeded long walks (TLC -simulate), for both generators."""
    rng = random.Random(ctx.seed)
    L, Lr = (6, 5) if ctx.thorough else (5, 4)
    plans = [("GenTracer", {"L": L, "MaxClose": 2, "MaxAfter": 2}, "Emit", None, None, "gen-file"),
             ("GenTracer", {"L": 12, "MaxClose": 2, "MaxAfter": 3}, "EmitLong", 4000 if ctx.thorough else 400, 14, "gen-file-sim"),
             # remote tracer: a run costs ~40 ms of wall per scenario, so the enumeration is sampled by the seed
             ("GenRemote", {"L": Lr, "MaxAfter": 3, "Max61": 2}, "Emit", None, None, "gen-remote"),
             ("GenRemote", {"L": 9, "MaxAfter": 3, "Max61": 2}, "EmitLong", 1500 if ctx.thorough else 150, 11, "gen-remote-sim")]
    with cf.ThreadPoolExecutor(max_workers=2) as ex:
        res = list(ex.map(lambda p: gen_cached(ctx, p[0], p[1], p[2], p[3], p[4], p[5]), plans))
    (file_exh_scns, s1, t1), (file_long, _, _), (rem_all, s2, t2), (rem_long, _, _) = res
    st, tr = s1 + s2, t1 + t2
    file_exh = len(file_exh_scns)
    file_scns = dedupe(FILE_CORE + file_exh_scns + file_long)
    rem_all, rem_long = list(rem_all), list(rem_long)
    n_enum, n_long = (4200, 1200) if ctx.thorough else (330, 90)
    rem_all.sort(key=lambda x: json.dumps(x, sort_keys=True))      # TLC's print order depends on its worker threads
    rem_long.sort(key=lambda x: json.dumps(x, sort_keys=True))
    short = [x for x in rem_all if len(x["ops"]) <= 3]
    rng.shuffle(rem_all)
    rng.shuffle(rem_long)
    rng.shuffle(short)
    rem = dedupe(REMOTE_CORE + short[:n_enum // 3] + rem_all[:n_enum] + rem_long[:n_long])
    return file_scns, file_exh, rem, len(rem_all), st, tr


# ----------------------------------------------------------------------------- classification of rejected lines

def classify_file(sc, k, test):
    bad = sc[k] if k < len(sc) else {}
    e = bad.get("e")
    reset = sc[0]
    base = {"driver": test, "line": e, "ctor": reset.get("ctor"), "shape": reset.get("shape", "scn")}
    if e == "ret":
        return "P_X08_NoPanic", dict(base, kind="panic" if str(bad.get("res", "")).startswith("panic") else "result", op=next(
            (x.get("op") for x in sc[:k] if x.get("e") == "call" and x.get("id") == bad.get("id")), None))
    if e == "w":
        fclosed = any(x.get("e") == "wclose" for x in sc[:k])
        kind = "corrupt-event" if bad.get("x", 0) < 0 else ("write-after-file-closed" if fclosed else "unexpected-event")
        return "P_X08_Order", dict(base, kind=kind)
    if e == "wclose":
        return "P_X08_CloseFlushes", dict(base, kind="file-closed-early-or-twice")
    if e == "quiet":
        closed = any(x.get("e") == "ret" and any(c.get("e") == "call" and c.get("id") == x.get("id") and c.get("op") == "close"
                                                for c in sc[:k]) for x in sc[:k])
        fclosed = any(x.get("e") == "wclose" for x in sc[:k])
        gate = next((x["on"] for x in reversed(sc[:k]) if x.get("e") == "gate"), False)
        if bad.get("blocked"):
            return "P_X08_NonBlocking", dict(base, kind="call-did-not-return", gate=gate)
        if bad.get("buf") == -1:
            return "P_X08_NonBlocking", dict(base, kind="mutex-held-by-writer-during-write", gate=gate)
        if reset.get("lossy") and bad.get("buf", 0) > reset.get("bound", 0) + 1:
            return "P_X08_Bounded", dict(base, kind="buffer-above-bound")
        if not reset.get("lossy") and gate and bad.get("buf", 0) <= reset.get("bound", 0) + 1 < sum(
                1 for x in sc[:k] if x.get("e") == "call" and x.get("op") == "trace") - sum(1 for x in sc[:k] if x.get("e") == "w") - 1:
            return "P_X08_NoDropUnlessLossy", dict(base, kind="non-lossy-tracer-dropped", buf=bad.get("buf"))
        nw = sum(1 for x in sc[:k] if x.get("e") == "w")
        ncall = sum(1 for x in sc[:k] if x.get("e") == "call" and x.get("op") == "trace")
        if closed and not fclosed and not gate and bad.get("buf", 0) == 0:
            return "P_X08_CloseTerminates", dict(base, kind="file-not-closed-after-close")
        return "P_X08_NoLostWakeup", dict(base, kind="unwritten-events-or-buffer-mismatch", gate=gate, written=nw, calls=ncall,
                                          buf=bad.get("buf"), wpos=bad.get("wpos"))
    return "P_X08_Conformance", dict(base, kind="unexplained-line")


def classify_remote(sc, k):
    bad = sc[k] if k < len(sc) else {}
    e = bad.get("e")
    base = {"driver": "TestX08Remote", "line": e}
    bound = sc[0].get("bound", 0)
    if e in ("traceret", "closeret"):
        return "P_X08_NoPanic", dict(base, kind="panic")
    if e == "rx":
        seen = [x for ln in sc[:k] if ln.get("e") == "rx" for x in ln["xs"]]
        traced = [ln["x"] for ln in sc[:k] if ln.get("e") == "tr"]
        xs = bad.get("xs", [])
        if any(x in seen for x in xs):
            kind = "duplicate"
        elif any(x not in traced or x < 0 for x in xs):
            kind = "not-traced"
        elif seen and xs and min(xs) < max(seen) or xs != sorted(xs):
            kind = "out-of-order"
        else:
            kind = "dropped-or-unjustified-gap"
        return "P_X08_Subsequence", dict(base, kind=kind)
    if e == "quiet":
        closed = any(x.get("e") == "close" for x in sc[:k])
        canc = any(x.get("e") == "cancel" for x in sc[:k])
        if bad.get("buf", 0) > bound + 1:
            return "P_X08_Bounded", dict(base, kind="buffer-above-bound", buf=bad.get("buf"))
        if bad.get("wpos") == "gone" and not closed and not canc:
            return "P_X08_WriterAlive", dict(base, kind="writer-exited-unasked")
        if closed and bad.get("wpos") != "gone" and bad.get("long", 0) >= 1:
            return "P_X08_RemoteCloseTerminates", dict(base, kind="writer-alive-after-close", wpos=bad.get("wpos"), cancelled=canc)
        if canc and bad.get("wpos") == "open":
            return "P_X08_RemoteCloseTerminates", dict(base, kind="retry-loop-ignores-context")
        if bad.get("wpos") == "open":
            return "P_X08_Reopens", dict(base, kind="still-in-retry-loop")
        return "P_X08_Delivery", dict(base, kind="undelivered-or-buffer-mismatch", buf=bad.get("buf"), wpos=bad.get("wpos"),
                                      long=bad.get("long"))
    return "P_X08_Conformance", dict(base, kind="unexplained-line")


# ----------------------------------------------------------------------------- coverage on validated real steps

def file_coverage(scns, cov):
    for sc in scns:
        gate, closed_ret, closes, pending_at_close = False, False, 0, False
        calls = {}
        lossy, bound = sc[0].get("lossy"), sc[0].get("bound", 0)
        last_quiet = None
        for ln in sc[1:]:
            e = ln.get("e")
            if e == "gate":
                gate = ln["on"]
            elif e == "call":
                calls[ln["id"]] = ln["op"]
                if ln["op"] == "trace" and closed_ret:
                    cov["trace_after_close"] += 1
                if ln["op"] == "close":
                    closes += 1
                    if closes == 2:
                        cov["double_close"] += 1
                    if last_quiet and last_quiet.get("buf", 0) > 0:
                        cov["close_with_events_in_buffer"] += 1
                        pending_at_close = True
                    if last_quiet and last_quiet.get("wpos") == "gate":
                        cov["close_while_writer_in_write"] += 1
            elif e == "ret":
                if calls.get(ln["id"]) == "close":
                    closed_ret = True
            elif e == "step" and ln.get("ok"):
                cov["single_write_steps"] += 1
            elif e == "quiet":
                if gate and ln.get("wpos") == "gate" and ln.get("buf", 0) > 0:
                    cov["trace_while_writer_in_write"] += 1
                if gate and ln.get("wpos") == "gate" and closed_ret:
                    # finding X08-F1: a Close call has returned while the writer goroutine still sits in its write
                    cov["close_returned_while_writer_in_write"] += 1
                if lossy and ln.get("buf", 0) == bound + 1:
                    cov["lossy_buffer_at_bound"] += 1
                if not lossy and ln.get("buf", 0) > bound + 1:
                    cov["nonlossy_buffer_above_bound"] += 1
                last_quiet = ln
        # a lossy tracer accepted fewer events than were traced before anybody called Close: the bound check dropped some
        first_close = next((i for i, ln in enumerate(sc) if ln.get("e") == "call" and ln.get("op") == "close"), len(sc))
        ncalls = sum(1 for ln in sc[:first_close] if ln.get("e") == "call" and ln.get("op") == "trace")
        nw = sum(1 for ln in sc if ln.get("e") == "w")
        if lossy and nw < ncalls:
            cov["lossy_drops"] += 1
        if sc[0].get("shape") in ("wake", "wake2", "closefull", "par", "many"):
            cov["fifo:%s:%s" % (sc[0]["ctor"], sc[0]["shape"])] += 1
        if sc[0].get("shape") == "file" and any(ln.get("e") == "wclose" for ln in sc):
            cov["realfile:%s" % sc[0]["ctor"]] += 1
        pend = [ln for ln in sc if ln.get("e") == "call"]
        for a, b in zip(pend, pend[1:]):
            i, j = sc.index(a), sc.index(b)
            if j == i + 1:
                cov["concurrent_calls"] += 1
                break


def remote_coverage(scns, cov):
    for sc in scns:
        closed = canc = False
        lastw = None
        nopen = 0
        broke = False
        bound = sc[0].get("bound", 0)
        for ln in sc[1:]:
            e = ln.get("e")
            if e == "rx":
                cov["batches"] += 1
                if len(ln["xs"]) >= sc[0].get("min", 1 << 30):
                    cov["full_batches"] += 1
                if broke:
                    cov["delivery_after_failure"] += 1
            elif e == "open":
                nopen += 1
                if nopen >= 2:
                    cov["stream_reopened"] += 1
            elif e in ("break", "down"):
                broke = True
                cov["stream_failures"] += 1
            elif e == "end" and ln.get("how") == "eof":
                cov["clean_stream_close"] += 1
            elif e == "close":
                closed = True
            elif e == "cancel":
                canc = True
                if lastw == "open":
                    cov["cancel_in_retry_loop"] += 1
            elif e == "quiet":
                cov["wpos_" + ln["wpos"]] += 1
                if ln["buf"] == bound + 1:
                    cov["buffer_at_bound"] += 1
                if closed and ln["wpos"] == "gone" and not canc:
                    cov["exit_after_close"] += 1
                lastw = ln["wpos"]


class Counter(dict):
    def __missing__(self, k):
        return 0


def run(ctx):
    samples = []
    with cf.ThreadPoolExecutor(max_workers=1) as bg:
        mc_future = bg.submit(model_check, ctx)
        file_scns, file_exh, rem_scns, rem_total, gst, gtr = generate(ctx)
        ctx.log("scenarios: file %d (exhaustive part %d), remote %d (of %d enumerated + long walks)" %
                (len(file_scns), file_exh, len(rem_scns), rem_total))
        file_in = os.path.join(ctx.work, "file-scenarios.ndjson")
        vlib.write_ndjson(file_in, file_scns)
        shards = 4 if ctx.thorough else 3
        rem_in = []
        for i in range(shards):
            p = os.path.join(ctx.work, "remote-scenarios-%d.ndjson" % i)
            vlib.write_ndjson(p, rem_scns[i::shards])
            rem_in.append(p)

        # ---- real code
        jobs = [("TestX08File", file_in, "file")]
        jobs += [("TestX08Fifo", None, "fifo"), ("TestX08RealFile", None, "realfile"), ("TestX08Stress", None, "stress"),
                 ("TestX08Node", None, "node")]
        jobs += [("TestX08Remote", p, "remote%d" % i) for i, p in enumerate(rem_in)]

        def drive(job):
            test, inp, name = job
            outp = os.path.join(ctx.sub("drv-" + name), name + ".ndjson")
            env = {"VERIF_OUT": outp}
            if inp:
                env["VERIF_IN"] = inp
            r = vlib.run_go(ctx, "./drivers/x08/", "^%s$" % test, env=env, timeout=2400, name=name)
            return job, outp, r

        first = drive(jobs[0])          # builds the test binary once; the others then hit the build cache
        with cf.ThreadPoolExecutor(max_workers=4) as ex:
            driven = [first] + list(ex.map(drive, jobs[1:]))
        states, transitions, mcinfo = mc_future.result()
    states += gst
    transitions += gtr
    ctx.log("model checking: %s" % mcinfo)

    file_scs, remote_scs, died = [], [], []        # file_scs: (driver, scenario)
    for (test, inp, name), outp, r in driven:
        if not os.path.exists(outp) or os.path.getsize(outp) == 0:
            # no verdict from this driver; what the others recorded is still judged (a violation there stands)
            died.append((name, r))
            ctx.log("%s: no trace (rc=%s)" % (name, r["rc"]))
            continue
        lines = vlib.read_ndjson(outp)
        for ln in lines:
            if ln.get("e") == "hang":
                # the watchdog saw a call parked on the tracer's mutex while the writer goroutine sits in its write
                stuck = [c for c in ln.get("callers", []) if "Mutex" in c or "sync" in c]
                if stuck and (ln.get("writerAtGate") or name.startswith("remote")):
                    vlib.add_violation(ctx, "P_X08_NonBlocking", {"driver": test, "kind": "call-parked-on-mutex-held-by-writer"},
                                       "%s: %s never returned: parked on the tracer's mutex (the one Trace and Close take) while the writer "
                                       "goroutine is inside its write / sleep: it holds the mutex there (no progress for %ss of real time; "
                                       "goroutine dump)" % (test, stuck, ln.get("secs")), ln)
                elif ln.get("writerBusy"):
                    vlib.add_violation(ctx, "P_X08_CloseTerminates", {"driver": test, "kind": "writer-spins"},
                                       "%s: the writer goroutine keeps running without blocking (no quiescence for %ss)" % (test, ln.get("secs")), ln)
        if r["rc"] != 0:
            died.append((name, r))
        scs = vlib.split_scenarios([ln for ln in lines if ln.get("e") != "hang"])
        if name.startswith("remote"):
            remote_scs += scs
        else:
            file_scs += [(test, sc) for sc in scs]
        ctx.log("%s: %d scenarios, %d lines (rc=%s)" % (name, len(scs), len(lines), r["rc"]))

    # ---- validation by TLC (both trace specifications at the same time)
    body = [sc for _, sc in file_scs]
    with cf.ThreadPoolExecutor(max_workers=2) as ex:
        f1 = ex.submit(vlib.validate_by_cursor, ctx, FAMILY, "TracerTrace", "TracerTrace.cfg", body, chunk=1500, name="tv-file")
        f2 = ex.submit(validate_remote, ctx, remote_scs, "remote")
        (rej, acc, st1), (rrej, racc, st2, nfind) = f1.result(), f2.result()
    states += st1 + st2
    total = len(body) + len(remote_scs)
    cov, rcov, nontrivial = Counter(), Counter(), set()

    rejected = {i for i, _, _ in rej}
    file_coverage([sc for i, sc in enumerate(body) if i not in rejected], cov)
    for sc in body:
        if any(ln.get("e") == "w" for ln in sc) and len([1 for ln in sc if ln.get("e") == "call"]) >= 2:
            nontrivial.add(json.dumps([[ln.get("e"), ln.get("op"), ln.get("on")] for ln in sc if ln.get("e") in ("call", "gate", "step")] +
                                      [sc[0].get("kind"), sc[0].get("lossy"), sc[0].get("ctor")]))
    for drv in ("TestX08File", "TestX08Fifo", "TestX08Node"):
        mine = [sc for t, sc in file_scs if t == drv]
        if mine:
            samples.append({"driver": drv, "trace": mine[len(mine) // 2][:16]})
    for i, k, inv in rej:
        test = file_scs[i][0]
        pred, sig = classify_file(body[i], k, test)
        bad = body[i][k] if k < len(body[i]) else None
        vlib.add_violation(ctx, pred, sig, "%s: line %d of a scenario is not explainable by the abstract tracer: %s (scenario starts %s)" %
                           (test, k, json.dumps(bad), json.dumps(body[i][0])), {"driver": test, "scenario": body[i], "failing_line": k})
    # finding X08-F1: events reached the file only after Close() had returned (the caller has no way to wait for the writer)
    late = [sc for i, sc in enumerate(body) if i not in rejected and any(
        ln.get("e") == "note" and ln.get("op") == "at-close-return" and ln["have"] < ln["want"] for ln in sc)]
    nreal = sum(1 for t, _ in file_scs if t == "TestX08RealFile")
    cov["realfile_incomplete_at_close_return"] = len(late)
    if late:
        ln = next(l for l in late[0] if l.get("op") == "at-close-return")
        vlib.add_violation(ctx, "P_X08_CloseSynchronous", {"kind": "close-returns-before-flush", "forced": False},
                           "TestX08RealFile (regular file, library constructor, nothing held): the file read when Close() returned held %d of %d "
                           "events (%d such runs of %d); the writer goroutine completed it later" % (ln["have"], ln["want"], len(late), nreal),
                           {"driver": "TestX08RealFile", "scenario": late[0][:6]})
    if cov["close_returned_while_writer_in_write"]:
        vlib.add_violation(ctx, "P_X08_CloseSynchronous", {"kind": "close-returns-before-flush", "forced": True},
                           "Close() returned while the writer goroutine was still held in its write with accepted events unwritten "
                           "(%d quiescence points, gated writer / full pipe)" % cov["close_returned_while_writer_in_write"], None)

    rrejected = {i for i, _, _ in rrej}
    remote_coverage([sc for i, sc in enumerate(remote_scs) if i not in rrejected], rcov)
    for sc in remote_scs:
        if any(ln.get("e") == "rx" for ln in sc):
            nontrivial.add(json.dumps([sc[0].get("down0")] + [ln.get("e") for ln in sc if ln.get("e") not in
                                                              ("quiet", "traceret", "closeret", "open", "end", "rx", "note")]))
    if remote_scs:
        samples.append({"driver": "TestX08Remote", "trace": remote_scs[min(1, len(remote_scs) - 1)][:24]})
    for i, k, inv in rrej:
        pred, sig = classify_remote(remote_scs[i], k)
        bad = remote_scs[i][k] if k < len(remote_scs[i]) else None
        vlib.add_violation(ctx, pred, sig, "TestX08Remote: line %d of a scenario is not explainable by the abstract remote tracer: %s" %
                           (k, json.dumps(bad)), {"driver": "TestX08Remote", "scenario": remote_scs[i], "failing_line": k})
    rcov["close_ignored_in_reopen_loop"] = nfind
    if nfind:
        vlib.add_violation(ctx, "P_X08_CloseStopsWriter", {"kind": "close-ignored-in-reopen-loop"},
                           "a closed RemoteTracer whose collector is unreachable keeps its writer goroutine in openStream's retry loop: still "
                           "there 62 s and more after Close() (%d quiescence points); only cancelling the context ends it" % nfind, None)

    # a driver that died: the violation (if any) is in what it wrote before; otherwise the machinery failed
    if died and not ctx.violations:
        name, r = died[0]
        raise vlib.Inconclusive("driver %s failed (rc=%s, see %s) and nothing it recorded violates a property" % (name, r["rc"], r["log"]))

    # ---- coverage obligations
    need_file = ["trace_while_writer_in_write", "close_with_events_in_buffer", "close_while_writer_in_write", "trace_after_close",
                 "double_close", "single_write_steps", "concurrent_calls", "lossy_drops", "lossy_buffer_at_bound",
                 "nonlossy_buffer_above_bound"]
    need_file += ["fifo:%s:%s" % (c, s) for c in ("NewJSONTracer", "NewPBTracer", "OpenJSONTracer", "OpenPBTracer")
                  for s in ("wake", "wake2", "closefull", "par", "many")]
    need_file += ["realfile:%s" % c for c in ("NewJSONTracer", "NewPBTracer", "OpenJSONTracer", "OpenPBTracer")]
    need_file += ["node_events", "node_delivered_while_writer_held"]
    need_rem = ["batches", "full_batches", "stream_failures", "stream_reopened", "delivery_after_failure", "clean_stream_close",
                "cancel_in_retry_loop", "buffer_at_bound", "exit_after_close", "wpos_wait", "wpos_batch", "wpos_open", "wpos_write", "wpos_gone"]
    for i, (test, sc) in enumerate(file_scs):
        if test == "TestX08Node" and i not in rejected:
            cov["node_events"] += sum(1 for ln in sc if ln.get("e") == "w")
            cov["node_delivered_while_writer_held"] += sum(1 for ln in sc if ln.get("e") == "note" and ln.get("op") == "delivered-while-gated" and ln.get("ok"))
    missing = [n for n in need_file if not cov[n]] + [n for n in need_rem if not rcov[n]]
    if missing and not ctx.violations:
        raise vlib.Inconclusive("coverage obligations not met on validated real steps: %s" % missing)
    if rcov["wpos_other"]:
        ctx.notes.append("the writer goroutine was seen at an unclassified control point %d time(s)" % rcov["wpos_other"])

    coverage = {"states": states, "transitions": transitions, "traces_validated_against_impl": total, "samples": samples[:4],
                "evaluations": total, "distinct_nontrivial": len(nontrivial),
                "rule": "one evaluation = one scenario (a history of Trace/Close calls, harness stimuli, underlying-writer / collector "
                        "observations and quiescence points recorded from a real tracer) validated by TLC against TracerTrace / RemoteTrace; "
                        "non-trivial = at least two calls and something written (file) / at least one delivered batch (remote); distinct by "
                        "the sequence of calls and stimuli, the kind of tracer and the constructor",
                "exhaustive": False,
                "exhaustive_note": "file scenarios: every operation sequence up to length %d (%d) plus seeded walks of length 12; remote: a seeded "
                                   "sample of %d of the %d enumerated sequences plus the core list and seeded long walks" %
                                   (6 if ctx.thorough else 5, file_exh, len(rem_scns), rem_total),
                "file_coverage": dict(cov), "remote_coverage": dict(rcov), "mc": mcinfo}
    return vlib.finish(ctx, LEVEL, coverage, [
        "sync.Mutex, channels of capacity 1 and close() behave as modelled (a closed channel yields its buffered token before ok=false)",
        "inside synctest bubbles quiescence is exact (synctest.Wait); the real-time drivers (named pipe, regular files, stress) wait up to 15 s "
        "of real time for what they expect before they report the state, and report it either way",
        "the named pipe of one page stands in for a slow disk; an event larger than the pipe parks the writer goroutine inside its write",
        "the writer goroutine's control point is read off a goroutine dump (frames of RemoteTracer.doWrite / openStream)",
        "remote tracer: simnet hosts, 1 ms latency, virtual time; stimuli are 37 ms / 3037 ms / 62037 ms apart so that they never coincide "
        "with the writer's 100 ms accumulation ticks or its one-minute retries; stream opening is lazy (the collector sees a stream with its first bytes)",
        "loss of events is tolerated for those accepted-and-undelivered when a stream failed or accepted until the writer was next seen "
        "parked on a fresh stream (the code loses exactly the first batch written to the dead stream)"])


def validate_remote(ctx, scs, name):
    """validate_by_cursor plus the FIND lines (finding X08-F2, observed without rejecting the history)."""
    import glob
    rej, acc, st = vlib.validate_by_cursor(ctx, FAMILY, "RemoteTrace", "RemoteTrace.cfg", scs, chunk=300, name="tv-" + name)
    nfind = 0
    for f in glob.glob(os.path.join(ctx.work, "tlc*-tv-%s-*" % name, "tlc.out")):
        nfind += len(set(re.findall(r'<<"FIND", "close-ignored-in-reopen-loop", (\d+)>>', open(f, errors="replace").read())))
    return rej, acc, st, nfind
