"""C17, container part: the gossipsub MessageCache (mcache.go) alone - it is public API.

"A message a gossipsub node has forwarded stays retrievable through IWANT for HistoryLength heartbeats and is
advertised through IHAVE only during the first HistoryGossip of them ... a peer is served the same message at most
GossipRetransmission times": the window semantics of Put / Get / GetForPeer / GetGossipIDs / Shift.

spec/mcache: MCache (implementation-shaped model + monitors, P_C17_Window / P_C17_Tx), MCMCache (exhaustive, plus
seeded variants that MUST fail), GenMCache (sequences of state-changing calls), MCacheTrace (validation of the
answers of the real cache).  Driver: harness/drivers/c17cache.

run_mcache(ctx) performs MC -> Gen -> Go replay -> TLC trace validation, records violations with
vlib.add_violation, raises vlib.Inconclusive for machinery problems and returns the evidence dict of this part
(it does not call vlib.finish)."""
import json, random, re

from .. import vlib
from . import _cachecommon as cc

FAMILY = "mcache"
DRIVER_PKG = "./drivers/c17cache/"
PREDICATES = ["P_C17_Window", "P_C17_Tx", "P_C17_ModelAgreement"]
# seeded model variants: (Bug constant, invariant TLC must report) - non-vacuity of the properties
VARIANTS = [("gossip_all", "P_C17_Window"), ("shift_early", "P_C17_Window"), ("tx_keep", "P_C17_Tx")]
TOPIC = {"m1": "t1", "m2": "t1", "m3": "t2"}

ASSUMPTIONS = [
    "mcache: single caller (the router calls the cache from its event loop only)",
    "mcache: every id is always Put with the same topic; Put of an id that is still cached is explored and compared with the model as "
    "information only (the router prevents it through the seen cache as long as seenTTL > HistoryLength * heartbeat)",
    "mcache: one Shift = one heartbeat; that the router shifts exactly once per heartbeat and compares GetForPeer's count with "
    "GossipRetransmission is the in-node part of C17",
]

MC_BASE = {"Ids": "Ids <- MCIds", "Topics": {'"t1"', '"t2"'}, "Peers": {'"p1"', '"p2"'}, "TopicOf": "TopicOf <- MCTopicOf"}


def _mc_cfg(h, g, max_shift, max_tx, max_tx_total, dup=False, max_entries=3, bug="none"):
    c = dict(MC_BASE)
    c.update({"Bug": '"%s"' % bug, "H": h, "G": g, "MaxShift": max_shift, "MaxTx": max_tx, "MaxTxTotal": max_tx_total,
              "AllowDup": dup, "MaxEntries": max_entries})
    return vlib.cfg_text(constants=c, invariants=["TypeOK", "CachedIsWindow", "P_C17_Window", "P_C17_Tx"])


def _answers(trace):
    """What the real cache answered in one recorded scenario, in a comparable form."""
    out = []
    for ln in trace[1:]:
        if ln["e"] == "panic":
            out.append("panic")
            continue
        a = [ln["has"], [ln["g"][t] for t in ("t0", "t1", "t2")]]
        if ln["e"] == "gfp":
            a.append([ln["ok"], ln["n"]])
        out.append(a)
    return out


def _shadow(sc, bug):
    """Answers of a seeded VARIANT of the cache for one scenario. Used only to decide which recorded scenarios tell
    the real code from that variant (coverage obligations), never for a verdict."""
    h, g = sc["h"], sc["g"]
    nslots = h + 1 if bug == "shift_late" else h
    slots, msgs, tx = [[] for _ in range(nslots)], set(), {}

    def obs():
        width = nslots if bug == "gossip_all" else g
        return [sorted(msgs), [sorted(i for k in range(width) for i in slots[k] if TOPIC[i] == t) for t in ("t0", "t1", "t2")]]
    out = [obs()]
    for o in sc["ops"]:
        extra = None
        if o["op"] == "put":
            msgs.add(o["id"])
            slots[0].append(o["id"])
        elif o["op"] == "shift":
            drop = nslots - 2 if (bug == "shift_early" and nslots > 1) else nslots - 1
            for i in slots[drop]:
                msgs.discard(i)
                if bug != "tx_keep":
                    for k in [k for k in tx if k[0] == i]:
                        del tx[k]
            slots = [[]] + slots[:-1]
        else:
            k = (o["id"], o["p"])
            if o["id"] in msgs:
                if bug != "gfp_noinc":
                    tx[k] = tx.get(k, 0) + 1
                extra = [True, tx.get(k, 0)]
            else:
                extra = [False, 0]
        a = obs()
        if extra is not None:
            a.append(extra)
        out.append(a)
    return out


SHADOW_VARIANTS = ["gossip_all", "shift_early", "shift_late", "gfp_noinc", "tx_keep"]


def _directed(h, g):
    """A few hand-directed call sequences (inputs only) that reach the window edges whatever the generator bound."""
    P, S = (lambda i: {"op": "put", "id": i, "p": ""}), {"op": "shift", "id": "", "p": ""}
    F = lambda i, p: {"op": "gfp", "id": i, "p": p}
    return [
        [P("m1"), F("m1", "p1"), F("m1", "p1"), F("m1", "p2")] + [S] * h + [F("m1", "p1"), P("m1"), F("m1", "p1"), F("m1", "p2")] + [S] * (h + 1),
        [S, S, P("m3")] + [S] * g + [P("m1"), P("m2"), F("m2", "p2")] + [S] * h + [F("m2", "p2"), F("m3", "p1")],
        [F("m1", "p1"), P("m1"), F("m1", "p1")] + [S] * (h - 1) + [F("m1", "p1"), S, F("m1", "p1"), P("m1"), F("m1", "p1")],
        [S] * (h + 1) + [P("m1"), S, P("m2"), S, P("m3"), S, F("m1", "p1"), S, F("m2", "p1"), S, F("m3", "p1"), S, S],
    ]


SELFTEST = [
    {"e": "reset", "scn": 1, "h": 2, "g": 1, "idfn": "default"},
    {"e": "obs", "has": [], "bad": [], "g": {"t0": [], "t1": [], "t2": []}},
    {"e": "put", "id": "m1", "has": [], "bad": [], "g": {"t0": [], "t1": [], "t2": []}},
    {"e": "reset", "scn": 2, "h": 2, "g": 1, "idfn": "default"},
    {"e": "obs", "has": [], "bad": [], "g": {"t0": [], "t1": [], "t2": []}},
    {"e": "put", "id": "m1", "has": ["m1"], "bad": [], "g": {"t0": [], "t1": ["m1"], "t2": []}},
    {"e": "gfp", "id": "m1", "p": "p1", "ok": True, "n": 2, "same": True, "has": ["m1"], "bad": [], "g": {"t0": [], "t1": ["m1"], "t2": []}},
    {"e": "reset", "scn": 3, "h": 2, "g": 1, "idfn": "default"},
    {"e": "obs", "has": [], "bad": [], "g": {"t0": [], "t1": [], "t2": []}},
    {"e": "put", "id": "m1", "has": ["m1"], "bad": [], "g": {"t0": [], "t1": ["m1"], "t2": []}},
    {"e": "shift", "has": ["m1"], "bad": [], "g": {"t0": [], "t1": [], "t2": []}},
    {"e": "shift", "has": [], "bad": [], "g": {"t0": [], "t1": [], "t2": []}},
    {"e": "reset", "scn": 4, "h": 2, "g": 1, "idfn": "default"},
    {"e": "obs", "has": [], "bad": [], "g": {"t0": [], "t1": [], "t2": []}},
    {"e": "put", "id": "m3", "has": ["m3"], "bad": [], "g": {"t0": [], "t1": [], "t2": ["m3"]}},
    {"e": "shift", "has": ["m3"], "bad": [], "g": {"t0": [], "t1": [], "t2": ["m3"]}},
]
SELFTEST_EXPECT = [(1, "P_C17_Window"), (1, "P_C17_ModelAgreement"), (2, "P_C17_Tx"), (2, "P_C17_ModelAgreement"),
                   (4, "P_C17_Window"), (4, "P_C17_ModelAgreement")]


def run_mcache(ctx):
    T = ctx.thorough
    v0 = len(ctx.violations)
    states = transitions = 0
    configs = [(3, 2), (2, 2)] + ([(4, 2), (3, 1), (3, 3), (1, 1), (2, 0), (5, 3)] if T else [(1, 1)])

    # ------------------------------------------------------------------ 1. model checking
    if not T:
        mc_plan = [("h3g2", _mc_cfg(3, 2, 5, 2, 3)), ("h2g2", _mc_cfg(2, 2, 5, 2, 3)),
                   ("h3g2-dup", _mc_cfg(3, 2, 4, 1, 1, dup=True, max_entries=3))]
    else:
        mc_plan = [("h3g2", _mc_cfg(3, 2, 7, 2, 5)), ("h2g2", _mc_cfg(2, 2, 6, 3, 5)), ("h4g2", _mc_cfg(4, 2, 8, 2, 3)),
                   ("h3g3", _mc_cfg(3, 3, 6, 2, 3)), ("h1g1", _mc_cfg(1, 1, 4, 3, 4)), ("h2g0", _mc_cfg(2, 0, 5, 2, 3)),
                   ("h3g2-dup", _mc_cfg(3, 2, 4, 1, 2, dup=True, max_entries=4)), ("h2g2-dup", _mc_cfg(2, 2, 4, 1, 2, dup=True, max_entries=4))]
    jobs = [(nm, None, (lambda nm=nm, cfg=cfg: vlib.run_tlc(ctx, FAMILY, "MCMCache", cfg, timeout=1500, name="mc-" + nm, workers=4)))
            for nm, cfg in mc_plan]
    for bug, prop in VARIANTS:
        jobs.append((bug, prop, lambda bug=bug: vlib.run_tlc(ctx, FAMILY, "MCMCache", _mc_cfg(3, 2, 5, 2, 3, bug=bug),
                                                             timeout=300, name="mc-bug-" + bug, workers=2)))
    jobs.append(("selftest", "selftest", lambda: cc.selftest(ctx, FAMILY, "MCacheTrace", "MCacheTrace.cfg",
                                                             SELFTEST, SELFTEST_EXPECT, "tv-selftest")))
    mc_info = {}
    for (nm, prop, _), res in zip(jobs, cc.run_parallel([j[2] for j in jobs], workers=4)):
        if prop == "selftest":
            states += res
        elif prop is None:
            vlib.require_mc_ok(ctx, res, "MCMCache %s" % nm)
            states += res.distinct; transitions += res.generated
            mc_info[nm] = [res.distinct, res.generated]
        else:
            vlib.require_mc_fails(ctx, res, "MCMCache with seeded variant %s" % nm, prop)
    ctx.log("mcache: model checked %s; seeded variants %s fail as required" % (mc_info, [b for b, _ in VARIANTS]))

    # ------------------------------------------------------------------ 2. scenarios
    L, K = (7, 3) if T else (6, 2)       # the two configurations of DESIGN C17
    L2, K2 = (6, 3) if T else (5, 2)     # the other (h, g) configurations
    LD, KD = (6, 2) if T else (5, 1)
    limit = 30000 if T else 4000       # per (h, g) configuration; sampled by seed above it
    rng = random.Random(ctx.seed)
    scns, gen_info, exhaustive = [], {}, True

    def gen_key(h, l, k, dup, sim=None):
        return (min(h, l + 1), l, k, dup, sim)    # beyond l+1 shifts the discipline "not cached" no longer depends on h

    def gen_run(key):
        hh, l, k, dup, sim = key
        consts = {"H": hh, "L": l, "MaxShift": 12 if sim else 5 + (1 if T else 0), "MaxGfp": k, "Dup": dup}
        if sim:
            r = vlib.run_tlc(ctx, FAMILY, "GenMCache", vlib.cfg_text(constants=consts, invariants=["Emit"]), mode="sim",
                             simulate="num=%d" % sim, depth=l + 2, workers=1, timeout=600, name="gen-sim-h%d" % hh)
        else:
            r = vlib.run_tlc(ctx, FAMILY, "GenMCache", vlib.cfg_text(constants=consts, invariants=["Emit"]), workers=4,
                             timeout=1200, name="gen-h%d-l%d-%s" % (hh, l, "dup" if dup else "nodup"), heap="8g")
        vlib.require_mc_ok(ctx, r, "GenMCache %s" % (key,))
        got = cc.canonical([s["ops"] for s in r.printed("SCN")])
        if not got:
            raise vlib.Inconclusive("GenMCache %s emitted nothing" % (key,))
        return (got, r.distinct, r.generated)

    plan = {}
    for h, g in configs:
        # random deep sequences only at thorough (the hand-directed sequences reach the window edges at quick)
        l, k = (L, K) if (h, g) in configs[:2] else (L2, K2)
        plan[(h, g)] = (gen_key(h, l, k, False), gen_key(h, LD, KD, True), gen_key(h, 14, 5, False, 300) if T else None)
    keys = sorted({k for ks in plan.values() for k in ks if k}, key=str)
    gen_cache = dict(zip(keys, cc.run_parallel([(lambda k=k: gen_run(k)) for k in keys], workers=4)))

    for h, g in configs:
        main, dups, deep = (gen_cache[k][0] if k else [] for k in plan[(h, g)])
        lim = limit if (h, g) in configs[:2] else limit // (4 if T else 3)    # the two configurations of DESIGN C17 get the full budget
        if len(main) > lim:
            exhaustive = False
            main = rng.sample(main, lim)
        if len(dups) > lim // 8:
            dups = rng.sample(dups, lim // 8)
        gen_info["h%dg%d" % (h, g)] = {"main": len(main), "dup": len(dups), "deep": len(deep)}
        for kind, pool in (("main", main), ("deep", deep), ("directed", _directed(h, g)), ("dup", dups)):
            for ops in pool:
                scns.append({"scn": len(scns), "h": h, "g": g, "idfn": "default" if len(scns) % 3 else "custom", "ops": ops, "kind": kind})
    for got, st, tr in gen_cache.values():
        states += st; transitions += tr
    ctx.log("mcache: scenarios per (h,g): %s -> %d scenarios" % (gen_info, len(scns)))

    # ------------------------------------------------------------------ 3. replay on the real cache
    traces, gr = cc.replay(ctx, DRIVER_PKG, "TestC17Cache", scns, "mcache")
    nlines = sum(len(t) for t in traces)
    ctx.log("mcache: replayed on the real cache in %.0fs: %d trace lines" % (gr["wall"], nlines))

    # ------------------------------------------------------------------ 4. TLC validates the recorded answers
    viols, st, infos = cc.validate_print(ctx, FAMILY, "MCacheTrace", "MCacheTrace.cfg", traces, "tv-mcache", lines_per_chunk=20000)
    states += st; transitions += st
    ctx.log("mcache: TLC validated the recorded answers: %d predicate failures, %d information lines" % (len(viols), len(infos)))
    # a call of the public API that panics on a legitimate call sequence: the message is not retrievable / advertised
    for sc, tr in zip(scns, traces):
        for ln in tr:
            if ln["e"] == "panic":
                if sc["kind"] == "dup":
                    infos.append({"scn": sc["scn"], "pred": "panic", "what": ln["msg"]})
                else:
                    viols.append({"scn": sc["scn"], "line": 0, "pred": "P_C17_Window", "op": ln["op"], "what": "panic", "key": "",
                                  "h": sc["h"], "g": sc["g"], "nshift": -1, "real": re.sub(r"0x[0-9a-f]+", "0x..", ln["msg"])[:120], "want": "an answer"})

    def direction(v):
        real, want = v["real"], v["want"]
        if v["what"] in ("get", "gossip") and isinstance(real, list) and isinstance(want, list):
            r, w = set(real), set(want)
            return "extra" if r > w else "missing" if r < w else "other"
        if v["what"] == "gfp" and isinstance(real, dict) and isinstance(want, dict):
            if real.get("ok") != want.get("ok"):
                return "served-outside-window" if real.get("ok") else "not-served-inside-window"
            return "count-high" if real.get("n", 0) > want.get("n", 0) else "count-low" if real.get("n", 0) < want.get("n", 0) else "other"
        return "other"
    by_sig = {}
    for v in viols:
        sc = scns[v["scn"]]
        sig = {"part": "mcache", "what": v["what"], "op": v["op"], "dir": direction(v)}
        k = (v["pred"], json.dumps(sig, sort_keys=True))
        rank = lambda x: (scns[x["scn"]]["kind"] == "dup", len(scns[x["scn"]]["ops"]))    # prefer short, disciplined examples
        if k not in by_sig or rank(v) < rank(by_sig[k][0]):
            by_sig[k] = (v, sig)
    for (pred, _), (v, sig) in sorted(by_sig.items()):
        sc, tr = scns[v["scn"]], traces[v["scn"]]
        ops = " ".join(o["op"] + ("(%s%s)" % (o["id"], "," + o["p"] if o["p"] else "") if o["id"] else "") for o in sc["ops"])
        detail = ("mcache NewMessageCache(gossip=%d, history=%d): after %d shifts, %s %s%s answered %s, expected %s (%s); calls: %s" %
                  (v["g"], v["h"], v["nshift"], v["what"], v["key"], " after " + v["op"] if v["what"] != v["op"] else "",
                   json.dumps(v["real"]), json.dumps(v["want"]), sig["dir"], ops))
        vlib.add_violation(ctx, pred, sig, detail, {"driver": "TestC17Cache", "scenario": sc, "trace": tr, "viol": v})
    if viols:
        ctx.log("mcache: %d predicate failures in %d scenarios (%d distinct signatures)" %
                (len(viols), len({v["scn"] for v in viols}), len(by_sig)))
    if infos:
        ctx.notes.append("mcache: Put of a still-cached id (outside the router's discipline, information only): the real cache differs from "
                         "the model in %d scenario(s), e.g. %s" % (len({i["scn"] for i in infos}), json.dumps(infos[0])[:300]))

    # ------------------------------------------------------------------ 5. coverage, obligations, evidence
    hits = {k: 0 for k in ("put", "put_cached_id", "reput_after_window", "shift", "shift_empty",
                           "get_last_served_shift", "get_first_unserved_shift",
                           "gossip_first_advertised_shift", "gossip_last_advertised_shift", "gossip_first_unadvertised_shift_still_cached",
                           "gossip_other_topic_excluded", "gfp_count_1", "gfp_count_2plus", "gfp_second_peer_independent",
                           "gfp_not_cached", "gfp_count_restarts_after_reput")}
    tells = {b: 0 for b in SHADOW_VARIANTS}
    nontrivial, evaluations = set(), 0
    stride = max(1, len(scns) // 20000)      # the variant comparison is for the obligations only: a sample is enough
    for sc, tr in zip(scns, traces):
        h, g = sc["h"], sc["g"]
        evaluations += sum(len(PREDICATES) for ln in tr[1:] if ln["e"] != "panic")
        if sc["kind"] != "dup" and (sc["scn"] % stride == 0 or sc["kind"] == "directed"):
            real = _answers(tr)
            for b in tells:
                if not (b == "gossip_all" and h == g) and _shadow(sc, b) != real:
                    tells[b] += 1
        nshift, put_at, gen_served, ever_served, kinds = 0, {}, {}, set(), set()
        for ln in tr[2:]:
            e = ln["e"]
            if e == "panic":
                break
            if e == "put":
                i = ln["id"]
                cached = i in put_at and nshift - put_at[i] < h
                hits["put_cached_id" if cached else "put"] += 1
                if i in put_at and not cached:
                    hits["reput_after_window"] += 1
                put_at[i] = nshift
                gen_served = {k: v for k, v in gen_served.items() if k[0] != i}
            elif e == "shift":
                nshift += 1
                hits["shift"] += 1
                if not any(nshift - 1 - k < h for k in put_at.values()):
                    hits["shift_empty"] += 1
            elif e == "gfp":
                k = (ln["id"], ln["p"])
                if not ln["ok"]:
                    hits["gfp_not_cached"] += 1
                else:
                    if ln["n"] == 1:
                        hits["gfp_count_1"] += 1
                        if k in ever_served:
                            hits["gfp_count_restarts_after_reput"] += 1
                        if any(o[0] == k[0] and o[1] != k[1] for o in gen_served):
                            hits["gfp_second_peer_independent"] += 1
                    elif ln["n"] >= 2:
                        hits["gfp_count_2plus"] += 1
                    gen_served[k] = ln["n"]
                    ever_served.add(k)
                kinds.add("gfp-ok" if ln["ok"] else "gfp-miss")
            if sc["kind"] == "dup":
                continue
            for i, k0 in put_at.items():
                age = nshift - k0
                inhas, ingos = i in ln["has"], i in ln["g"][TOPIC[i]]
                if e == "shift":
                    if age == h - 1 and inhas:
                        hits["get_last_served_shift"] += 1
                    if age == h and not inhas:
                        hits["get_first_unserved_shift"] += 1
                    if g > 0 and age == g - 1 and ingos:
                        hits["gossip_last_advertised_shift"] += 1
                    if age == g and g < h and not ingos and inhas:
                        hits["gossip_first_unadvertised_shift_still_cached"] += 1
                if e == "put" and ln["id"] == i and g > 0 and ingos:
                    hits["gossip_first_advertised_shift"] += 1
                    if i not in ln["g"]["t2" if TOPIC[i] == "t1" else "t1"]:
                        hits["gossip_other_topic_excluded"] += 1
            if e == "shift" and any(nshift - k0 == h for k0 in put_at.values()):
                kinds.add("expired")
            if e == "put":
                kinds.add("put")
        if len(kinds) >= 2:
            nontrivial.add(json.dumps([h, g, sc["ops"]]))
    hits["scenarios_telling_real_from_variant"] = tells
    if len(ctx.violations) == v0:
        missing = [k for k, n in hits.items() if k not in ("put_cached_id", "scenarios_telling_real_from_variant") and not n]
        missing += ["no recorded scenario distinguishes the real cache from variant " + b for b, n in tells.items() if not n]
        if missing:
            raise vlib.Inconclusive("mcache coverage obligations not met: %s" % missing)

    def compact(i):
        return {"scenario": {k: scns[i][k] for k in ("h", "g", "idfn", "kind")},
                "trace": [[l["e"]] + [l[k] for k in ("id", "p", "ok", "n") if k in l] + [{"has": l["has"], "g": l["g"]}] for l in traces[i][1:] if l["e"] != "panic"]}
    pick = [i for i, s in enumerate(scns) if s["kind"] == "directed"][:1] + [i for i, s in enumerate(scns) if s["kind"] == "main"][len(scns) // 7:][:1]
    return {
        "part": "mcache",
        "states": states, "transitions": transitions, "traces": len(traces),
        "samples": [compact(i) for i in pick],
        "evaluations": evaluations, "distinct_nontrivial": len(nontrivial),
        "rule": "mcache: scenario = (history, gossip, id function, sequence of put/shift/GetForPeer calls), every call followed by Get of every id "
                "and GetGossipIDs of every topic; sequences = ALL canonical sequences of %d calls (<= %d GetForPeer) emitted by GenMCache for (h,g) = (3,2), (2,2), "
                "one call shorter for the other configurations (sampled by seed above %d per configuration), plus random deep (thorough), hand-directed and cached-id-Put ones; evaluations = %d predicates per "
                "recorded call; non-trivial = at least two of {put, a message leaving the window, GetForPeer served, GetForPeer refused}; "
                "distinct by (h, g, calls)" % (L, K, limit, len(PREDICATES)),
        "exhaustive": exhaustive, "hits": hits, "mc": mc_info, "trace_lines": nlines, "configs": ["h%dg%d" % c for c in configs],
        "generated": gen_info, "cached_id_put_disagreements": len({i["scn"] for i in infos}),
        "seeded_model_variants_fail": [b for b, _ in VARIANTS],
        "assumptions": ASSUMPTIONS,
    }
