"""C05 - interest announcements converge to the true subscription state.

spec/interest: Interest (event-loop grain model of announce / retry / hello / stream resets, exhaustive MC, with the
as-found behaviours D12 / retry-without-recheck / fanout-unaware retry as named deviations that MUST fail),
InterestSub (Next after Cancel), GenInterest / GenInterestNet (scenario generators), InterestTrace (one real node +
wire-level fake peers) and InterestNetTrace (2-3 real nodes, all routers): predicates evaluated on real traces."""
import json, os, random, re, threading
import concurrent.futures as cf
from .. import vlib

LEVEL = "model_checking"
FAMILY = "interest"

ACT_DEFAULTS = {"a": "", "p": "", "t": "", "v": False, "on": False, "subs": [], "fan": False, "size": 0, "held": False, "m": "", "n": 0,
                "old": False, "sv": 0}


# ----------------------------------------------------------------------------- projection of step lines
def project_wire(line, cfg):
    """World step line (4 KB) -> the fields InterestTrace reads (every field always present)."""
    act = line["act"]
    if act.get("a") == "reset":
        c = act.get("cfg", {})
        return {"i": 0, "scn": line["scn"], "t": line["t"], "act": {"a": "reset"},
                "cfg": {"topics": c["topics"], "peers": c["peers"], "queue": c.get("queue", 0), "router": c.get("router", ""), "class": c.get("class", ""),
                        "score": bool(c.get("score", False)), "gater": bool(c.get("gater", False)), "graylist": int(c.get("graylist", -6))}}
    a = dict(ACT_DEFAULTS)
    for k in ("a", "p", "t", "v", "on", "size", "held", "m", "n", "old"):
        if k in act:
            a[k] = act[k]
    if act.get("a") == "score":      # "v" is the (integer) score here, a boolean for sub{p,t,v}
        a["sv"], a["v"] = int(act.get("v", 0)), False
    a["subs"] = list(act.get("subs", []))
    a["fan"] = bool(act.get("fanoutOnly", False))
    anns = []
    for e in line["ev"]:
        if e["k"] in ("Send", "Drop"):
            for s in e["rpc"]["subs"]:
                anns.append({"k": e["k"], "p": e["p"], "topic": s["topic"], "sub": bool(s["sub"]), "t": e["t"]})
    deliv = [{"k": e["k"], "topic": e.get("topic", ""), "m": e.get("m", "")} for e in line["ev"] if e["k"] in ("Deliver", "Undeliverable")]
    wire = {p: [{"k": x["k"], "topic": x["topic"] or "", "sub": bool(x["sub"])} for x in line.get("wire", {}).get(p, [])] for p in cfg["peers"]}
    st = line["st"]
    return {"i": line["i"], "scn": line["scn"], "t": line["t"], "act": a, "quiet": bool(line.get("quiet")),
            "anns": anns, "deliv": deliv, "wire": wire,
            "lp": {t: line["lp"].get(t, []) for t in cfg["topics"]}, "lp0": line.get("lp0", []), "gt": line.get("gt", []), "hconn": line.get("hconn", []),
            "bel": {t: st.get("topics", {}).get(t, []) for t in cfg["topics"]},
            "res": line.get("res", []), "err": line.get("err", ""), "rdone": line.get("rdone", ""), "live": line.get("live", []),
            "scores": {p: int(st.get("scores", {}).get(p, 0)) for p in cfg["peers"]},
            "throttled": sorted({e["p"] for e in line["ev"] if e["k"] == "Throttle"})}


def project_wire_file(path):
    scns, cur, cfg = [], None, None
    for ln in vlib.read_ndjson(path):
        if ln["act"].get("a") == "reset":
            cfg = ln["act"]["cfg"]
            cur = []
            scns.append(cur)
        cur.append(project_wire(ln, cfg))
    return scns


# ----------------------------------------------------------------------------- scenario generation (wire view)
SCORED = dict(router="gossipsub", extra_cfg={"score": True})
ALL_KINDS = ["subscribe", "cancel", "cancelOld", "cancelAgain", "relay", "unrelay", "unrelayAgain", "closeBusy", "joinFan", "close", "gate", "hpeer", "release", "resetIn", "rstIn",
             "dupIn", "dupInSet", "down", "up", "rsub", "quiet", "bsub"]


def tla_set(xs):
    return "{" + ", ".join('"%s"' % x for x in xs) + "}"


class _Gen:
    """What the callers need from a generator run (fresh or cached)."""
    def __init__(self, distinct, generated, d, cached):
        self.distinct, self.generated, self.dir, self.cached = distinct, generated, d, cached


def _gen_cached(ctx, key_parts, module_files, runner):
    """Generator output is a function of the spec text and the constants (and the seed for simulations): keep it under
    work/ (git-ignored, rebuilt when absent) so that repeated checks do not re-run a dozen JVMs."""
    import hashlib
    h = hashlib.sha1()
    for f in module_files:
        h.update(open(os.path.join(vlib.SPEC, FAMILY, f), "rb").read())
    h.update(json.dumps(key_parts, sort_keys=True, default=str).encode())
    d = os.path.join(vlib.WORK, ".c05-gencache")
    os.makedirs(d, exist_ok=True)
    path = os.path.join(d, h.hexdigest()[:20] + ".json")
    if os.path.exists(path) and not os.environ.get("VERIF_C05_NOCACHE"):
        try:
            c = json.load(open(path))
            return c["scns"], _Gen(c["distinct"], c["generated"], path, True)
        except Exception:
            pass
    got, g = runner()
    tmp = path + ".%d.tmp" % os.getpid()
    with open(tmp, "w") as f:
        json.dump({"scns": got, "distinct": g.distinct, "generated": g.generated}, f)
    os.replace(tmp, path)
    return got, _Gen(g.distinct, g.generated, g.dir, False)


def gen_wire(ctx, name, L, kinds, **kw):
    key = ["wire", L, sorted(kinds), {k: kw[k] for k in sorted(kw)}, ctx.seed if kw.get("simulate") else 0]
    return _gen_cached(ctx, key, ["GenInterest.tla"], lambda: _gen_wire(ctx, name, L, kinds, **kw))


def _gen_wire(ctx, name, L, kinds, conn=("p1", "p2"), held=(), their=None, topics=("T1", "T2"), peers=("p1", "p2"), fan=("T2",),
             max_ref=2, max_fault=2, max_remote=2, max_msg=3, max_quiet=2, simulate=None, depth=None, timeout=600):
    """Run GenInterest for one class of scenarios; returns the list of generated action lists."""
    their = their or {"p1": ["T1"], "p2": []}
    wrapper = ("---- MODULE GenRun ----\nEXTENDS GenInterest\n"
               "G_Their == [p \\in %s |-> CASE %s]\n====\n" % (
                   tla_set(peers), " [] ".join('p = "%s" -> %s' % (p, tla_set(their.get(p, []))) for p in peers)))
    consts = {"Topics": tla_set(topics), "Peers": tla_set(peers), "L": L, "Kinds": tla_set(kinds),
              "ConnAtStart": tla_set(conn), "HeldAtStart": tla_set(held), "TheirAtStart": "TheirAtStart <- G_Their",
              "FanTopics": tla_set(fan), "BufTopic": '"T1"', "MaxRef": max_ref, "MaxFault": max_fault, "MaxRemote": max_remote,
              "MaxMsg": max_msg, "MaxQuiet": max_quiet}
    cfg = vlib.cfg_text(constants=consts, invariants=["Emit"])
    kw = {}
    if simulate:
        kw = {"mode": "sim", "simulate": simulate, "depth": depth or (L + 1)}
    g = vlib.run_tlc(ctx, FAMILY, "GenRun", cfg, files={"GenRun.tla": wrapper}, timeout=timeout, name="gen-" + name, heap="6g",
                     workers=1 if simulate else 2, **kw)
    if not simulate:
        vlib.require_mc_ok(ctx, g, "GenInterest " + name)
    got = [s["acts"] for s in g.printed("SCN")]
    if not got:
        raise vlib.Inconclusive("generator %s emitted nothing (see %s/tlc.out)" % (name, g.dir))
    return got, g


PROTO = {"gossipsub": {"p1": ("v11", "in"), "p2": ("v12", "out")},
         "floodsub": {"p1": ("flood", "in"), "p2": ("flood", "out")},
         "randomsub": {"p1": ("random", "in"), "p2": ("flood", "out")}}


def assemble_wire(acts, router="gossipsub", conn=("p1", "p2"), held=(), their=None, topics=("T1", "T2"), peers=("p1", "p2"),
                  queue=1, cls="", extra_cfg=None):
    """Prologue (initial connects) + generated stimuli + epilogue (open gates, release holds, re-open remote streams, quiet)."""
    their = {p: list((their or {"p1": ["T1"], "p2": []}).get(p, [])) for p in peers}
    out, gated, is_held, rdown = [], set(), set(), set()

    def peer_act(a):
        proto, d = PROTO[router][a["p"]]
        b = dict(a)
        b.update({"proto": proto, "dir": d})
        return b
    for p in conn:
        out.append(peer_act({"a": "hpeer" if p in held else "peer", "p": p, "subs": their[p]}))
        if p in held:
            is_held.add(p)
    connected = set(conn)
    for a in acts:
        k = a["a"]
        if k in ("peer", "hpeer"):
            a = peer_act(a)
            their[a["p"]] = list(a["subs"])
            connected.add(a["p"])
            rdown.discard(a["p"])
            if k == "hpeer":
                is_held.add(a["p"])
        elif k == "gate":
            (gated.add if a["on"] else gated.discard)(a["p"])
        elif k == "release":
            is_held.discard(a["p"])
        elif k == "down":
            connected.discard(a["p"])
        elif k in ("resetOut", "closeOut"):
            rdown.add(a["p"])
        elif k == "sub":
            s = set(their[a["p"]])
            (s.add if a["v"] else s.discard)(a["t"])
            their[a["p"]] = sorted(s)
        out.append(a)
    for p in sorted(gated):
        out.append({"a": "gate", "p": p, "on": False})
    for p in sorted(is_held):
        out.append({"a": "release", "p": p})
    for p in sorted(rdown & connected):
        out.append(peer_act({"a": "peer", "p": p, "subs": their[p]}))
    if not out or out[-1]["a"] != "quiet":
        out.append({"a": "quiet"})
    cfg = {"router": router, "queue": queue, "topics": list(topics), "peers": list(peers), "hosts": len(peers) + 1, "class": cls}
    cfg.update(extra_cfg or {})
    return {"cfg": cfg, "acts": out}


# ----------------------------------------------------------------------------- network view (real nodes only)
NET_ACT = {"a": "", "n": "", "m": "", "t": "", "dir": "", "side": ""}


def project_net_file(path):
    scns, cur = [], None
    for ln in vlib.read_ndjson(path):
        act = ln["act"]
        if act.get("a") == "reset":
            cur = []
            scns.append(cur)
            cur.append({"i": ln["i"], "scn": ln["scn"], "act": act})
            continue
        a = dict(NET_ACT)
        a.update({k: v for k, v in act.items() if k in NET_ACT})
        cur.append({"i": ln["i"], "scn": ln["scn"], "t": ln["t"], "act": a, "quiet": bool(ln["quiet"]), "lp": ln["lp"], "lp0": ln["lp0"], "gt": ln["gt"],
                    "conn": ln["conn"], "found": ln.get("found", 0), "other_alive": bool(ln.get("other_alive", False))})
    return scns


def gen_net(ctx, name, L, kinds, **kw):
    key = ["net", L, sorted(kinds), {k: kw[k] for k in sorted(kw)}, ctx.seed if kw.get("simulate") else 0]
    return _gen_cached(ctx, key, ["GenInterestNet.tla"], lambda: _gen_net(ctx, name, L, kinds, **kw))


def _gen_net(ctx, name, L, kinds, nodes=("A", "B"), topics=("T1",), linked=True, max_ref=2, max_fault=2, max_quiet=2,
            simulate=None, depth=None, timeout=600):
    consts = {"Nodes": tla_set(nodes), "Topics": tla_set(topics), "L": L, "Kinds": tla_set(kinds), "LinkedAtStart": linked,
              "MaxRef": max_ref, "MaxFault": max_fault, "MaxQuiet": max_quiet}
    cfg = vlib.cfg_text(constants=consts, invariants=["Emit"])
    kw = {}
    if simulate:
        kw = {"mode": "sim", "simulate": simulate, "depth": depth or (L + 1)}
    g = vlib.run_tlc(ctx, FAMILY, "GenInterestNet", cfg, timeout=timeout, name="gennet-" + name, heap="6g", workers=2, **kw)
    if not simulate:
        vlib.require_mc_ok(ctx, g, "GenInterestNet " + name)
    got = [s["acts"] for s in g.printed("SCN")]
    if not got:
        raise vlib.Inconclusive("generator %s emitted nothing (see %s/tlc.out)" % (name, g.dir))
    return got, g


FORCED_NET_CANCEL_TWICE = [
    {"a": "subscribe", "n": "A", "t": "T1"}, {"a": "subscribe", "n": "A", "t": "T1"}, {"a": "cancel", "n": "A", "t": "T1"},
    {"a": "cancelAgain", "n": "A", "t": "T1"}, {"a": "quiet"}, {"a": "cancel", "n": "A", "t": "T1"}, {"a": "cancelAgain", "n": "A", "t": "T1"}, {"a": "quiet"}]


def assemble_net(acts, router, nodes=("A", "B"), topics=("T1",), linked=True):
    out = []
    if linked:
        for i, a in enumerate(nodes):
            for b in nodes[i + 1:]:
                out.append({"a": "link", "n": a, "m": b})
    out += acts
    if out[-1]["a"] != "quiet":
        out.append({"a": "quiet"})
    return {"router": router, "n": len(nodes), "topics": list(topics), "acts": out}


# ----------------------------------------------------------------------------- model checking
MC_BASE = {"Cap": 1, "MaxOps": 5, "MaxDrops": 2, "MaxResetOut": 1, "MaxResetIn": 1, "MaxDisc": 1, "MaxGate": 1, "MaxHold": 1,
           "MaxRemote": 2, "MaxRef": 2, "AllowFanout": False, "FixD12": True, "RetryRechecks": True, "RetryFanoutAware": True,
           "ClosedOrdered": True, "DupClears": True, "MaxDup": 0,
           "AllowRepeat": True, "CancelIdempotent": True, "RelayCancelIdempotent": True,
           "SubsBeforeAccept": True, "MaxAcc": 0}
MC_INV = ["TypeOK", "P_C05_WireTruth", "P_C05_ListPeers", "P_C05_NoSpuriousAnnounce", "P_C05_Settles"]


def mc_cfg(two_peers, handles=True, **over):
    c = {"p1": "p1", "T1": "T1", "T2": "T2", "Peers": "Peers <- MCPeers", "Topics": "Topics <- MCTopics"}
    if two_peers:
        c["p2"] = "p2"
    c.update(MC_BASE)
    c.update(over)
    # HandlesMatch (the code's maps count exactly the live handles) is a sanity invariant of the repaired model only
    return vlib.cfg_text(constants=c, invariants=MC_INV + (["HandlesMatch"] if handles else []), constraint="Bound", symmetry="Sym")


def model_checking(ctx):
    """Exhaustive MC of Interest / InterestSub; the as-found deviations must fail (non-vacuity)."""
    wire_side = dict(MaxResetIn=0, MaxRemote=0)                      # the wire does not depend on the inbound direction
    belief_side = dict(MaxOps=1, MaxDrops=0, MaxGate=0, MaxRemote=2, MaxDup=1, AllowRepeat=False)
    # the router's verdict about the sender (graylisted / gater-throttled) against everything that teaches the belief
    accept_side = dict(MaxOps=0, MaxDrops=0, MaxGate=0, MaxHold=0, MaxResetOut=0, MaxRemote=2, MaxDup=1, MaxAcc=2, AllowRepeat=False)  # the belief does not depend on queues and retries
    jobs = [
        ("mc-wire-1peer", "MCInterest1", mc_cfg(False, AllowRepeat=False, **wire_side), "ok", None, 1200),
        # repeated Cancel / relay-cancel calls, refused Topic.Close, fanout-only: every sequence of 5 API operations against the queue
        ("mc-wire-1peer-repeats", "MCInterest1", mc_cfg(False, AllowFanout=True, MaxGate=0, MaxHold=0, MaxResetOut=0, MaxDisc=0, **wire_side), "ok", None, 900),
        ("mc-belief-2peers", "MCInterest", mc_cfg(True, **belief_side), "ok", None, 900),
        ("mc-belief-2peers-router-verdict", "MCInterest", mc_cfg(True, **accept_side), "ok", None, 900),
        ("mc-asfound-D12", "MCInterest", mc_cfg(True, handles=False, FixD12=False, **belief_side), "fail", "P_C05_ListPeers", 600),
        ("mc-prefix-D19-late-closedstream", "MCInterest", mc_cfg(True, handles=False, ClosedOrdered=False, **belief_side), "fail", "P_C05_ListPeers", 600),
        ("mc-seeded-replaced-stream-not-cleared", "MCInterest", mc_cfg(True, handles=False, DupClears=False, **belief_side), "fail", "P_C05_ListPeers", 600),
        ("mc-seeded-accept-before-subscriptions", "MCInterest", mc_cfg(True, handles=False, SubsBeforeAccept=False, **accept_side), "fail", "P_C05_ListPeers", 600),
        ("mc-seeded-retry-no-recheck", "MCInterest1", mc_cfg(False, handles=False, RetryRechecks=False, AllowRepeat=False, **wire_side), "fail", "P_C05_NoSpuriousAnnounce", 600),
        ("mc-prefix-D20-retry-fanout", "MCInterest1", mc_cfg(False, handles=False, AllowFanout=True, AllowRepeat=False, RetryFanoutAware=False, MaxOps=6, MaxDisc=0, MaxResetOut=0,
                                                          MaxGate=0, **wire_side), "fail", "P_C05_NoSpuriousAnnounce", 600),
        ("mc-seeded-cancel-not-idempotent", "MCInterest1", mc_cfg(False, handles=False, CancelIdempotent=False, **wire_side), "fail", "P_C05_NoSpuriousAnnounce", 600),
        ("mc-seeded-relaycancel-not-idempotent", "MCInterest1", mc_cfg(False, handles=False, RelayCancelIdempotent=False, **wire_side), "fail", "P_C05_NoSpuriousAnnounce", 600),
        ("mc-sub", "InterestSub", "MCInterestSub.cfg", "ok", None, 300),
        ("mc-sub-seeded", "InterestSub", "MCInterestSubBug.cfg", "fail", "P_C05_CancelledNext", 300),
    ]
    if ctx.thorough:
        jobs += [
            ("mc-wire-2peers", "MCInterest", mc_cfg(True, MaxOps=4, MaxHold=0, MaxDrops=1, AllowRepeat=False, **wire_side), "ok", None, 1500),
            ("mc-belief-2peers-all", "MCInterest", mc_cfg(True, MaxAcc=1, **dict(belief_side, MaxRemote=1, MaxHold=0)), "ok", None, 1500),
            ("mc-wire-1peer-repeats-faults", "MCInterest1", mc_cfg(False, **wire_side), "ok", None, 1500),
            ("mc-wire-1peer-fanout", "MCInterest1", mc_cfg(False, AllowFanout=True, AllowRepeat=False, **wire_side), "ok", None, 1500),
        ]
    res = {}

    def one(j):
        name, module, cfg, want, prop, to = j
        return name, vlib.run_tlc(ctx, FAMILY, module, cfg, timeout=to, name=name, workers=2)
    jobs.sort(key=lambda j: -j[5])      # the long ones first; 2 JVMs x 2 workers at a time
    with cf.ThreadPoolExecutor(max_workers=2) as ex:
        for name, r in ex.map(one, jobs):
            res[name] = r
    states = transitions = 0
    summary = {}
    for name, module, cfg, want, prop, to in jobs:
        r = res[name]
        if want == "ok":
            vlib.require_mc_ok(ctx, r, name, allow_timeout=name in ("mc-wire-2peers", "mc-wire-1peer-fanout", "mc-wire-1peer-repeats-faults", "mc-belief-2peers-all"))
            states += r.distinct
            transitions += r.generated
        else:
            # with several workers TLC may reach a state violating the CONSEQUENCE (WireTruth) before the one violating the
            # enqueue-time monitor: either one witnesses the deviation
            alt = {"P_C05_NoSpuriousAnnounce": ("P_C05_NoSpuriousAnnounce", "P_C05_WireTruth")}.get(prop, (prop,))
            if not any(a in r.violated for a in alt):
                vlib.require_mc_fails(ctx, r, name, prop)
        summary[name] = [r.distinct, r.generated, "%.0fs" % r.wall, want]
    return states, transitions, summary


# ----------------------------------------------------------------------------- scenario plan
# counterexample of the pre-fix model (mc-prefix-D20-retry-fanout) translated to stimuli: a dropped subscribe announcement of
# T2 is still being retried (the gate keeps the queue full) when T2 is closed, re-joined FanoutOnly and subscribed again
FORCED_FANOUT_RETRY = [
    {"a": "gate", "p": "p1", "on": True}, {"a": "subscribe", "t": "T1"}, {"a": "relay", "t": "T1"}, {"a": "relay", "t": "T2"},
    {"a": "unrelay", "t": "T2"}, {"a": "relay", "t": "T2"}, {"a": "unrelay", "t": "T2"}, {"a": "closeTopic", "t": "T2"},
    {"a": "join", "t": "T2", "fanoutOnly": True}, {"a": "subscribe", "t": "T2"}, {"a": "gate", "p": "p1", "on": False}, {"a": "quiet"}]
# the retry that must NOT send / must send, hello racing the queue: short deterministic witnesses of the obligations
FORCED_HELLO_RACE = [
    {"a": "subscribe", "t": "T1"}, {"a": "subscribe", "t": "T2"}, {"a": "cancel", "t": "T1"}, {"a": "subscribe", "t": "T1"},
    {"a": "cancel", "t": "T2"}, {"a": "release", "p": "p1"}, {"a": "quiet"}]


# the remote's re-opened stream carries a smaller hello: the node must forget the dropped topic (clearPeerFromTopicsState on close)
FORCED_INBOUND_FLIP = [
    {"a": "subscribe", "t": "T1"}, {"a": "closeOut", "p": "p1"}, {"a": "peer", "p": "p1", "subs": []}, {"a": "quiet"},
    {"a": "sub", "p": "p2", "t": "T1", "v": True}, {"a": "resetOut", "p": "p2"}, {"a": "peer", "p": "p2", "subs": ["T2"]}, {"a": "quiet"}]


# what a hello on a NEW stream must contain: relays yes, fanout-only subscriptions no (getHelloPacket)
FORCED_HELLO_CONTENT = [
    {"a": "relay", "t": "T1"}, {"a": "join", "t": "T2", "fanoutOnly": True}, {"a": "subscribe", "t": "T2"}, {"a": "down", "p": "p1"},
    {"a": "peer", "p": "p1", "subs": ["T1"]}, {"a": "quiet"}, {"a": "resetIn", "p": "p2"}, {"a": "quiet"}]


# what a hello must NOT contain: topics whose last reference is gone, whichever of subscription / relay was released first
# (a map key left behind with a zero count would be announced on every new stream): both release orders, then a reconnect (down/up:
# new hello) and a re-opened outbound stream (resetIn: new hello), then the same again after a fresh subscribe/cancel cycle
FORCED_HELLO_AFTER_RELEASE = [
    {"a": "subscribe", "t": "T1"}, {"a": "relay", "t": "T1"}, {"a": "unrelay", "t": "T1"}, {"a": "cancel", "t": "T1"}, {"a": "quiet"},
    {"a": "down", "p": "p1"}, {"a": "peer", "p": "p1", "subs": []}, {"a": "quiet"}, {"a": "resetIn", "p": "p2"}, {"a": "quiet"},
    {"a": "relay", "t": "T2"}, {"a": "subscribe", "t": "T2"}, {"a": "cancel", "t": "T2"}, {"a": "unrelay", "t": "T2"}, {"a": "quiet"},
    {"a": "down", "p": "p1"}, {"a": "peer", "p": "p1", "subs": []}, {"a": "quiet"}, {"a": "resetIn", "p": "p2"}, {"a": "quiet"},
    {"a": "subscribe", "t": "T1"}, {"a": "cancel", "t": "T1"}, {"a": "down", "p": "p2"}, {"a": "peer", "p": "p2", "subs": []}, {"a": "quiet"}]


# a still-connected peer opens a second stream WITHOUT closing the first; its hello announces a different set
# (disjoint, superset, subset of what the replaced stream announced): the belief must follow the live stream
FORCED_DUP_INBOUND = [
    {"a": "peer", "p": "p1", "subs": ["T2"]}, {"a": "quiet"}, {"a": "peer", "p": "p1", "subs": ["T1", "T2"]}, {"a": "quiet"},
    {"a": "peer", "p": "p1", "subs": ["T1"]}, {"a": "sub", "p": "p2", "t": "T1", "v": True}, {"a": "sub", "p": "p2", "t": "T2", "v": True},
    {"a": "peer", "p": "p2", "subs": ["T2"]}, {"a": "quiet"}]


# idempotence of the cancel paths: a handle cancelled twice while exactly one sibling is live (no relay), the survivor then
# cancelled (its reader must see the cancellation), a stale Cancel after a re-subscribe, a RelayCancelFunc called twice while
# another reference is live, a refused Topic.Close followed by the cancels, Cancel again after a successful Close and re-join
FORCED_CANCEL_TWICE = [
    {"a": "subscribe", "t": "T1"}, {"a": "subscribe", "t": "T1"}, {"a": "cancel", "t": "T1", "old": True}, {"a": "cancelAgain", "t": "T1"},
    {"a": "quiet"}, {"a": "cancel", "t": "T1"}, {"a": "cancelAgain", "t": "T1"}, {"a": "subscribe", "t": "T1"}, {"a": "cancelAgain", "t": "T1"},
    {"a": "quiet"}, {"a": "relay", "t": "T2"}, {"a": "relay", "t": "T2"}, {"a": "unrelay", "t": "T2"}, {"a": "unrelayAgain", "t": "T2"},
    {"a": "quiet"}, {"a": "closeTopic", "t": "T2"}, {"a": "unrelay", "t": "T2"}, {"a": "unrelayAgain", "t": "T2"}, {"a": "closeTopic", "t": "T1"},
    {"a": "cancel", "t": "T1"}, {"a": "closeTopic", "t": "T1"}, {"a": "subscribe", "t": "T1"}, {"a": "cancelAgain", "t": "T1"}, {"a": "quiet"}]


# gossipsub WITH peer scoring: a peer whose score is below the graylist threshold changes its interest, reconnects (hello) and
# re-opens its stream while graylisted, then recovers; a graylisted DIRECT peer. The belief must follow every announcement.
FORCED_GRAYLIST = [
    {"a": "score", "p": "p1", "v": -10}, {"a": "sub", "p": "p1", "t": "T2", "v": True}, {"a": "sub", "p": "p1", "t": "T1", "v": False}, {"a": "quiet"},
    {"a": "down", "p": "p1"}, {"a": "peer", "p": "p1", "subs": ["T1", "T2"]}, {"a": "quiet"}, {"a": "resetOut", "p": "p1"},
    {"a": "peer", "p": "p1", "subs": ["T1"]}, {"a": "quiet"}, {"a": "score", "p": "p1", "v": 0}, {"a": "quiet"},
    {"a": "score", "p": "p2", "v": -10}, {"a": "direct", "p": "p2", "on": True}, {"a": "sub", "p": "p2", "t": "T1", "v": True},
    {"a": "direct", "p": "p2", "on": False}, {"a": "sub", "p": "p2", "t": "T2", "v": True}, {"a": "score", "p": "p2", "v": 0}, {"a": "quiet"}]
# gossipsub with the peer gater: p1 is throttled (AcceptControl, a random decision per RPC with P = 48/49) while it changes its mind
FORCED_GATER = [
    {"a": "subscribe", "t": "T1"}, {"a": "gaterSetup", "p": "p1", "t": "T1", "bad": 3, "n": 4},
    {"a": "sub", "p": "p1", "t": "T2", "v": True}, {"a": "sub", "p": "p1", "t": "T2", "v": False}, {"a": "sub", "p": "p1", "t": "T2", "v": True},
    {"a": "sub", "p": "p1", "t": "T1", "v": False}, {"a": "sub", "p": "p1", "t": "T1", "v": True}, {"a": "sub", "p": "p1", "t": "T2", "v": False},
    {"a": "sub", "p": "p1", "t": "T2", "v": True}, {"a": "sub", "p": "p1", "t": "T1", "v": False}, {"a": "gaterRelease"}, {"a": "quiet"}]


def wire_plan(ctx):
    """(class name, generator arguments, assemble arguments, quick sample, thorough sample)."""
    api = ["subscribe", "cancel", "relay", "unrelay"]
    one = dict(peers=("p1",), conn=("p1",))
    return [
        ("refcount", dict(L=5, kinds=api + ["quiet"]), {}, 200, 1400),
        ("repeats", dict(L=5, kinds=["subscribe", "cancel", "cancelOld", "cancelAgain", "relay", "unrelay", "unrelayAgain", "close", "closeBusy", "quiet"]),
         {}, 240, 1600),
        ("fanout", dict(L=5, kinds=["subscribe", "cancel", "relay", "joinFan", "close", "quiet"]), {}, 150, 1100),
        ("fanout-hello", dict(L=5, kinds=["subscribe", "cancel", "joinFan", "close", "down", "up", "resetIn", "quiet"], topics=("T2",), **one),
         dict(topics=("T2",), **one), 100, 800),
        ("fullqueue", dict(L=6 if ctx.thorough else 5, kinds=api + ["gate", "quiet"], **one), dict(one), 300, 2000),
        ("hellorace", dict(L=5, kinds=api + ["release", "quiet"], held=("p1",)), dict(held=("p1",)), 200, 1400),
        ("faults", dict(L=5 if ctx.thorough else 4, kinds=["subscribe", "cancel", "relay", "resetIn", "rstIn", "dupIn", "down", "up", "rsub", "quiet"],
                        topics=("T1",), fan=(), **one), dict(topics=("T1",), **one), 300, 2400),
        ("faults-2peers", dict(L=3, kinds=["subscribe", "cancel", "relay", "resetIn", "rstIn", "dupIn", "down", "up", "rsub", "quiet"], topics=("T1",), fan=()),
         dict(topics=("T1",)), 110, 900),
        ("dupinbound", dict(L=4, kinds=["dupInSet", "dupIn", "rsub", "rstIn", "subscribe", "quiet"], max_fault=3, **one), dict(one), 140, 1100),
        ("graylist", dict(L=4, kinds=["gray", "direct", "rsub", "down", "up", "rstIn", "dupInSet", "quiet"], max_fault=2, max_remote=3, **one),
         dict(SCORED, **one), 200, 1500),
        ("nextcancel", dict(L=6, kinds=["bsub", "subscribe", "cancel", "quiet"], topics=("T1",), fan=(), **one), dict(topics=("T1",), **one), 130, 900),
    ]


def build_wire_scenarios(ctx, rng):
    scns, gen_states, gen_trans, classes = [], 0, 0, {}
    plan = wire_plan(ctx)

    def one(item):
        name, gkw, akw, nq, nt = item
        got, g = gen_wire(ctx, name, **gkw)
        return name, got, g
    with cf.ThreadPoolExecutor(max_workers=2) as ex:
        results = list(ex.map(one, plan))
    for (name, gkw, akw, nq, nt), (_, got, g) in zip(plan, results):
        gen_states += g.distinct
        gen_trans += g.generated
        want = nt if ctx.thorough else nq
        got.sort(key=lambda s: json.dumps(s, sort_keys=True))
        exhaustive = len(got) <= want
        if not exhaustive:
            got = rng.sample(got, want)
        classes[name] = {"generated": g.distinct, "replayed": len(got), "exhaustive": exhaustive}
        for i, acts in enumerate(got):
            # every router shares the pubsub layer; most replays use gossipsub, a slice uses the other two
            router = "gossipsub" if i % 5 < 3 else ("floodsub" if i % 5 == 3 else "randomsub")
            scns.append(assemble_wire(acts, cls=name, **dict({"router": router}, **akw)))
    # random mixes over the whole alphabet (seeded simulation)
    n_sim = 150 if not ctx.thorough else 1000
    got, g = gen_wire(ctx, "mixed", L=12, kinds=ALL_KINDS, simulate="num=%d" % n_sim, depth=14, max_fault=2, max_remote=3, max_quiet=3)
    classes["mixed"] = {"generated": len(got), "replayed": len(got), "exhaustive": False}
    for acts in got:
        scns.append(assemble_wire(acts, router="gossipsub", cls="mixed"))
    for router in ("gossipsub", "floodsub", "randomsub"):
        scns.append(assemble_wire(FORCED_FANOUT_RETRY, router=router, cls="forced-fanout-retry", peers=("p1",), conn=("p1",)))
        scns.append(assemble_wire(FORCED_HELLO_RACE, router=router, cls="forced-hello-race", held=("p1",)))
        scns.append(assemble_wire(FORCED_INBOUND_FLIP, router=router, cls="forced-inbound-flip"))
        scns.append(assemble_wire(FORCED_HELLO_CONTENT, router=router, cls="forced-hello-content"))
        scns.append(assemble_wire(FORCED_HELLO_AFTER_RELEASE, router=router, cls="forced-hello-after-release"))
        scns.append(assemble_wire(FORCED_DUP_INBOUND, router=router, cls="forced-dup-inbound"))
        scns.append(assemble_wire(FORCED_CANCEL_TWICE, router=router, cls="forced-cancel-twice"))
    scns.append(assemble_wire(FORCED_GRAYLIST, cls="forced-graylist", **SCORED))
    scns.append(assemble_wire(FORCED_GATER, cls="forced-gater", router="gossipsub", extra_cfg={"gater": True}))
    classes["forced"] = {"generated": 20, "replayed": 20, "exhaustive": True}
    return scns, gen_states, gen_trans, classes


def build_net_scenarios(ctx, rng):
    api = ["subscribe", "cancel", "relay", "unrelay"]
    plan = [
        ("net2", dict(L=4, kinds=api + ["cancelAgain", "rst", "unlink", "link", "quiet"], nodes=("A", "B")), dict(nodes=("A", "B")), 170, 2000),
        ("net3", dict(L=4 if ctx.thorough else 3, kinds=["subscribe", "cancel", "relay", "rst", "unlink", "link", "quiet"], nodes=("A", "B", "C")), dict(nodes=("A", "B", "C")), 150, 2000),
        ("net2-2topics", dict(L=5 if ctx.thorough else 4, kinds=["subscribe", "cancel", "rst", "quiet"], nodes=("A", "B"), topics=("T1", "T2")),
         dict(nodes=("A", "B"), topics=("T1", "T2")), 90, 1000),
    ]
    scns, gs, gt, classes = [], 0, 0, {}
    for name, gkw, akw, nq, nt in plan:
        got, g = gen_net(ctx, name, **gkw)
        gs += g.distinct
        gt += g.generated
        want = nt if ctx.thorough else nq
        got.sort(key=lambda s: json.dumps(s, sort_keys=True))
        exhaustive = len(got) <= want
        if not exhaustive:
            got = rng.sample(got, want)
        classes[name] = {"generated": g.distinct, "replayed": len(got), "exhaustive": exhaustive}
        for i, acts in enumerate(got):
            scns.append(assemble_net(acts, ("gossipsub", "floodsub", "randomsub")[i % 3], **akw))
    for router in ("gossipsub", "floodsub", "randomsub"):
        scns.append(assemble_net(FORCED_NET_CANCEL_TWICE, router))
    classes["forced"] = {"generated": 3, "replayed": 3, "exhaustive": True}
    return scns, gs, gt, classes


# ----------------------------------------------------------------------------- replay on the real code
import subprocess, time


def build_driver(ctx):
    """Compile the driver once (against /repo or VERIF_REPO) so that shards can run in parallel."""
    binp = os.path.join(ctx.work, "c05.test")
    r = vlib.run_go(ctx, "./drivers/c05/", "^$", extra=["-c", "-o", binp], name="build", timeout=900)
    if not os.path.exists(binp):
        raise vlib.Inconclusive("go build of the C05 driver failed (see %s)" % r["log"])
    return binp


def run_shards(ctx, binp, test, scn_file, n_scn, tag, shards):
    """Run the compiled driver on `shards` interleaved slices in parallel; returns the list of output files."""
    def one(k):
        outp = os.path.join(ctx.work, "%s-%d.ndjson" % (tag, k))
        marker = os.path.join(ctx.work, "%s-%d.marker" % (tag, k))
        env = dict(os.environ, VERIF_IN=scn_file, VERIF_OUT=outp, VERIF_SHARDS=str(shards), VERIF_SHARD=str(k), VERIF_MARKER=marker,
                   VERIF_SEED=str(ctx.seed), VERIF_TIER=ctx.tier)
        env.pop("VERIF_ONLY", None)
        p = subprocess.run(["timeout", "1500", binp, "-test.run", "^%s$" % test, "-test.count", "1", "-test.timeout", "1400s"],
                           cwd=os.path.join(vlib.HARNESS, "drivers", "c05"), env=env, stdout=subprocess.PIPE, stderr=subprocess.STDOUT,
                           text=True, errors="replace")
        with open(os.path.join(ctx.work, "go-%s-%d.log" % (tag, k)), "w") as f:
            f.write(p.stdout)
        return k, p.returncode, p.stdout, outp, marker
    outs, dead = [], []
    with cf.ThreadPoolExecutor(max_workers=shards) as ex:
        for k, rc, out, outp, marker in ex.map(one, range(shards)):
            if rc != 0:
                dead.append((k, rc, out, marker))
            if os.path.exists(outp) and os.path.getsize(outp) > 0:
                outs.append(outp)
    return outs, dead


def handle_dead(ctx, binp, test, scn_file, scns, dead, tag):
    """A dead driver is a violation only if the single scenario alone reproduces a panic inside the library."""
    for k, rc, out, marker in dead:
        idx = None
        try:
            idx = int(open(marker).read().strip())
        except Exception:
            pass
        if "panic:" not in out or idx is None:
            raise vlib.Inconclusive("driver %s shard %d failed (rc=%s) without an attributable panic (see %s/go-%s-%d.log)" % (test, k, rc, ctx.work, tag, k))
        outp = os.path.join(ctx.work, "%s-only-%d.ndjson" % (tag, idx))
        env = dict(os.environ, VERIF_IN=scn_file, VERIF_OUT=outp, VERIF_ONLY=str(idx), VERIF_SHARDS="1")
        p = subprocess.run(["timeout", "300", binp, "-test.run", "^%s$" % test, "-test.count", "1"], cwd=os.path.join(vlib.HARNESS, "drivers", "c05"),
                           env=env, stdout=subprocess.PIPE, stderr=subprocess.STDOUT, text=True, errors="replace")
        if p.returncode != 0 and "panic:" in p.stdout and "go-libp2p-pubsub" in p.stdout.split("panic:", 1)[1][:4000]:
            m = re.search(r"panic: (.*)", p.stdout)
            vlib.add_violation(ctx, "P_C05_NoCrash", {"cause": "panic", "driver": test},
                               "the library panicked while replaying scenario %d: %s" % (idx, m.group(1) if m else "?"),
                               {"driver": test, "scenario": scns[idx], "panic": p.stdout[-3000:]})
        else:
            raise vlib.Inconclusive("driver %s died on scenario %d but the crash is not reproducible in isolation (see %s/go-%s-%d.log)" % (test, idx, ctx.work, tag, k))


# ----------------------------------------------------------------------------- trace validation
def validate(ctx, module, scenarios, name, chunk):
    """Run the (deterministic, always-accepting) trace spec over chunks of scenarios in parallel; collect VIOL / COV prints."""
    chunks = [scenarios[i:i + chunk] for i in range(0, len(scenarios), chunk)]

    def one(arg):
        k, part = arg
        path = os.path.join(ctx.work, "%s-chunk-%d.ndjson" % (name, k))
        vlib.write_ndjson(path, [ln for s in part for ln in s])
        res = vlib.run_tlc(ctx, FAMILY, module, module + ".cfg", mode="trace", files={"trace.ndjson": path}, timeout=900,
                           name="%s-%d" % (name, k), heap="3g")
        n_lines = sum(len(s) for s in part)
        if res.hw is None or res.hw[0] < res.hw[1] or res.hw[1] != n_lines + 1 or not res.no_error:
            raise vlib.Inconclusive("trace validation %s chunk %d did not process the whole trace (hw=%s, see %s/tlc.out): %s" %
                                    (name, k, res.hw, res.dir, res.errors[:2]))
        return res.printed("VIOL"), res.printed("COV"), res.distinct
    viols, cov, states = [], [], 0
    with cf.ThreadPoolExecutor(max_workers=max(1, min(6, vlib.NCPU // 2))) as ex:
        for v, c, st in ex.map(one, list(enumerate(chunks))):
            viols += v
            cov += c
            states += st
    return viols, cov, states


# ----------------------------------------------------------------------------- verdict
D12_SIG = {"cause": "StreamReset", "dir": "outbound", "inbound_alive": True}
RETRY_FANOUT_SIG = {"cause": "RetryIgnoresFanoutOnly"}      # D20, fixed in /repo (ae65266): a recurrence is a VIOLATION
LATE_CLOSED_SIG = {"cause": "StreamReset", "dir": "inbound-replaced", "race": "ClosedStreamAfterHello"}   # D19, fixed (a3fad9c)


def signature(v, view):
    pred = v["pred"]
    if pred == "P_C05_ListPeers":
        if v.get("d12"):
            return dict(D12_SIG)
        if v.get("d18"):   # finding C05-LATE-CLOSEDSTREAM
            return dict(LATE_CLOSED_SIG)
        got, want = set(v["got"]) | set(v.get("belief", [])), set(v["want"])
        return {"cause": "other", "view": view, "kind": ("extra" if got - want else "") + ("missing" if want - got else "")}
    if pred == "P_C05_NoSpuriousAnnounce":
        if v["why"] == "staleRetry" and v.get("fanoutSubscribed") and v["ev"]["sub"]:
            return dict(RETRY_FANOUT_SIG)
        return {"cause": "other", "why": v["why"], "k": v["ev"]["k"], "sub": v["ev"]["sub"]}
    if pred == "P_C05_WireTruth":
        if v.get("fanoutRetry"):
            return dict(RETRY_FANOUT_SIG)
        wire, want = set(v["wire"]), set(v["want"])
        return {"cause": "other", "up": v["up"], "kind": ("extra" if wire - want else "") + ("missing" if want - wire else "")}
    if pred == "P_C05_AnnounceOnEdge":
        return {"cause": "other", "value": v["value"]}
    return {"cause": "other"}


def describe(v, view):
    pred = v["pred"]
    at = "scenario %s line %s (%s view)" % (v["at"]["scn"], v["at"]["i"], view)
    if pred == "P_C05_ListPeers":
        return "%s: ListPeers(%s)%s = %s, belief %s, but the connected interested peers are %s%s" % (
            at, v.get("topic"), " on node " + v["node"] if "node" in v else "", v["got"], v.get("belief", "-"), v["want"],
            " (the node's outbound stream to %s was reset while their stream stayed up)" % v["lostPeers"] if v.get("d12") else
            " (the stream from %s was reset and re-opened at once: its hello may be wiped by the late ClosedStream)" % v.get("racyPeers") if v.get("d18") else "")
    if pred == "P_C05_WireTruth":
        return "%s: at quiescence peer %s (stream up=%s) has been told the node is interested in %s but it is interested in %s" % (at, v["p"], v["up"], v["wire"], v["want"])
    if pred == "P_C05_NoSpuriousAnnounce":
        return "%s: announcement %s enqueued which is neither an edge of the interest nor a retry repeating the current value (%s)" % (at, v["ev"], v["why"])
    if pred == "P_C05_AnnounceOnEdge":
        return "%s: interest in %s changed to %s but no announcement was enqueued for %s" % (at, v["topic"], v["value"], v["peers"])
    if pred == "P_C05_CancelledNext":
        return "%s: Next returned %s, expected %s (subscription %s)" % (at, v["got"], v["want"], v["state"])
    if pred == "P_C05_GetTopics":
        return "%s: GetTopics = %s, live subscriptions on %s" % (at, v["got"], v["want"])
    return "%s: %s" % (at, json.dumps(v))


def record(ctx, viols, view, driver, scns, seen):
    for v in viols:
        sig = signature(v, view)
        key = (v["pred"], json.dumps(sig, sort_keys=True))
        seen[key] = seen.get(key, 0) + 1
        if seen[key] <= 2:
            vlib.add_violation(ctx, v["pred"], sig, describe(v, view),
                               {"driver": driver, "scenario": scns[v["at"]["scn"]], "failing_line": v["at"]["i"], "violation": v})
        else:
            first = next(x for x in ctx.violations if x["pred"] == v["pred"] and json.dumps(x["sig"], sort_keys=True) == key[1])
            ctx.violations.append({"pred": v["pred"], "sig": sig, "detail": first["detail"], "replay": first["replay"]})


def tags_by_scn(cov):
    out = {}
    for c in cov:
        out.setdefault(c["scn"], set()).update(c["tags"])
    return out


WIRE_OBLIGATIONS = {
    "announce on the first of mixed subscriptions and relays": ["edge:subscribe:on", "edge:relay:on", "noedge:subscribe", "noedge:relay"],
    "withdraw on the last of mixed subscriptions and relays": ["edge:cancel:off", "edge:unrelay:off", "noedge:cancel", "noedge:unrelay"],
    "full-queue drop and a retry that sends": ["edgeDropped", "retrySent"],
    "a retry that must not send because the state flipped": ["retrySuppressed"],
    "hello racing queued announcements": ["queuedWhileHeld", "helloThenQueued"],
    "fanout-only subscribe": ["fanoutSubscribe"],
    "outbound stream reset": ["fault:resetIn"],
    "inbound stream reset / close / duplicate": ["fault:resetOut", "fault:closeOut", "dupInbound", "inboundReopened"],
    "duplicate inbound stream whose hello differs (subset, disjoint, superset)": ["dupInbound:subset", "dupInbound:disjoint", "dupInbound:superset"],
    "disconnect and reconnect": ["fault:down", "reconnect"],
    "Next after Cancel (buffered, and a reader blocked in Next)": ["nextAfterCancel", "readerCancelled"],
    "a handle cancelled twice while exactly one sibling is live and no relay exists; also with no live handle": ["cancelAgain:oneLiveSiblingNoRelay", "cancelAgain:noneLive"],
    "a RelayCancelFunc called twice while another reference is live": ["unrelayAgain:oneLiveRefNoSub"],
    "several subscriptions cancelled oldest first; cancel after a refused Topic.Close": ["cancelOldestFirst", "closeRefused", "cancelAfterCloseRefused"],
    "a subscription change and a hello received from a GRAYLISTED peer (gossipsub with scoring), also a direct one; the score recovers":
        ["subFromGraylisted", "helloFromGraylisted", "subFromGraylistedDirect", "scoreRecovered"],
    "a subscription change received from a gater-THROTTLED peer": ["subFromThrottled"],
    "quiescent lines judged": ["quiet"],
}
NET_OBLIGATIONS = {
    "stream reset of each direction and side": ["rst:out:local", "rst:out:remote", "rst:in:local", "rst:in:remote"],
    "link / unlink": ["link", "unlink"],
    "a handle cancelled twice while exactly one sibling is live (real nodes)": ["cancelAgain:oneLiveSiblingNoRelay"],
    "quiescent lines with a non-empty expected peer list": ["quietNonEmpty"],
}


def run(ctx):
    rng = random.Random(ctx.seed)
    if ctx.replay:
        return run_replay(ctx)
    # 1. model level
    if os.environ.get("VERIF_C05_SKIP_MC"):     # development aid only (mutation trials); says so in the evidence
        states, transitions, mc_summary = 0, 0, {"skipped": True}
        ctx.notes.append("model-level phase skipped (VERIF_C05_SKIP_MC)")
    else:
        ctx.log("model checking")
        states, transitions, mc_summary = model_checking(ctx)
        ctx.log("MC ok: %s" % json.dumps(mc_summary))
    # 2. scenarios from TLC
    wire_scns, gs, gt, wire_classes = build_wire_scenarios(ctx, rng)
    net_scns, gs2, gt2, net_classes = build_net_scenarios(ctx, rng)
    states += gs + gs2
    transitions += gt + gt2
    wire_file, net_file = os.path.join(ctx.work, "wire-scenarios.ndjson"), os.path.join(ctx.work, "net-scenarios.ndjson")
    vlib.write_ndjson(wire_file, wire_scns)
    vlib.write_ndjson(net_file, net_scns)
    ctx.log("scenarios: wire %d %s, net %d %s" % (len(wire_scns), json.dumps({k: v["replayed"] for k, v in wire_classes.items()}),
                                                  len(net_scns), json.dumps({k: v["replayed"] for k, v in net_classes.items()})))
    # 3. replay on the real code
    binp = build_driver(ctx)
    shards = 4 if not ctx.thorough else min(8, max(2, vlib.NCPU // 2))
    seen, samples, total, discarded = {}, [], 0, 0
    all_tags = {}
    judged_quiet = api_lines = 0
    nontrivial = set()
    for view, test, scn_file, scns, module, project, chunk in (
            ("wire", "TestC05Wire", wire_file, wire_scns, "InterestTrace", project_wire_file, 600),
            ("net", "TestC05Net", net_file, net_scns, "InterestNetTrace", project_net_file, 1000)):
        outs, dead = run_shards(ctx, binp, test, scn_file, len(scns), view, shards)
        if dead:
            handle_dead(ctx, binp, test, scn_file, scns, dead, view)
        traces = []
        for o in outs:
            traces += project(o)
        if not traces:
            raise vlib.Inconclusive("driver %s produced no trace" % test)
        got_idx = {s[0]["scn"] for s in traces}
        if not dead and len(got_idx) != len(scns):
            raise vlib.Inconclusive("driver %s replayed %d of %d scenarios" % (test, len(got_idx), len(scns)))
        ctx.log("%s: %d scenarios replayed, %d lines" % (test, len(traces), sum(len(s) for s in traces)))
        # 4. trace validation
        viols, cov, st = validate(ctx, module, traces, "tv-" + view, chunk)
        states += st
        transitions += st
        tags = tags_by_scn(cov)
        disc = sum(1 for t in tags.values() if "discarded" in t)
        discarded += disc
        total += len(traces) - disc
        for c in cov:
            judged_quiet += 1 if "quiet" in c["tags"] else 0
            api_lines += 1 if any(t.startswith(("edge:", "noedge:")) for t in c["tags"]) else 0
        for scn, t in tags.items():
            all_tags.setdefault(view, set()).update(t)
            if "quiet" in t and any(x.startswith("edge:") for x in t) and "discarded" not in t:
                nontrivial.add(view + json.dumps(scns[scn]["acts"], sort_keys=True))
        if view == "wire":
            race = [s for s, t in tags.items() if "queuedWhileHeld" in t and "helloThenQueued" in t]
            if not race:
                all_tags["wire"].discard("helloThenQueued")
        record(ctx, viols, view, test, scns, seen)
        mid = traces[len(traces) // 2]
        samples.append({"driver": test, "scenario": scns[mid[0]["scn"]], "trace": mid[:6]})
        ctx.log("%s: %d predicate failures (%s)" % (module, len(viols), json.dumps({k[0] + ":" + json.loads(k[1]).get("cause", "") + "/" + str(json.loads(k[1]).get("dir", json.loads(k[1]).get("kind", ""))): n for k, n in seen.items()})))
    if discarded > 0.05 * (len(wire_scns) + len(net_scns)):
        raise vlib.Inconclusive("%d scenarios were discarded because the simulated network did not follow the connectivity stimuli" % discarded)
    if discarded:
        ctx.notes.append("%d scenario(s) discarded: libp2p connectivity did not follow the stimulus (harness precondition)" % discarded)
    # coverage obligations (DESIGN C05)
    unmet = []
    for view, obl in (("wire", WIRE_OBLIGATIONS), ("net", NET_OBLIGATIONS)):
        for what, tags in obl.items():
            miss = [t for t in tags if t not in all_tags.get(view, set())]
            if miss:
                unmet.append("%s: %s (never observed: %s)" % (view, what, miss))
    routers = {s["cfg"]["router"] for s in wire_scns} | {s["router"] for s in net_scns}
    if routers != {"gossipsub", "floodsub", "randomsub"}:
        unmet.append("not all three routers were exercised: %s" % sorted(routers))
    new = [v for v in ctx.violations if not any(vlib.sig_matches(f, v) for f in vlib.load_findings(ctx.pid))]
    if unmet and not new:
        raise vlib.Inconclusive("coverage obligations not met: " + "; ".join(unmet))
    cov = {"states": states, "transitions": transitions, "traces_validated_against_impl": total, "samples": samples,
           "evaluations": judged_quiet + api_lines, "distinct_nontrivial": len(nontrivial),
           "rule": "evaluation = one judged quiescent line (WireTruth/ListPeers/GetTopics on every peer/node and topic) or one API line "
                   "(AnnounceOnEdge/NoSpuriousAnnounce at enqueue time); a scenario is non-trivial if it contains at least one edge of "
                   "Interested(t) and one judged quiescent line; distinct by its stimulus sequence",
           "exhaustive": False, "mc": mc_summary, "wire_classes": wire_classes, "net_classes": net_classes,
           "obligation_tags": {k: sorted(v) for k, v in all_tags.items()}, "discarded": discarded,
           "failures_by_signature": {k[0] + " " + k[1]: n for k, n in seen.items()}}
    return vlib.finish(ctx, LEVEL, cov, [
        "a correct remote peer re-sends its hello when ITS outbound stream is re-established and does nothing when only its inbound stream "
        "is replaced (this is what the library does; the fake peers of the wire view follow the same rule)",
        "quiescence = every gate open, every held stream open released, every remote stream re-opened, then 1.6 s (wire) / 2.5 s (net) of "
        "virtual time: longer than announceRetry's 1..1000 ms sleep and the dead-peer respawn backoff (0, 100 ms, ...)",
        "at most 2 outbound resets per peer per scenario (the respawn backoff gives up after 4 attempts in 10 minutes: by design, out of scope)",
        "the announcement tracer events (SendRPC/DropRPC in announce/doAnnounceRetry) mark the enqueue instant; the hello is observed on the wire",
        "model: wire side and belief side are checked in separate exhaustive configurations (they share only conn/out)"])


def run_replay(ctx):
    payload = json.load(open(ctx.replay))
    rp = payload.get("replay") or {}
    scn, driver = rp.get("scenario"), rp.get("driver", "TestC05Wire")
    if not scn:
        raise vlib.Inconclusive("replay file has no scenario")
    view = "wire" if driver == "TestC05Wire" else "net"
    f = os.path.join(ctx.work, "replay-scenario.ndjson")
    vlib.write_ndjson(f, [scn])
    binp = build_driver(ctx)
    outs, dead = run_shards(ctx, binp, driver, f, 1, "replay", 1)
    if dead:
        handle_dead(ctx, binp, driver, f, [scn], dead, "replay")
    traces = (project_wire_file if view == "wire" else project_net_file)(outs[0]) if outs else []
    seen = {}
    st = 0
    if traces:
        viols, cov, st = validate(ctx, "InterestTrace" if view == "wire" else "InterestNetTrace", traces, "tv-replay", 10)
        record(ctx, viols, view, driver, [scn], seen)
    cov = {"states": max(st, 1), "transitions": max(st, 1), "traces_validated_against_impl": len(traces), "samples": [{"driver": driver, "trace": traces[0][:6]}] if traces else [{}],
           "evaluations": len(traces), "distinct_nontrivial": len(traces), "rule": "single replayed scenario"}
    return vlib.finish(ctx, LEVEL, cov, ["replay of one recorded scenario"])
