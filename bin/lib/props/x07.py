"""X07 - subscription filters (extension family; subscription_filter.go and its uses in pubsub.go).

spec/subfilter: SubFilterFn (the filters as pure functions: the algorithm of FilterSubscriptions transcribed, the
meaning "net effect of the allowed part of the list", the limit wrapper), MCSubFilterFn (exhaustive function-level MC with
one seeded defect per property), SubFilter + MCSubFilter (node-level model at event-loop-turn grain, seeded defects),
GenSubFilterFn / GenSubFilterNode (input generators), SubFilterFnTrace / SubFilterNodeTrace (predicates evaluated on what the
REAL filters returned / on step lines of a real node with a filter and wire-level fake peers).

Finding X07-F1 (known_findings.txt): FilterSubscriptions cancels contradictory entries of a topic (and keeps the first of
equal ones) instead of letting the last entry win, so a node with a filter can end up believing something else about an
ALLOWED topic than a node without one."""
import concurrent.futures as cf
import hashlib, json, os, random, re, subprocess
from .. import vlib

LEVEL = "model_checking"
FAMILY = "subfilter"
U3 = ["T1", "T2", "T3"]


def tla_set(xs):
    return "{" + ", ".join('"%s"' % x if isinstance(x, str) else str(x) for x in xs) + "}"


# ----------------------------------------------------------------------------- model checking
FN_INV = ["P_X07_OnlyAllowed", "P_X07_AtMostOne", "P_X07_FromInput", "P_X07_NetEffectConsistent", "L_ClosedForm",
          "P_X07_Idempotent", "P_X07_OrderInsensitive", "L_CancelVsLast"]
NODE_INV = ["TypeOK", "P_X07_NoDisallowedInterest", "P_X07_JoinRefused", "P_X07_AllowedNotRefused", "P_X07_NoDisallowedTraffic",
            "P_X07_NetEffectConsistent", "P_X07_RejectedRpcIgnored", "P_X07_RestProcessed"]
NODE_BASE = {"U": tla_set(["T1", "T3"]), "Allow": tla_set(["T1"]), "Peers": tla_set(["p1"]), "Limit": 2, "MaxSubs": 3,
             "WithPartial": False, "Msgs": "Msgs <- MCMsgs", "Dedup": '"last"', "FilterOnRecv": True, "LimitCmp": '"gt"',
             "LimitCountsRaw": True, "ErrIgnoresAll": True, "JoinChecked": True, "PartialSkipsRest": False}


def fn_cfg(dedup, inv, topics=("T1", "T2"), L=4):
    return vlib.cfg_text(constants={"U": tla_set(topics), "L": L, "Dedup": '"%s"' % dedup}, invariants=inv)


def node_cfg(inv, **over):
    c = dict(NODE_BASE)
    c.update(over)
    return vlib.cfg_text(constants=c, invariants=inv)


def model_checking(ctx):
    """Exhaustive MC at both levels; the code as found must fail P_X07_NetEffect (finding X07-F1) and nothing else; every
    property has a seeded model defect that MUST fail it (non-vacuity)."""
    big = ctx.thorough
    jobs = [
        # (name, module, cfg, want, property that must fail, timeout)
        ("fn-repair-all-hold", "MCSubFilterFn", fn_cfg("last", FN_INV + ["P_X07_NetEffect"], U3 if big else ("T1", "T2"), 4), "ok", None, 900),
        ("fn-asfound-rest-holds", "MCSubFilterFn", fn_cfg("cancel", FN_INV, U3 if big else ("T1", "T2"), 4), "ok", None, 900),
        ("fn-asfound-F1", "MCSubFilterFn", fn_cfg("cancel", ["P_X07_NetEffect"], L=3), "fail", "P_X07_NetEffect", 300),
        ("fn-seeded-unsubLeak", "MCSubFilterFn", fn_cfg("unsubLeak", ["P_X07_OnlyAllowed"], L=3), "fail", "P_X07_OnlyAllowed", 300),
        ("fn-seeded-noDedup", "MCSubFilterFn", fn_cfg("noDedup", ["P_X07_AtMostOne"], L=3), "fail", "P_X07_AtMostOne", 300),
        ("fn-seeded-dropPartial", "MCSubFilterFn", fn_cfg("dropPartial", ["P_X07_FromInput"], L=3), "fail", "P_X07_FromInput", 300),
        ("fn-seeded-sticky", "MCSubFilterFn", fn_cfg("sticky", ["P_X07_NetEffectConsistent"], L=3), "fail", "P_X07_NetEffectConsistent", 300),
        ("fn-seeded-adjacent", "MCSubFilterFn", fn_cfg("adjacent", ["P_X07_OrderInsensitive"], L=3), "fail", "P_X07_OrderInsensitive", 300),
        ("fn-seeded-pairsOnce", "MCSubFilterFn", fn_cfg("pairsOnce", ["P_X07_Idempotent"], L=4), "fail", "P_X07_Idempotent", 300),
        ("node-repair-all-hold", "MCSubFilter", node_cfg(NODE_INV + ["P_X07_NetEffect"], WithPartial=big), "ok", None, 1200),
        ("node-asfound-rest-holds", "MCSubFilter", node_cfg(NODE_INV, Dedup='"cancel"'), "ok", None, 900),
        ("node-asfound-F1", "MCSubFilter", node_cfg(["P_X07_NetEffect"], Dedup='"cancel"'), "fail", "P_X07_NetEffect", 300),
        ("node-seeded-filter-skipped", "MCSubFilter", node_cfg(["P_X07_NoDisallowedInterest"], FilterOnRecv=False), "fail", "P_X07_NoDisallowedInterest", 300),
        ("node-seeded-limit-ge", "MCSubFilter", node_cfg(["P_X07_RestProcessed"], LimitCmp='"ge"'), "fail", "P_X07_RestProcessed", 300),
        ("node-seeded-limit-after-dedup", "MCSubFilter", node_cfg(["P_X07_RejectedRpcIgnored"], LimitCountsRaw=False), "fail", "P_X07_RejectedRpcIgnored", 300),
        ("node-seeded-error-keeps-rest", "MCSubFilter", node_cfg(["P_X07_RejectedRpcIgnored"], ErrIgnoresAll=False), "fail", "P_X07_RejectedRpcIgnored", 300),
        ("node-seeded-join-unchecked", "MCSubFilter", node_cfg(["P_X07_JoinRefused"], JoinChecked=False), "fail", "P_X07_JoinRefused", 300),
        ("node-seeded-join-unchecked-traffic", "MCSubFilter", node_cfg(["P_X07_NoDisallowedTraffic"], JoinChecked=False), "fail", "P_X07_NoDisallowedTraffic", 300),
        ("node-seeded-partial-drops-rpc", "MCSubFilter", node_cfg(["P_X07_RestProcessed"], PartialSkipsRest=True), "fail", "P_X07_RestProcessed", 300),
    ]

    def one(j):
        name, module, cfg, want, prop, to = j
        # quick tier: never more than 4 TLC workers in total (4 single-worker JVMs at a time)
        return name, vlib.run_tlc(ctx, FAMILY, module, cfg, timeout=to, name=name, workers=3 if want == "ok" and ctx.thorough else 1, heap="3g")
    res = {}
    with cf.ThreadPoolExecutor(max_workers=4) as ex:
        for name, r in ex.map(one, jobs):
            res[name] = r
    states = transitions = 0
    summary = {}
    for name, module, cfg, want, prop, to in jobs:
        r = res[name]
        if want == "ok":
            vlib.require_mc_ok(ctx, r, name)
            states += r.distinct
            transitions += r.generated
        else:
            vlib.require_mc_fails(ctx, r, name, prop)
        summary[name] = [r.distinct, r.generated, "%.0fs" % r.wall, want]
    return states, transitions, summary


# ----------------------------------------------------------------------------- generator cache
class _Gen:
    def __init__(self, distinct, generated, d, cached):
        self.distinct, self.generated, self.dir, self.cached = distinct, generated, d, cached


def _gen_cached(ctx, key_parts, module_files, runner):
    """Generator output is a function of the spec text, the constants and (for simulations) the seed."""
    h = hashlib.sha1()
    for f in module_files:
        h.update(open(os.path.join(vlib.SPEC, FAMILY, f), "rb").read())
    h.update(json.dumps(key_parts, sort_keys=True, default=str).encode())
    d = os.path.join(vlib.WORK, ".x07-gencache")
    os.makedirs(d, exist_ok=True)
    path = os.path.join(d, h.hexdigest()[:20] + ".json")
    if os.path.exists(path) and not os.environ.get("VERIF_X07_NOCACHE"):
        try:
            c = json.load(open(path))
            return c["scns"], _Gen(c["distinct"], c["generated"], path, True)
        except Exception:
            pass
    got, g = runner()
    tmp = path + ".%d.tmp" % os.getpid()
    with open(tmp, "w") as f:
        json.dump({"scns": got, "distinct": g.distinct, "generated": g.generated}, f)
    os.replace(tmp, path)
    return got, _Gen(g.distinct, g.generated, g.dir, False)


def _run_gen(ctx, module, consts, name, simulate=None, depth=None, inv="Emit", timeout=900):
    cfg = vlib.cfg_text(constants=consts, invariants=[inv])
    kw = {}
    if simulate:
        kw = {"mode": "sim", "simulate": simulate, "depth": depth}
    g = vlib.run_tlc(ctx, FAMILY, module, cfg, timeout=timeout, name="gen-" + name, heap="4g", workers=1 if simulate else 2, **kw)
    if not simulate:
        vlib.require_mc_ok(ctx, g, "generator " + name)
    got = g.printed("SCN")
    if not got:
        raise vlib.Inconclusive("generator %s emitted nothing (see %s/tlc.out)" % (name, g.dir))
    return got, g


# ----------------------------------------------------------------------------- function level
def gen_fn(ctx, name, topics, L, partial, min_len=0, simulate=None):
    consts = {"U": tla_set(topics), "L": L, "WithPartial": partial, "MinLen": min_len}
    key = ["fn", list(topics), L, partial, min_len, simulate, ctx.seed if simulate else 0]
    return _gen_cached(ctx, key, ["GenSubFilterFn.tla"],
                       lambda: _run_gen(ctx, "GenSubFilterFn", consts, name, simulate=simulate, depth=L + 1,
                                        inv="EmitFull" if simulate else "Emit"))


ALLOWS_SYM = [[], ["T1"], ["T1", "T2"], ["T1", "T2", "T3"]]           # allow-sets up to renaming of topics
ALLOWS_ALL = [[], ["T1"], ["T2"], ["T3"], ["T1", "T2"], ["T1", "T3"], ["T2", "T3"], ["T1", "T2", "T3"]]


def build_fn_inputs(ctx):
    """Every list up to the bound (TLC, exhaustive) x allow-sets, plus seeded random longer lists."""
    plan = [("l4", U3, 4, False, ALLOWS_SYM), ("l3p", U3, 3, True, ALLOWS_ALL)] if not ctx.thorough else \
           [("l5", U3, 5, False, ALLOWS_SYM), ("l4p", U3, 4, True, ALLOWS_ALL)]
    inputs, seen, gs, gt, classes = [], {}, 0, 0, {}
    for name, topics, L, partial, allows in plan:
        got, g = gen_fn(ctx, name, topics, L, partial)
        gs += g.distinct
        gt += g.generated
        classes[name] = {"lists": len(got), "allow_sets": len(allows), "exhaustive": True}
        for s in got:
            k = json.dumps(s["subs"], sort_keys=True)
            have = seen.setdefault(k, set())
            add = [a for a in allows if tuple(a) not in have]
            have.update(tuple(a) for a in add)
            if add:
                inputs.append({"id": len(inputs), "u": U3, "subs": s["subs"], "allows": add})
    n_sim = 300 if not ctx.thorough else 3000
    got, g = gen_fn(ctx, "long", U3, 8, True, simulate="num=%d" % n_sim)
    uniq = {}
    for s in got:            # the simulator prints a finished trace more than once
        uniq.setdefault(json.dumps(s["subs"], sort_keys=True), s)
    got = [uniq[k] for k in sorted(uniq)]
    if len(got) > n_sim:
        got = random.Random(ctx.seed).sample(got, n_sim)
    classes["long-random"] = {"lists": len(got), "allow_sets": 3, "exhaustive": False}
    for s in got:
        inputs.append({"id": len(inputs), "u": U3, "subs": s["subs"], "allows": [["T1"], ["T1", "T2"], ["T1", "T2", "T3"]]})
    return inputs, gs, gt, classes


def validate(ctx, module, lines_chunks, name):
    """Trace validation of in-memory chunks (lists of lines)."""
    files = []
    for k, part in enumerate(lines_chunks):
        path = os.path.join(ctx.work, "%s-chunk-%d.ndjson" % (name, k))
        vlib.write_ndjson(path, part)
        files.append((path, len(part)))
    return validate_files(ctx, module, files, name)


def validate_files(ctx, module, files, name, attach=None):
    """Run a (deterministic, always-accepting) trace spec over chunk files in parallel; collect VIOL / COV prints. `attach`
    may add to the violations of a chunk what it needs from the chunk file, which is removed afterwards."""
    def one(arg):
        k, (path, n) = arg
        res = vlib.run_tlc(ctx, FAMILY, module, module + ".cfg", mode="trace", files={"trace.ndjson": path}, timeout=1200,
                           name="%s-%d" % (name, k), heap="3g")
        if res.hw is None or res.hw[0] < res.hw[1] or res.hw[1] != n + 1 or not res.no_error:
            raise vlib.Inconclusive("trace validation %s chunk %d did not process the whole trace (hw=%s, see %s/tlc.out): %s" %
                                    (name, k, res.hw, res.dir, res.errors[:2]))
        v = res.printed("VIOL")
        if attach and v:
            attach(path, v)
        for f in (path, os.path.join(res.dir, "trace.ndjson")):
            try:
                os.remove(f)
            except OSError:
                pass
        return v, res.printed("COV"), res.distinct
    viols, cov, states = [], [], 0
    with cf.ThreadPoolExecutor(max_workers=4 if not ctx.thorough else 6) as ex:
        for v, c, st in ex.map(one, list(enumerate(files))):
            viols += v
            cov += c
            states += st
    return viols, cov, states


F1_SIG = {"cause": "cancel-fold"}
FIRSTS = {}      # (predicate, signature) -> the first violation recorded with it (later ones re-use its text and replay file)


def fn_signature(v):
    if v["pred"] == "P_X07_NetEffect" and v.get("explained"):
        return dict(F1_SIG, level="fn")
    return {"cause": "other", "level": "fn", "filter": v["at"]["kind"], "why": v["why"][:60]}


def n_variants(n):
    """Filter evaluations TestX07Fn performs for a list of n entries (see the driver)."""
    return 3 + (3 if n else 2) + 1 + (2 if n else 0)


def run_fn_level(ctx, seen):
    inputs, gs, gt, classes = build_fn_inputs(ctx)
    in_file, out_file = os.path.join(ctx.work, "fn-inputs.ndjson"), os.path.join(ctx.work, "fn-trace.ndjson")
    vlib.write_ndjson(in_file, inputs)
    r = vlib.run_go(ctx, "./drivers/x07/", "^TestX07Fn$", env={"VERIF_IN": in_file, "VERIF_OUT": out_file}, timeout=1500, name="fn")
    if r["rc"] != 0 or not os.path.exists(out_file) or os.path.getsize(out_file) == 0:
        raise vlib.Inconclusive("driver TestX07Fn failed (rc=%s, see %s)" % (r["rc"], r["log"]))
    want = sum(len(i["allows"]) for i in inputs)
    evals = sum(len(i["allows"]) * n_variants(len(i["subs"])) for i in inputs)
    nontrivial = sum(1 for i in inputs for al in i["allows"] if repeats_allowed_topic({"subs": i["subs"], "allow": al}))
    # the trace is large at the thorough tier: split it into chunk files without holding it in memory
    chunk = max(500, min(6000, -(-want // 4)))
    files, n_cases, cur, sample_line = [], 0, None, None
    with open(out_file) as f:
        for line in f:
            if not line.strip():
                continue
            if n_cases % chunk == 0:
                if cur:
                    cur.close()
                path = os.path.join(ctx.work, "tv-fn-chunk-%d.ndjson" % len(files))
                files.append([path, 0])
                cur = open(path, "w")
            cur.write(line)
            files[-1][1] += 1
            n_cases += 1
            if n_cases == want // 2:
                sample_line = line
    if cur:
        cur.close()
    os.remove(out_file)
    if n_cases != want:
        raise vlib.Inconclusive("driver TestX07Fn produced %d of %d cases" % (n_cases, want))
    ctx.log("function level: %d lists -> %d (list, allow-set) cases, %d filter evaluations" % (len(inputs), n_cases, evals))

    def attach(path, vs):
        """Give the first violations of every signature in this chunk the case they are about."""
        need, per = {}, {}
        for v in vs:
            k = (v["pred"], json.dumps(fn_signature(v), sort_keys=True))
            per[k] = per.get(k, 0) + 1
            if per[k] <= 2:
                need.setdefault(v["at"]["id"], []).append(v)
        if need:
            for line in open(path):
                c = json.loads(line)
                for v in need.get(c["id"], []):
                    v["case"] = c
    viols, cov, states = validate_files(ctx, "SubFilterFnTrace", [tuple(x) for x in files], "tv-fn", attach=attach)
    tags = set()
    for c in cov:
        tags.update(c["tags"])
    for v in viols:
        sig = fn_signature(v)
        key = (v["pred"], json.dumps(sig, sort_keys=True))
        seen[key] = seen.get(key, 0) + 1
        case = v.get("case")
        if seen[key] <= 2 and case:
            var = next((x for x in case["vars"] if x["kind"] == v["at"]["kind"] and x["limit"] == v["at"]["limit"]), {})
            detail = "%s filter (limit %s), allow-set %s, input %s -> %s%s: %s" % (
                v["at"]["kind"], v["at"]["limit"], case["allow"], fmt_subs(case["subs"]), fmt_subs(var.get("out", [])),
                " error " + var["err"] if var.get("err") else "", v["why"])
            vlib.add_violation(ctx, v["pred"], sig, detail, {"level": "fn", "input": {"id": 0, "u": case["u"], "subs": case["subs"], "allows": [case["allow"]]},
                                                             "variant": var, "violation": {k: x for k, x in v.items() if k != "case"}})
        else:
            first = FIRSTS.get(key)
            if first is None:
                vlib.add_violation(ctx, v["pred"], sig, "%s filter, case %s: %s" % (v["at"]["kind"], v["at"]["id"], v["why"]), {"level": "fn", "violation": v})
            else:
                ctx.violations.append(first)      # one more observation of the same signature
        FIRSTS.setdefault(key, ctx.violations[-1])
    mid = json.loads(sample_line) if sample_line else {"allow": [], "subs": [], "vars": []}
    sample = {"level": "fn", "allow": mid["allow"], "subs": mid["subs"], "results": [{k: x[k] for k in ("kind", "limit", "err", "out")} for x in mid["vars"][:4]]}
    return {"states": gs + states, "transitions": gt + states, "cases": n_cases, "evaluations": evals, "nontrivial": nontrivial,
            "tags": tags, "classes": classes, "sample": sample, "viols": len(viols)}


def fmt_subs(subs):
    return "[" + ", ".join(("+" if e["s"] else "-") + e["t"] + ("(partial)" if e.get("r") else "") for e in subs) + "]"


def repeats_allowed_topic(case):
    n = {}
    for e in case["subs"]:
        if e["t"] in case["allow"]:
            n[e["t"]] = n.get(e["t"], 0) + 1
    return any(v > 1 for v in n.values())


FN_OBLIGATIONS = {
    "every filter kind evaluated": ["kind:func", "kind:allowlist", "kind:regexp", "kind:limit-allowlist", "kind:limit-regexp", "kind:limit-limit"],
    "limit boundary (one over / exactly / one under)": ["limit:over", "limit:exact", "limit:under"],
    "the limit is decided by the raw count (over the limit although the filtered list would fit)": ["limit:rawNotDeduped"],
    "lists that repeat an allowed topic (equal, contradictory, other partial flag, an entry after a cancelled pair)":
        ["repeat", "contradiction", "repeatOtherPartial", "restartAfterCancel"],
    "disallowed entries (subscribe and unsubscribe) dropped, empty result": ["disallowedDropped", "disallowedUnsubDropped", "emptyResult"],
    "inputs on which cancelling and last-wins differ": ["cancelDiffersFromLast"],
}


# ----------------------------------------------------------------------------- node level: scenarios
PROTO = {"gossipsub": {"p1": ("v11", "in"), "p2": ("v12", "out")},
         "floodsub": {"p1": ("flood", "in"), "p2": ("flood", "out")},
         "randomsub": {"p1": ("random", "in"), "p2": ("flood", "out")}}
API_KINDS = ["join", "subscribe", "psubscribe", "ppublish", "publish", "relay", "cancel", "unrelay"]
E = lambda t, s, r=False: {"t": t, "s": s, "r": r}


def gen_node(ctx, name, L, kinds, peers=("p1",), allow=("T1", "T2"), sub_topics=("T1", "T3"), sub_lens=(0, 1, 2), partial=False,
             pays=("none",), api_topics=("T1", "T3"), simulate=None):
    consts = {"U": tla_set(U3), "Allow": tla_set(allow), "Peers": tla_set(peers), "L": L, "Kinds": tla_set(kinds),
              "SubTopics": tla_set(sub_topics), "SubLens": tla_set(sub_lens), "WithPartial": partial, "Pays": tla_set(pays),
              "ApiTopics": tla_set(api_topics), "MaxRef": 2}
    key = ["node", consts, simulate, ctx.seed if simulate else 0]
    got, g = _gen_cached(ctx, key, ["GenSubFilterNode.tla"],
                         lambda: _run_gen(ctx, "GenSubFilterNode", consts, name, simulate=simulate, depth=L + 1))
    return [s["acts"] for s in got], g


def assemble_node(acts, router="gossipsub", allow=("T1", "T2"), limit=-1, kind="allowlist", peers=("p1", "p2"), prologue=(), epilogue=(), cls=""):
    """Prologue (connects, initial API calls) + generated stimuli + epilogue, payload codes resolved, + a final heartbeat."""
    out = []
    for p in peers:
        proto, d = PROTO[router][p]
        out.append({"a": "peer", "p": p, "proto": proto, "dir": d, "subs": []})
    n_msg, last = 0, None
    for a in list(prologue) + list(acts) + list(epilogue):
        a = dict(a)
        if a["a"] == "rpc" and "pay" in a:
            pay = a.pop("pay")
            a["msgs"], a["graft"] = [], []
            if pay == "again" and last is not None:
                a["msgs"] = [dict(last)]
            elif pay.startswith("msg") or pay == "again":
                n_msg += 1
                t = pay.split(":", 1)[1] if ":" in pay else "T1"
                last = {"m": "m%d" % n_msg, "t": t}
                a["msgs"] = [dict(last)]
            if "graft" in pay:
                a["graft"] = [pay.split(":", 1)[1]]
        elif a["a"] in ("ppublish", "publish") and "m" not in a:
            n_msg += 1
            a["m"] = "x%d" % n_msg
        out.append(a)
    out.append({"a": "hb"})
    return {"cfg": {"router": router, "allow": list(allow), "limit": limit, "kind": kind, "u": U3, "peers": list(peers),
                    "hosts": len(peers) + 1, "class": cls},
            "acts": out}


def rpc(p, subs, msgs=(), graft=()):
    return {"a": "rpc", "p": p, "subs": list(subs), "msgs": [{"m": m, "t": t} for m, t in msgs], "graft": list(graft)}


# deterministic witnesses of the coverage obligations (limit boundary, whole-RPC rejection, finding X07-F1, refused API calls)
FORCED_LIMIT = [
    {"a": "subscribe", "t": "T1"},
    rpc("p1", [E("T1", True), E("T2", True), E("T3", True)], [("m1", "T1")], ["T1"]),      # 3 > 2: nothing of it may happen
    rpc("p1", [E("T1", True), E("T1", True), E("T1", True)]),                               # raw count decides (1 after de-duplication)
    rpc("p1", [E("T3", True), E("T3", False), E("T3", True)], [("m1", "T1")]),              # ... (0 allowed entries)
    rpc("p1", [], [("m1", "T1")]),                                                           # m1 is a FIRST delivery now
    rpc("p1", [E("T2", True), E("T3", True)], [("m2", "T1")], ["T1"]),                      # exactly the limit, one entry filtered out
    rpc("p2", [E("T1", True), E("T1", False)]),                                             # contradictory pair, belief "no": both readings agree
    rpc("p2", [E("T1", True)]),
    rpc("p2", [E("T1", True), E("T1", False)]),                                             # ... belief "sub": X07-F1
    rpc("p2", [E("T1", False), E("T1", True, True)]),                                       # unsubscribe + subscribe(partial): X07-F1 (flag lost)
    rpc("p2", [E("T1", False)]),
    rpc("p2", [E("T3", True)], [("m3", "T3")], ["T3"]),                                     # everything about a rejected topic is ignored
    {"a": "hb"},
    rpc("p2", [E("T2", False), E("T2", True)], [("m2", "T1")]),                             # duplicate message
]
FORCED_API = [
    {"a": "join", "t": "T3"}, {"a": "subscribe", "t": "T3"}, {"a": "psubscribe", "t": "T3"}, {"a": "ppublish", "t": "T3", "m": "x1"},
    {"a": "publish", "t": "T3", "m": "x2"}, {"a": "relay", "t": "T3"},
    rpc("p1", [E("T1", True, True)]),
    {"a": "subscribe", "t": "T1"}, {"a": "psubscribe", "t": "T1"}, {"a": "relay", "t": "T1"}, {"a": "ppublish", "t": "T1", "m": "x3"},
    {"a": "publish", "t": "T1", "m": "x4"}, {"a": "join", "t": "T2"},
    rpc("p1", [E("T3", True)]), rpc("p1", [], [("m1", "T3")], ["T3"]), rpc("p1", [E("T2", True), E("T3", True)], [("m2", "T1")]),
    rpc("p1", [E("T1", False)]),
    {"a": "cancel", "t": "T1"}, {"a": "cancel", "t": "T1"}, {"a": "unrelay", "t": "T1"}, {"a": "hb"},
    {"a": "psubscribe", "t": "T3"}, {"a": "subscribe", "t": "T1"},
]


def build_node_scenarios(ctx, rng):
    sub_prologue = [{"a": "subscribe", "t": "T1"}]
    join_prologue = [{"a": "join", "t": "T1"}, {"a": "join", "t": "T2"}]
    believed = join_prologue + [{"a": "rpc", "p": "p1", "subs": [E("T1", True), E("T2", True, True)], "pay": "none"}]
    after_limit = [{"a": "rpc", "p": "p1", "subs": [], "pay": "again"}, {"a": "rpc", "p": "p1", "subs": [], "pay": "graft:T1"}]
    plan = [
        # class, generator arguments, assemble arguments, quick sample, thorough sample
        ("belief", dict(L=2, kinds=["rpc"], sub_lens=(1, 2), partial=True), dict(prologue=join_prologue), 200, 2000),
        ("belief-3steps", dict(L=3, kinds=["rpc"], sub_lens=(1,), partial=True), dict(prologue=join_prologue), 80, 300),
        ("belief-3topics", dict(L=1, kinds=["rpc"], sub_topics=("T1", "T2", "T3"), sub_lens=(2, 3), partial=False),
         dict(prologue=believed), 100, 300),
        ("limit", dict(L=1, kinds=["rpc"], sub_lens=(1, 2, 3), pays=("none", "msg:T1", "graft:T1", "msg+graft:T1")),
         dict(limit=2, prologue=sub_prologue, epilogue=after_limit), 200, 400),
        ("api", dict(L=2, kinds=API_KINDS + ["rpc", "hb"], allow=("T1",), sub_lens=(0, 1), pays=("none", "msg:T1", "msg:T3", "graft:T3")),
         dict(allow=("T1",)), 250, 1500),
    ]
    scns, gs, gt, classes = [], 0, 0, {}
    for name, gkw, akw, nq, nt in plan:
        got, g = gen_node(ctx, name, **gkw)
        gs += g.distinct
        gt += g.generated
        want = nt if ctx.thorough else nq
        got.sort(key=lambda s: json.dumps(s, sort_keys=True))
        exhaustive = len(got) <= want
        if not exhaustive:
            got = rng.sample(got, want)
        classes[name] = {"generated": g.distinct, "replayed": len(got), "exhaustive": exhaustive}
        for i, acts in enumerate(got):
            router = "gossipsub" if i % 5 < 3 else ("floodsub" if i % 5 == 3 else "randomsub")
            kw = dict(akw)
            if name == "api" and i % 2:
                kw["limit"] = 3
            scns.append(assemble_node(acts, router=router, kind="regexp" if i % 3 == 1 else "allowlist", cls=name, **kw))
    n_sim = 120 if not ctx.thorough else 1200
    got, g = gen_node(ctx, "mixed", L=10, kinds=API_KINDS + ["rpc", "hb"], peers=("p1", "p2"), sub_topics=("T1", "T2", "T3"),
                      sub_lens=(0, 1, 2, 3), partial=True, pays=("none", "msg:T1", "msg:T2", "msg:T3", "graft:T1", "graft:T3", "msg+graft:T1", "again"),
                      api_topics=("T1", "T2", "T3"), simulate="num=%d" % n_sim)
    classes["mixed"] = {"generated": len(got), "replayed": len(got), "exhaustive": False}
    for i, acts in enumerate(got):
        router = ("gossipsub", "gossipsub", "floodsub", "randomsub")[i % 4]
        scns.append(assemble_node(acts, router=router, limit=2 if i % 3 else -1, kind="regexp" if i % 2 else "allowlist", cls="mixed"))
    for router in ("gossipsub", "floodsub", "randomsub"):
        for kind in ("allowlist", "regexp"):
            scns.append(assemble_node(FORCED_LIMIT, router=router, limit=2, kind=kind, cls="forced-limit"))
            scns.append(assemble_node(FORCED_API, router=router, allow=("T1", "T2"), limit=-1 if kind == "regexp" else 2, kind=kind, cls="forced-api"))
    classes["forced"] = {"generated": 12, "replayed": 12, "exhaustive": True}
    return scns, gs, gt, classes


# ----------------------------------------------------------------------------- node level: projection
MSG_EVENTS = ("Validate", "Deliver", "Reject", "Duplicate", "Undeliverable")


def project_node(line, cfg):
    act = line["act"]
    if act.get("a") == "reset":
        c = act["cfg"]
        return {"i": 0, "scn": line["scn"], "act": {"a": "reset"},
                "cfg": {"u": c["u"], "allow": c["allow"], "limit": c["limit"], "peers": c["peers"], "router": c["router"]}}
    a = {"a": act.get("a", ""), "p": act.get("p", ""), "t": act.get("t", ""), "m": act.get("m", ""),
         "subs": [{"t": e["t"], "s": bool(e["s"]), "r": bool(e.get("r"))} for e in act.get("subs", [])] if act.get("a") == "rpc" else [],
         "msgs": [{"m": x["m"], "t": x["t"]} for x in act.get("msgs", [])], "graft": list(act.get("graft", []))}
    mev, annev, joinev = [], [], []
    for e in line["ev"]:
        k = e["k"]
        if k in MSG_EVENTS:
            mev.append({"k": k, "m": e.get("m", ""), "topic": e.get("topic", "")})
        elif k in ("Send", "Drop"):
            for s in e["rpc"]["subs"]:
                annev.append({"k": k, "p": e["p"], "topic": s["topic"]})
        elif k in ("Join", "Leave", "Graft", "Prune"):
            joinev.append(e.get("topic", ""))
    sent = []
    for p, frames in sorted(line["out"].items()):
        for f in frames:
            sent.append({"p": p, "subs": [s["topic"] for s in f["subs"]], "msgs": [{"m": x["m"], "topic": x["topic"]} for x in f["msgs"]],
                         "graft": list(f["graft"]) + [h["topic"] for h in f["ihave"]], "prune": [x["topic"] for x in f["prune"]]})
    st = line["st"]
    return {"i": line["i"], "scn": line["scn"], "t": line["t"], "hb": line["hb"], "act": a, "err": line.get("err", ""),
            "bel": line["bel"], "lp": line["lp"], "gt": line["gt"],
            "myTopics": sorted(st.get("myTopics", {})), "mySubs": sorted(t for t, n in st.get("subs", {}).items() if n),
            "myRelays": sorted(t for t, n in st.get("relays", {}).items() if n),
            "mesh": [{"t": t, "ps": ps} for t, ps in sorted(st.get("mesh", {}).items())], "fanout": sorted(st.get("fanout", {})),
            "pen": [{"p": p, "n": n} for p, n in sorted(st.get("pen", {}).items())],
            "pev": line["pev"], "dlv": [{"topic": d["topic"], "m": d["m"]} for d in line["dlv"]],
            "mev": mev, "annev": annev, "joinev": joinev, "sent": sent}


def project_node_file(path):
    scns, cur, cfg = [], None, None
    for ln in vlib.read_ndjson(path):
        if ln["act"].get("a") == "reset":
            cfg = ln["act"]["cfg"]
            cur = []
            scns.append(cur)
        cur.append(project_node(ln, cfg))
    return scns


# ----------------------------------------------------------------------------- node level: replay on the real code
def build_driver(ctx):
    binp = os.path.join(ctx.work, "x07.test")
    r = vlib.run_go(ctx, "./drivers/x07/", "^$", extra=["-c", "-o", binp], name="build", timeout=900)
    if not os.path.exists(binp):
        raise vlib.Inconclusive("go build of the X07 driver failed (see %s)" % r["log"])
    return binp


def run_shards(ctx, binp, scn_file, tag, shards):
    def one(k):
        outp = os.path.join(ctx.work, "%s-%d.ndjson" % (tag, k))
        marker = os.path.join(ctx.work, "%s-%d.marker" % (tag, k))
        env = dict(os.environ, VERIF_IN=scn_file, VERIF_OUT=outp, VERIF_SHARDS=str(shards), VERIF_SHARD=str(k), VERIF_MARKER=marker,
                   VERIF_SEED=str(ctx.seed), VERIF_TIER=ctx.tier)
        env.pop("VERIF_ONLY", None)
        p = subprocess.run(["timeout", "1500", binp, "-test.run", "^TestX07Node$", "-test.count", "1", "-test.timeout", "1400s"],
                           cwd=os.path.join(vlib.HARNESS, "drivers", "x07"), env=env, stdout=subprocess.PIPE, stderr=subprocess.STDOUT,
                           text=True, errors="replace")
        with open(os.path.join(ctx.work, "go-%s-%d.log" % (tag, k)), "w") as f:
            f.write(p.stdout)
        return k, p.returncode, p.stdout, outp, marker
    outs, dead = [], []
    with cf.ThreadPoolExecutor(max_workers=shards) as ex:
        for k, rc, out, outp, marker in ex.map(one, range(shards)):
            if rc != 0:
                dead.append((k, rc, out, marker))
            if os.path.exists(outp) and os.path.getsize(outp) > 0:
                outs.append(outp)
    return outs, dead


def handle_dead(ctx, binp, scn_file, scns, dead, tag):
    """A dead driver is a violation only if the single scenario alone reproduces a panic inside the library."""
    for k, rc, out, marker in dead:
        idx = None
        try:
            idx = int(open(marker).read().strip())
        except Exception:
            pass
        if "panic:" not in out or idx is None:
            raise vlib.Inconclusive("driver TestX07Node shard %d failed (rc=%s) without an attributable panic (see %s/go-%s-%d.log)" % (k, rc, ctx.work, tag, k))
        outp = os.path.join(ctx.work, "%s-only-%d.ndjson" % (tag, idx))
        env = dict(os.environ, VERIF_IN=scn_file, VERIF_OUT=outp, VERIF_ONLY=str(idx), VERIF_SHARDS="1")
        p = subprocess.run(["timeout", "300", binp, "-test.run", "^TestX07Node$", "-test.count", "1"], cwd=os.path.join(vlib.HARNESS, "drivers", "x07"),
                           env=env, stdout=subprocess.PIPE, stderr=subprocess.STDOUT, text=True, errors="replace")
        if p.returncode != 0 and "panic:" in p.stdout and "go-libp2p-pubsub" in p.stdout.split("panic:", 1)[1][:4000]:
            mm = re.search(r"panic: (.*)", p.stdout)
            vlib.add_violation(ctx, "P_X07_NoPanic", {"cause": "panic", "level": "node"},
                               "the library panicked while replaying scenario %d: %s" % (idx, mm.group(1) if mm else "?"),
                               {"level": "node", "scenario": scns[idx], "panic": p.stdout[-3000:]})
        else:
            raise vlib.Inconclusive("driver TestX07Node died on scenario %d but the crash is not reproducible in isolation (see %s/go-%s-%d.log)" % (idx, ctx.work, tag, k))


def node_signature(v):
    if v["pred"] == "P_X07_NetEffect" and v.get("explained"):
        return dict(F1_SIG, level="node")
    sig = {"cause": "other", "level": "node", "clause": v["clause"]}
    if v["pred"] in ("P_X07_JoinRefused", "P_X07_AllowedNotRefused") and v["clause"] != "state":
        sig["a"] = v["a"]          # which API entry point
    return sig


def describe_node(v, scn):
    at = "scenario %s line %s (%s, class %s)" % (v["at"]["scn"], v["at"]["i"], scn["cfg"]["router"], scn["cfg"].get("class"))
    what = {
        "P_X07_NoDisallowedInterest": "the node records interest of a peer in a topic its filter rejects (%s)" % v["clause"],
        "P_X07_Belief": "p.topics differs from the previous belief + the allowed part of the RPC's subscription list applied in order (%s)" % v["clause"],
        "P_X07_NetEffect": "p.topics after an RPC that repeats an allowed topic is what the cancelling fold yields, not what processing the list in order yields",
        "P_X07_ListPeers": "ListPeers(%s) differs from the peers believed subscribed" % v["clause"],
        "P_X07_PeerEvents": "peer events of a joined topic are inconsistent (%s)" % v["clause"],
        "P_X07_JoinRefused": "a call for a topic the filter rejects was not refused / left a trace in the node's state (%s)" % v["clause"],
        "P_X07_AllowedNotRefused": "a call for an allowed topic failed: %s" % v["clause"],
        "P_X07_NoDisallowedAnnounce": "an announcement / GRAFT / PRUNE / Join trace for a topic the filter rejects",
        "P_X07_NoDisallowedTraffic": "a message, mesh or fanout entry for a topic the filter rejects",
        "P_X07_RejectedRpcIgnored": "an RPC with more subscription entries than the limit was not ignored as a whole (%s)" % v["clause"],
        "P_X07_RestProcessed": "an RPC the filter accepted was not processed in full (%s)" % v["clause"],
    }.get(v["pred"], json.dumps(v))
    return "%s after %s: %s" % (at, v["a"], what)


NODE_OBLIGATIONS = {
    "all three routers, both filter kinds with and without the limit wrapper": ["router:gossipsub", "router:floodsub", "router:randomsub", "limitWrapped", "noLimit"],
    "RPC over the limit carrying a fresh message / a GRAFT that would be admitted / subscriptions that would change the belief":
        ["rpc:over", "over:freshMsg", "over:graft", "over:wouldChangeBelief"],
    "over the limit by the raw count only": ["over:rawCountDecides"],
    "a message of a rejected RPC delivered as first-seen later": ["rejectedMsgLaterFresh"],
    "RPC with exactly `limit` entries processed": ["rpc:exact", "exact:freshMsg"],
    "RPC with filtered-out entries still processed (message, GRAFT, allowed entries)": ["filtered:freshMsg", "filtered:graftAdmitted", "mixedAllowedDisallowed"],
    "single subscribe for a rejected topic": ["singleDisallowedSub"],
    "GRAFT / message for a rejected topic": ["graftDisallowed", "msgDisallowed"],
    "belief changes, partial flag, lists on which the cancelling fold differs": ["beliefChanges", "partialFlag", "cancelFoldDiffers"],
    "peer events observed": ["peerEvent"],
    "every API entry point refused for a rejected topic": ["refused:" + k for k in ("join", "subscribe", "psubscribe", "ppublish", "publish", "relay")],
    "every API entry point accepted for an allowed topic": ["allowed:" + k for k in ("join", "subscribe", "psubscribe", "ppublish", "publish", "relay")],
}


def run_node_level(ctx, rng, seen, only=None):
    if only is None:
        scns, gs, gt, classes = build_node_scenarios(ctx, rng)
    else:
        scns, gs, gt, classes = only, 0, 0, {"replay": {"replayed": len(only)}}
    scn_file = os.path.join(ctx.work, "node-scenarios.ndjson")
    vlib.write_ndjson(scn_file, scns)
    ctx.log("node level: %d scenarios %s" % (len(scns), json.dumps({k: v["replayed"] for k, v in classes.items()})))
    binp = build_driver(ctx)
    shards = 1 if only is not None else (4 if not ctx.thorough else 6)
    outs, dead = run_shards(ctx, binp, scn_file, "node", shards)
    if dead:
        handle_dead(ctx, binp, scn_file, scns, dead, "node")
    traces = []
    for o in outs:
        traces += project_node_file(o)
        os.remove(o)
    if not traces:
        raise vlib.Inconclusive("driver TestX07Node produced no trace")
    if not dead and len({s[0]["scn"] for s in traces}) != len(scns):
        raise vlib.Inconclusive("driver TestX07Node replayed %d of %d scenarios" % (len(traces), len(scns)))
    n_lines = sum(len(s) for s in traces)
    ctx.log("TestX07Node: %d scenarios replayed, %d lines" % (len(traces), n_lines))
    chunk = max(50, min(400, -(-len(traces) // 4)))
    chunks = [[ln for s in traces[i:i + chunk] for ln in s] for i in range(0, len(traces), chunk)]
    viols, cov, states = validate(ctx, "SubFilterNodeTrace", chunks, "tv-node")
    tags, by_scn = set(), {}
    for c in cov:
        tags.update(c["tags"])
        by_scn.setdefault(c["scn"], set()).update(c["tags"])
    for v in viols:
        sig = node_signature(v)
        key = (v["pred"], json.dumps(sig, sort_keys=True))
        seen[key] = seen.get(key, 0) + 1
        if seen[key] <= 2:
            scn = scns[v["at"]["scn"]]
            vlib.add_violation(ctx, v["pred"], sig, describe_node(v, scn), {"level": "node", "scenario": scn, "failing_line": v["at"]["i"], "violation": v})
        else:
            ctx.violations.append(FIRSTS[key])
        FIRSTS.setdefault(key, ctx.violations[-1])
    nontrivial = {json.dumps(scns[i]["acts"], sort_keys=True) for i, t in by_scn.items()
                  if t & {"beliefChanges", "rpc:over", "singleDisallowedSub"} or any(x.startswith("refused:") for x in t)}
    mid = traces[len(traces) // 2]
    sample = {"level": "node", "scenario": scns[mid[0]["scn"]], "trace": mid[:5]}
    return {"states": gs + states, "transitions": gt + states, "scenarios": len(traces), "lines": n_lines, "nontrivial": len(nontrivial),
            "tags": tags, "classes": classes, "sample": sample, "viols": len(viols), "routers": {s["cfg"]["router"] for s in scns},
            "kinds": {s["cfg"]["kind"] for s in scns}}


# ----------------------------------------------------------------------------- verdict
def unmet(obligations, tags, level):
    out = []
    for what, need in obligations.items():
        miss = [t for t in need if t not in tags]
        if miss:
            out.append("%s: %s (never observed: %s)" % (level, what, miss))
    return out


def run(ctx):
    rng = random.Random(ctx.seed)
    if ctx.replay:
        return run_replay(ctx)
    if os.environ.get("VERIF_X07_SKIP_MC"):     # development aid only (mutation trials); says so in the evidence
        states, transitions, mc_summary = 0, 0, {"skipped": True}
        ctx.notes.append("model-level phase skipped (VERIF_X07_SKIP_MC)")
    else:
        ctx.log("model checking")
        states, transitions, mc_summary = model_checking(ctx)
        ctx.log("MC ok: %s" % json.dumps(mc_summary))
    seen = {}
    fn = run_fn_level(ctx, seen)
    ctx.log("SubFilterFnTrace: %d predicate failures on %d cases" % (fn["viols"], fn["cases"]))
    node = run_node_level(ctx, rng, seen)
    ctx.log("SubFilterNodeTrace: %d predicate failures on %d scenarios; by signature %s" % (
        node["viols"], node["scenarios"], json.dumps({k[0] + " " + k[1]: n for k, n in seen.items()})))
    missing = unmet(FN_OBLIGATIONS, fn["tags"], "fn") + unmet(NODE_OBLIGATIONS, node["tags"], "node")
    if node["kinds"] != {"allowlist", "regexp"}:
        missing.append("node: not both filter kinds were used")
    findings = vlib.load_findings(ctx.pid)
    new = [v for v in ctx.violations if not any(vlib.sig_matches(f, v) for f in findings)]
    if missing and not new:
        raise vlib.Inconclusive("coverage obligations not met: " + "; ".join(missing))
    cov = {"states": states + fn["states"] + node["states"], "transitions": transitions + fn["transitions"] + node["transitions"],
           "traces_validated_against_impl": fn["cases"] + node["scenarios"], "samples": [fn["sample"], node["sample"]],
           "evaluations": fn["evaluations"] + node["lines"], "distinct_nontrivial": fn["nontrivial"] + node["nontrivial"],
           "rule": "function level: evaluation = one call of a real filter (FilterSubscriptions, allowlist, regexp, limit wrapper at len-1/len/len+1) on one "
                   "(list, allow-set) case, all predicates judged by TLC; a case is non-trivial if the list repeats an allowed topic; cases are distinct by "
                   "construction (every list up to the bound once per allow-set). Node level: evaluation = one step line of a real node with a filter; a scenario "
                   "is non-trivial if the belief changes, an RPC is over the limit, a single rejected subscribe arrives or an API call is refused; distinct by stimulus sequence",
           "exhaustive": False,
           "exhaustive_note": "function level exhaustive up to the list length of each class (fn_classes); node level sampled by seed from exhaustive generators",
           "mc": mc_summary, "fn_classes": fn["classes"], "node_classes": node["classes"],
           "fn_cases": fn["cases"], "fn_filter_evaluations": fn["evaluations"], "node_scenarios": node["scenarios"], "node_lines": node["lines"],
           "obligation_tags": {"fn": sorted(fn["tags"]), "node": sorted(node["tags"])},
           "failures_by_signature": {k[0] + " " + k[1]: n for k, n in seen.items()}}
    return vlib.finish(ctx, LEVEL, cov, [
        "a filter's result is compared as a set of entries (FilterSubscriptions iterates a map: the order is random by construction)",
        "function level: topics are interchangeable for the filters, so at the longest list length the allow-sets are taken up to renaming ({}, {T1}, {T1,T2}, "
        "{T1,T2,T3}) and the requestsPartial flag is left out; all 8 subsets and the flag are used one length below",
        "node level: peers never disconnect (p.topics clean-up on disconnect is C05's); fake peers have score 0, are never PRUNEd and number at most 2 (< Dhi), "
        "so a GRAFT for a topic the node is subscribed to (and never left) must be admitted",
        "node level: the stimulus RPC is processed within 15 ms of virtual time (validation is synchronous for signed 16-byte messages); stimuli are kept away "
        "from heartbeat instants by the world interpreter",
        "the error of a refused Join is recognised by its text (\"not allowed by the subscription filter\"); the library exports no sentinel for it"])


def run_replay(ctx):
    payload = json.load(open(ctx.replay))
    rp = payload.get("replay") or {}
    seen = {}
    if rp.get("level") == "fn":
        in_file, out_file = os.path.join(ctx.work, "fn-inputs.ndjson"), os.path.join(ctx.work, "fn-trace.ndjson")
        vlib.write_ndjson(in_file, [rp["input"]])
        r = vlib.run_go(ctx, "./drivers/x07/", "^TestX07Fn$", env={"VERIF_IN": in_file, "VERIF_OUT": out_file}, timeout=600, name="fn")
        if r["rc"] != 0 or not os.path.exists(out_file):
            raise vlib.Inconclusive("driver TestX07Fn failed (see %s)" % r["log"])
        cases = vlib.read_ndjson(out_file)
        viols, cov, st = validate(ctx, "SubFilterFnTrace", [cases], "tv-replay")
        for v in viols:
            vlib.add_violation(ctx, v["pred"], fn_signature(v), "%s: %s" % (v["at"]["kind"], v["why"]), rp)
        n, sample = len(cases), {"level": "fn", "case": cases[0] if cases else {}}
    else:
        scn = rp.get("scenario")
        if not scn:
            raise vlib.Inconclusive("replay file has no scenario")
        res = run_node_level(ctx, random.Random(ctx.seed), seen, only=[scn])
        n, st, sample = res["scenarios"], res["states"], res["sample"]
    cov = {"states": max(st, 1), "transitions": max(st, 1), "traces_validated_against_impl": n, "samples": [sample],
           "evaluations": n, "distinct_nontrivial": n, "rule": "single replayed case"}
    return vlib.finish(ctx, LEVEL, cov, ["replay of one recorded case"])
