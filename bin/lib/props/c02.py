"""C02 - a message id is delivered and validated at most once within the seen window.

The check is the union of independent parts; each part is a function  part(ctx) -> dict  that does its own
MC -> Gen -> replay -> trace validation, records violations with vlib.add_violation, raises vlib.Inconclusive
for machinery problems and returns its evidence dict (see _cachecommon.merge_parts for the keys).
To extend the check, append a part-function to PARTS."""
from .. import vlib
from . import _cachecommon as cc
from .c02_timecache import run_timecache
from .c02_pipeline import run_pipeline

LEVEL = "model_checking"

PARTS = [
    run_timecache,      # the time cache alone (second sentence of the statement): spec/timecache
    run_pipeline,       # in-node part (deliver once / validate once / local duplicate): spec/ingest
]


def run(ctx):
    cov, assumptions = cc.merge_parts(cc.run_parallel([(lambda part=part: part(ctx)) for part in PARTS]))
    return vlib.finish(ctx, LEVEL, cov, assumptions)
