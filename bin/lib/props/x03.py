"""X03 - connection-manager tagging (tag_tracer.go): protections follow the mesh and the direct-peer
configuration, decaying delivery tags follow first / near-first deliveries, nearFirst does not leak.

spec/tags: Tags.tla (mechanism + meaning + small gossipsub environment; exhaustive MC, must-fail
configurations, scenario generator), TagsTrace.tla (trace specification: the same operators folded over
the tracer events of the real node, compared with what the REAL BasicConnMgr holds after every step).
harness/drivers/x03: one real gossipsub node on a host with a BasicConnMgr, gated validators.

  1. MC   exhaustive: P_X03_a..f hold (two constant sets); each seeded deviation violates its property.
  2. Gen  TLC emits every stimulus sequence of a bounded length from two initial situations (BFS) and
          random walks (-simulate); directed scenarios (below) discharge the coverage obligations.
  3. Go   replay on the real node, shards in parallel; a line per step.
  4. TV   TLC runs TagsTrace over the projected lines (one run per tag configuration) and prints every
          failing predicate instance.
"""
import concurrent.futures as cf
import json, os, random, subprocess
from .. import vlib

LEVEL = "model_checking"
FAMILY = "tags"
PEERS = ["p1", "p2", "p3", "p4", "p5", "p6", "p7", "self"]
TOPICS = ["t1", "t2", "t3"]
DEVS = ["DevD7", "DevDirectKeep", "DevLeaveNoPrune", "DevLeaveNoClose", "DevDouble", "DevBLLeak"]
MUST_FAIL = {"DevD7": "P_X03_a", "DevDirectKeep": "P_X03_b", "DevLeaveNoPrune": "P_X03_c", "DevLeaveNoClose": "P_X03_f",
             "DevDouble": "P_X03_d", "DevBLLeak": "P_X03_e"}
INVS = ["TypeOK", "P_X03_a", "P_X03_b", "P_X03_c", "P_X03_d", "P_X03_e", "P_X03_f"]
KINDS = {"Join", "Leave", "Graft", "Prune", "Up", "Down", "Validate", "Duplicate", "Deliver", "Reject"}

CFG_A = {"interval": 60, "cap": 3, "amount": 1, "bump": 1}
CFG_B = {"interval": 120, "cap": 5, "amount": 2, "bump": 2}
CFG_D = {"interval": 600, "cap": 15, "amount": 1, "bump": 1}      # the library's defaults


def consts(peers, topics, msgs, cap=2, maxlen=0, prelude=0, dev=None, bump=1, amount=1, asfound=False):
    c = {"Peers": peers, "Topics": topics, "Msgs": msgs, "Cap": cap, "Bump": bump, "Amount": amount,
         "MaxLen": maxlen, "Prelude": prelude}
    for d in DEVS:
        c[d] = (d == dev) or (asfound and d in ("DevDouble", "DevBLLeak"))
    return c


# ------------------------------------------------------------------------------------------------ directed scenarios
def P(p, proto="v11", d="in", subs=("t1", "t2")):
    return {"a": "peer", "p": p, "proto": proto, "dir": d, "subs": list(subs)}


def msg(p, m, t="t1"):
    return {"a": "msg", "p": p, "t": t, "m": m}


def rel(m, r="accept"):
    return {"a": "rel", "m": m, "r": r}


SUB1, SUB2, HB, TICK = {"a": "subscribe", "t": "t1"}, {"a": "subscribe", "t": "t2"}, {"a": "hb"}, {"a": "tick"}


def directed():
    """Hand-written scenarios: each coverage obligation is met by at least one of them whatever the seed."""
    D = []

    def add(name, cfg, acts, **extra):
        c = dict(cfg)
        c.update(extra)
        D.append({"src": "directed:" + name, "cfg": c, "acts": acts})

    # first / near-first / late duplicate / cap / local publish / decay to zero
    add("nearfirst", CFG_A, [SUB1, P("p1"), P("p2", "v12", "out"), P("p3"), HB,
                             msg("p1", "g1"), msg("p2", "g1"), rel("g1"), msg("p3", "g1"),
                             msg("p1", "a2"), msg("p1", "a3"), msg("p1", "a4"), msg("p1", "a5"),
                             {"a": "publish", "t": "t1", "m": "l1"}, msg("p2", "g6"), msg("p3", "g6"), msg("p1", "g6"), rel("g6"),
                             TICK, TICK, TICK, TICK])
    # the first deliverer sends the message again while it validates (finding: two bumps)
    add("double", CFG_A, [SUB1, P("p1"), P("p2"), HB, msg("p1", "g1"), msg("p1", "g1"), msg("p2", "g1"), rel("g1"), TICK])
    # rejected / ignored / throttled messages: no credit, nearFirst cleaned
    add("reject", CFG_A, [SUB1, P("p1"), P("p2"), HB, msg("p1", "g1"), msg("p2", "g1"), rel("g1", "reject"),
                          msg("p1", "g2"), msg("p2", "g2"), rel("g2", "ignore"), msg("p1", "r3"), msg("p2", "i4"),
                          msg("p2", "g5"), msg("p1", "a6"), msg("p2", "a6"), rel("g5"), msg("p1", "a7")], throttle=1)
    # Leave closes the tag; a delivery after Leave is inert; re-join starts from zero; the other topic is untouched
    add("leave", CFG_A, [SUB1, SUB2, P("p1"), P("p2"), HB, msg("p1", "a1"), msg("p1", "a2", "t2"), msg("p2", "a3", "t2"),
                         msg("p2", "g4"), msg("p1", "g4"), {"a": "cancel", "t": "t1"}, rel("g4"), TICK,
                         SUB1, msg("p1", "a5"), HB, HB, HB, msg("p2", "a6"), {"a": "cancel", "t": "t2"}, {"a": "cancel", "t": "t1"}])
    # disconnect: protections and values go; a late delivery credits the absent peer; reconnect; second disconnect
    add("disconnect", CFG_A, [SUB1, P("p1"), P("p2"), P("p3", "v13", "out"), HB, msg("p1", "a1"), msg("p1", "a2"), msg("p1", "g3"), msg("p2", "g3"),
                              {"a": "down", "p": "p1"}, rel("g3"), P("p1"), HB, HB, {"a": "graft", "p": "p1", "t": "t1"},
                              {"a": "elapse", "s": 6}, {"a": "graft", "p": "p1", "t": "t1"}, HB, {"a": "down", "p": "p1"},
                              {"a": "down", "p": "p3"}, {"a": "down", "p": "p2"}])
    # direct peers: by option (protected when the stream comes up), by AddDirectPeer (connected / not yet connected),
    # survive a reconnect, lifted by RemoveDirectPeer; never grafted
    add("direct", CFG_A, [SUB1, P("p1"), P("p4"), HB, HB, {"a": "direct", "p": "p1", "on": True}, HB,
                          {"a": "direct", "p": "p1", "on": False}, {"a": "down", "p": "p4"}, HB, P("p4"), HB,
                          {"a": "direct", "p": "p4", "on": False}, HB, HB,
                          {"a": "direct", "p": "p4", "on": True}, {"a": "down", "p": "p4"}, {"a": "direct", "p": "p4", "on": False},
                          {"a": "direct", "p": "p4", "on": True}, P("p4"), HB, {"a": "direct", "p": "p4", "on": False}],
        direct0=["p4"], npeers=4)
    # the option-configured direct peer speaks another protocol version / floodsub
    for pr in ("v12", "flood"):
        add("direct-" + pr, CFG_A, [SUB1, P("p1"), P("p4", pr), HB, {"a": "down", "p": "p4"}, HB, P("p4", pr), HB,
                                    {"a": "direct", "p": "p4", "on": False}, HB], direct0=["p4"], npeers=4, dproto=pr)
    add("direct-late", CFG_A, [SUB1, P("p1"), P("p2"), HB, msg("p2", "a1"), {"a": "direct", "p": "p2", "on": True}, HB, HB,
                               msg("p2", "a2"), {"a": "down", "p": "p2"}, P("p2"), {"a": "direct", "p": "p2", "on": False}, HB])
    # blacklisting a mesh peer lifts its protection; copies from it are rejected on arrival
    add("blacklist", CFG_A, [SUB1, P("p1"), P("p2"), HB, msg("p1", "a1"), msg("p2", "g2"), {"a": "blacklist", "p": "p1"},
                             msg("p1", "g2"), msg("p1", "a3"), rel("g2"), HB, {"a": "down", "p": "p1"}])
    # the forwarder is blacklisted while its message validates (finding: nearFirst entry leaks)
    add("blacklist-inflight", CFG_A, [SUB1, P("p1"), P("p2"), HB, msg("p1", "g1"), msg("p2", "g1"), {"a": "blacklist", "p": "p1"},
                                      rel("g1"), HB, msg("p2", "a2")])
    # PRUNE from the peer, GRAFT refused inside the backoff, GRAFT accepted after it, score pruning at the heartbeat
    add("prune", CFG_A, [SUB1, P("p1"), P("p2"), P("p3"), HB, {"a": "prune", "p": "p2", "t": "t1"}, {"a": "graft", "p": "p2", "t": "t1"},
                         {"a": "score", "p": "p1", "v": -1}, HB, {"a": "elapse", "s": 7}, {"a": "graft", "p": "p2", "t": "t1"},
                         {"a": "prune", "p": "p3", "t": "t2"}, {"a": "score", "p": "p1", "v": 0}, {"a": "elapse", "s": 7}, HB], score=True)
    # more GRAFTs than Dhi: the heartbeat prunes the excess
    add("oversub", CFG_A, [SUB1] + [P("p%d" % i, "v11", "in" if i <= 4 else "out", ("t1",)) for i in range(1, 8)] +
        [{"a": "graft", "p": "p%d" % i, "t": "t1"} for i in range(1, 8)] + [HB, HB, {"a": "cancel", "t": "t1"}], npeers=7)
    # fanout members are promoted into the mesh at Join
    add("fanout", CFG_A, [P("p1", subs=("t2",)), P("p2", "v12", "out", ("t2",)), P("p3", subs=("t2",)), HB,
                          {"a": "publish", "t": "t2", "m": "l1"}, HB, SUB2, msg("p1", "a2", "t2"), HB, {"a": "cancel", "t": "t2"}])
    # another tag configuration: interval of two decayer ticks, topics registered in different minutes
    add("cfgB", CFG_B, [SUB1, P("p1"), P("p2"), HB, msg("p1", "a1"), msg("p1", "a2"), msg("p2", "g3"), msg("p1", "g3"), TICK, SUB2,
                        msg("p2", "a4", "t2"), rel("g3"), msg("p1", "a5"), msg("p1", "a6"), TICK, msg("p2", "a7", "t2"), TICK, TICK, TICK, TICK])
    # the library's default configuration: cap 15, one decay per 10 minutes
    add("defaults", CFG_D, [SUB1, P("p1"), P("p2"), HB] + [msg("p1", "a%d" % i) for i in range(1, 18)] + [msg("p2", "a18")] +
        [{"a": "elapse", "s": 540}, msg("p2", "a19"), {"a": "elapse", "s": 120}, {"a": "elapse", "s": 600}])
    # the seen cache forgets a delivered message: the next copy is a first delivery again
    add("expire", CFG_A, [SUB1, P("p1"), P("p2"), HB, msg("p1", "a1"), msg("p2", "a1"), {"a": "expire"}, msg("p2", "a1"), msg("p1", "a1")])
    # a floodsub peer delivers (credit) but is never a mesh member
    add("flood", CFG_A, [SUB1, P("p1", "flood"), P("p2", "v10"), HB, msg("p1", "a1"), msg("p1", "g2"), msg("p2", "g2"), rel("g2"),
                         {"a": "graft", "p": "p1", "t": "t1"}, HB, {"a": "down", "p": "p1"}])
    return D


# ------------------------------------------------------------------------------------------------ TLC: MC + generation
def tlc_jobs(ctx, acc):
    th = ctx.thorough
    P2, P3 = '{"p1", "p2"}', '{"p1", "p2", "p3"}'
    jobs = {
        "mc1": dict(cfg=vlib.cfg_text(constants=consts(P2, '{"t1"}', '{"g1", "g2"}', cap=2), invariants=INVS, view="MCView"), timeout=900),
        "mc2": dict(cfg=vlib.cfg_text(constants=consts(P2, '{"t1", "t2"}', '{"g1"}', cap=1), invariants=INVS, view="MCView"), timeout=900),
        # the code as found: the two listed findings break d and e and nothing else
        "mc-asfound": dict(cfg=vlib.cfg_text(constants=consts(P2, '{"t1"}', '{"g1"}', cap=2, asfound=True),
                                             invariants=["TypeOK", "P_X03_a", "P_X03_b", "P_X03_c", "P_X03_f"], view="MCView"), timeout=900),
        "gen-bfs0": dict(spec="GenSpec", consts=consts(P2, '{"t1", "t2"}', '{"g1"}', cap=2, maxlen=4 if th else 3, prelude=0), timeout=900),
        "gen-bfs1": dict(spec="GenSpec", consts=consts(P3, '{"t1", "t2"}', '{"g1", "g2"}', cap=2, maxlen=3 if th else 2, prelude=1), timeout=900),
        "gen-walks": dict(spec="GenSpec", consts=consts(P3, '{"t1", "t2"}', '{"g1", "g2", "g3"}', cap=3, maxlen=22, prelude=0),
                          mode="sim", simulate="num=%d" % (4000 if th else 400), depth=24, timeout=600, workers=1),
    }
    if th:
        jobs["mc3"] = dict(cfg=vlib.cfg_text(constants=consts(P2, '{"t1", "t2"}', '{"g1", "g2"}', cap=1), invariants=INVS, view="MCView"), timeout=1500)
        jobs["mc4"] = dict(cfg=vlib.cfg_text(constants=consts(P3, '{"t1"}', '{"g1"}', cap=2, bump=2, amount=1), invariants=INVS, view="MCView"), timeout=1500)
    for d in DEVS:
        jobs["mc-" + d] = dict(cfg=vlib.cfg_text(constants=consts(P2, '{"t1"}', '{"g1", "g2"}', cap=2, dev=d), invariants=[MUST_FAIL[d]], view="MCView"),
                               timeout=600)
    if os.environ.get("X03_DEV_SKIP_MC"):      # development aid only (mutation trials)
        jobs = {k: v for k, v in jobs.items() if k.startswith("gen-")}

    def one(name):
        j = dict(jobs[name])
        if "consts" in j:
            j["cfg"] = vlib.cfg_text(spec=j.pop("spec"), constants=j.pop("consts"), invariants=["Emit"])
            j.setdefault("heap", "6g")
        j.setdefault("workers", 2 if not th else 4)
        return name, vlib.run_tlc(ctx, FAMILY, "Tags", j.pop("cfg"), name=name, **j)

    # at most 4 (quick) / 8 (thorough) TLC worker threads at a time: two jobs of 2 / 4 workers
    with cf.ThreadPoolExecutor(max_workers=2) as ex:
        res = dict(ex.map(one, sorted(jobs, key=lambda n: (n not in ("mc3", "mc4"), not n.startswith("gen-bfs"), n))))
    for n in ("mc1", "mc2", "mc3", "mc4", "mc-asfound"):
        if n in res:
            vlib.require_mc_ok(ctx, res[n], "Tags %s" % n, allow_timeout=(n in ("mc3", "mc4")))
            acc["mc"][n] = [res[n].distinct, res[n].generated]
    for d in DEVS:
        if "mc-" + d in res:
            vlib.require_mc_fails(ctx, res["mc-" + d], "Tags with %s" % d, MUST_FAIL[d])
            acc["mc"]["%s_fails_%s" % (d, MUST_FAIL[d])] = True
    pools = {}
    for n in ("gen-bfs0", "gen-bfs1", "gen-walks"):
        r = res[n]
        if r.timed_out or r.violated or (r.errors and n != "gen-walks") or (n != "gen-walks" and not r.no_error):
            raise vlib.Inconclusive("generator %s failed: %s (see %s/tlc.out)" % (n, r.errors[:2], r.dir))
        seen, pool = set(), []
        for s in r.printed("SCN"):
            k = json.dumps(s["evs"], sort_keys=True)
            if k not in seen:
                seen.add(k)
                pool.append(s["evs"])
        pool.sort(key=lambda evs: json.dumps(evs, sort_keys=True))   # TLC's print order depends on its worker threads
        if not pool:
            raise vlib.Inconclusive("generator %s emitted nothing (see %s/tlc.out)" % (n, r.dir))
        pools[n] = pool
    for r in res.values():
        acc["states"] += r.distinct
        acc["transitions"] += r.generated
    acc["gen"] = {n: len(p) for n, p in pools.items()}
    return pools


PROTOS = ["v11", "v12", "v13", "v11", "v10", "v12", "v13", "flood"]


def to_scenario(evs, k, cfg, src):
    """Generator history -> driver scenario; protocol / direction of the peers vary with k."""
    par = {}
    for j, p in enumerate(("p1", "p2", "p3")):
        x = k + 3 * j
        par[p] = (PROTOS[x % len(PROTOS)], ["in", "out"][(x // 8) % 2])
    acts = []
    for e in evs:
        a, p, t, m, r = e["a"], e["p"], e["t"], e["m"], e["r"]
        if a == "sub":
            acts.append({"a": "subscribe", "t": t})
        elif a == "unsub":
            acts.append({"a": "cancel", "t": t})
        elif a == "up":
            acts.append(P(p, par[p][0], par[p][1], ("t1", "t2")))
        elif a == "down":
            acts.append({"a": "down", "p": p})
        elif a == "bl":
            acts.append({"a": "blacklist", "p": p})
        elif a in ("graft", "prune"):
            acts.append({"a": a, "p": p, "t": t})
        elif a == "direct":
            acts.append({"a": "direct", "p": p, "on": r == "on"})
        elif a == "msg":
            acts.append({"a": "msg", "p": p, "t": t, "m": m})
        elif a == "rel":
            acts.append({"a": "rel", "m": m, "r": r})
        elif a == "local":
            acts.append({"a": "publish", "t": t, "m": m})
        elif a in ("tick", "hb", "expire"):
            acts.append({"a": a})
        else:
            raise vlib.Inconclusive("unknown generator stimulus %r" % a)
    return {"src": src, "cfg": dict(cfg), "acts": acts}


def build_scenarios(ctx, pools):
    rng = random.Random(ctx.seed)
    th = ctx.thorough
    scns = directed()
    lim = {"gen-bfs0": 6000 if th else 350, "gen-bfs1": 12000 if th else 700, "gen-walks": 4000 if th else 300}
    exhaustive = {}
    for n in ("gen-bfs0", "gen-bfs1", "gen-walks"):
        pool = list(pools[n])
        exhaustive[n] = len(pool) <= lim[n]
        if not exhaustive[n]:
            rng.shuffle(pool)
            pool = pool[:lim[n]]
        for i, evs in enumerate(pool):
            cfg = CFG_A if (n != "gen-walks" or i % 4) else CFG_B
            scns.append(to_scenario(evs, i + ctx.seed, cfg, n))
    for i, s in enumerate(scns):
        s["id"] = i
    return scns, exhaustive


# ------------------------------------------------------------------------------------------------ replay
def build_driver(ctx):
    binp = os.path.join(ctx.work, "x03.test")
    r = vlib.run_go(ctx, "./drivers/x03/", "^TestX03Replay$", extra=["-c", "-o", binp], timeout=900, name="build")
    if r["rc"] != 0 or not os.path.exists(binp):
        raise vlib.Inconclusive("cannot build the X03 driver (see %s)" % r["log"])
    return binp


def run_shard(ctx, binp, scn_file, i, n, only=None, skip=(), tag=""):
    outp = os.path.join(ctx.work, "trace-%d%s.ndjson" % (i, tag))
    mark = os.path.join(ctx.work, "marker-%d%s" % (i, tag))
    env = dict(os.environ)
    env.update({"VERIF_IN": scn_file, "VERIF_OUT": outp, "VERIF_SHARD": str(i), "VERIF_SHARDS": str(n), "VERIF_MARKER": mark,
                "VERIF_SEED": str(ctx.seed), "VERIF_TIER": ctx.tier, "VERIF_SKIPIDS": ",".join(str(x) for x in skip)})
    if only is not None:
        env["VERIF_ONLY"] = str(only)
    log = os.path.join(ctx.work, "go-shard-%d%s.log" % (i, tag))
    with open(log, "w") as lf:
        try:
            p = subprocess.run([binp, "-test.run", "^TestX03Replay$", "-test.timeout", "1500s"], cwd=ctx.work, env=env,
                               stdout=lf, stderr=subprocess.STDOUT, timeout=1600)
            rc = p.returncode
        except subprocess.TimeoutExpired:
            rc = -9
    return {"rc": rc, "out": open(log, errors="replace").read(), "trace": outp, "marker": mark, "log": log}


def replay(ctx, binp, scns):
    scn_file = os.path.join(ctx.work, "scenarios.ndjson")
    vlib.write_ndjson(scn_file, scns)
    n = max(1, min(vlib.NCPU, 6 if ctx.thorough else 4, len(scns) // 40 + 1))

    def shard(i):
        skip, dead = [], []
        for attempt in range(8):
            r = run_shard(ctx, binp, scn_file, i, n, skip=skip, tag="" if not attempt else "-r%d" % attempt)
            if r["rc"] == 0:
                return r["trace"], dead
            sid = open(r["marker"]).read().strip() if os.path.exists(r["marker"]) else ""
            if not sid.isdigit():
                raise vlib.Inconclusive("X03 driver shard %d died before its first scenario (see %s)" % (i, r["log"]))
            # a dead driver is a violation only if the scenario, replayed alone, panics in library code
            again = run_shard(ctx, binp, scn_file, i, n, only=int(sid), tag="-only%s" % sid)
            lib_panic = again["rc"] != 0 and "panic:" in again["out"] and "go-libp2p-pubsub" in again["out"] \
                and "verifharness" not in again["out"].split("panic:")[1][:400]
            dead.append((int(sid), lib_panic, again["log"] if again["rc"] != 0 else r["log"], again["rc"] == 0))
            skip.append(int(sid))
        raise vlib.Inconclusive("X03 driver shard %d keeps dying (see %s)" % (i, r["log"]))

    with cf.ThreadPoolExecutor(max_workers=n) as ex:
        res = list(ex.map(shard, range(n)))
    return [p for p, _ in res], [d for _, ds in res for d in ds]


# ------------------------------------------------------------------------------------------------ projection for TLC
def slim(row):
    a = row["act"]
    if a.get("a") == "reset":
        c = a["cfg"]
        return {"a": "reset", "scn": row["scn"], "i": 0, "t": row["t"], "intervalMs": c["intervalMs"], "resMs": c["resMs"],
                "direct0": c.get("direct0") or []}
    ev = []
    for e in row["ev"]:
        if e["k"] not in KINDS or e.get("self"):
            continue
        p = e.get("p") or e.get("via") or ""
        if (p not in PEERS and e["k"] not in ("Join", "Leave")) or (e.get("topic") or "t1") not in TOPICS:
            raise vlib.Inconclusive("event outside the universe of the trace specification: %s" % json.dumps(e))
        ev.append({"k": e["k"], "p": p, "t": e.get("topic") or "", "m": e.get("m") or "", "r": e.get("reason") or "", "ms": e["t"]})
    st, x = row["st"], row["x"]
    tags, other = [], []
    for p, tg in sorted(x["tags"].items()):
        for name, v in sorted(tg.items()):
            if name == "#value" or v == 0:
                continue
            if name.startswith("pubsub-deliveries:") and name[len("pubsub-deliveries:"):] in TOPICS:
                tags.append([p, name[len("pubsub-deliveries:"):], v])
            else:
                other.append([p, name, v])
    return {"a": a.get("a", ""), "scn": row["scn"], "i": row["i"], "t": row["t"], "p": a.get("p") or "", "m": a.get("m") or "",
            "on": bool(a.get("on", False)), "ev": ev,
            "mesh": [[t, p] for t, l in sorted((st.get("mesh") or {}).items()) for p in l],
            "joined": sorted((st.get("mesh") or {}).keys()), "up": sorted((st.get("gsPeers") or {}).keys()),
            "direct": sorted(st.get("direct") or []),
            "prot": [[p, t] for p, l in sorted(x["prot"].items()) for t in l], "tags": tags, "other": other,
            "conn": sorted(p for p, v in x["conn"].items() if v),
            "nf": [[m, l] for m, l in sorted((x.get("nf") or {}).items())], "fin": bool(a.get("fin", False))}


def cfg_key(c):
    return (c.get("cap", 15), c.get("bump", 1), c.get("amount", 1))


def trace_cfg(key):
    cap, bump, amount = key
    c = {"Peers": "{" + ", ".join('"%s"' % p for p in PEERS) + "}", "Topics": "{" + ", ".join('"%s"' % t for t in TOPICS) + "}",
         "Msgs": "{}", "Cap": cap, "Bump": bump, "Amount": amount, "MaxLen": 0, "Prelude": 0}
    for d in DEVS:
        c[d] = d in ("DevDouble", "DevBLLeak")
    return vlib.cfg_text(spec="TraceSpec", constants=c, constraint="HW", postcondition="Accepted")


def run_tv(ctx, name, key, path):
    res = vlib.run_tlc(ctx, FAMILY, "TagsTrace", trace_cfg(key), mode="trace", files={"trace.ndjson": path}, timeout=1200,
                       name=name, heap="4g")
    if res.hw is None or res.hw[0] < res.hw[1] or res.violated or res.timed_out:
        raise vlib.Inconclusive("trace validation did not consume its input (hw=%s errors=%s, see %s/tlc.out)" % (res.hw, res.errors[:2], res.dir))
    return res.printed("VIOL"), res.printed("DRIFT"), res.distinct


# ------------------------------------------------------------------------------------------------ coverage obligations
OBLIGATIONS = ["graft_by_peer", "graft_at_join", "graft_by_heartbeat", "graft_refused", "prune_by_peer", "prune_by_heartbeat", "prune_at_leave",
               "mesh_peer_down", "mesh_peer_blacklisted", "protected_in_two_topics", "fanout_promoted",
               "direct_by_option", "direct_added_connected", "direct_added_unconnected", "direct_removed", "direct_survives_reconnect",
               "bump_first", "bump_near_first", "duplicate_after_delivery", "reject_failed", "reject_ignored", "reject_throttled",
               "reject_on_arrival_blacklisted", "cap_reached", "decay_observed", "decay_to_zero", "decay_skipped_tick",
               "leave_with_values", "deliver_after_leave", "rejoin_from_zero", "local_publish", "bump_absent_peer",
               "value_reset_on_disconnect", "value_survives_reconnect", "nearfirst_members_observed", "redelivery_after_expiry",
               "flood_peer_credited", "nondefault_and_default_config"]


def obligations(scn, rows, ob):
    def hit(k):
        ob[k] = ob.get(k, 0) + 1
    cfg = scn["cfg"]
    cap = cfg.get("cap", 15)
    hit("cfg:%s" % (cfg_key(cfg),))
    prev = None
    validating, done, local, left_while = {}, set(), set(), set()     # m -> (first, set of duplicates in the window)
    everdown = set()
    for ln in rows:
        a = ln["act"]
        if a.get("a") == "reset":
            prev = ln
            continue
        x, px = ln["x"], prev.get("x") or {"prot": {}, "tags": {}, "conn": {}, "nf": {}}
        prot = {p: set(l) for p, l in x["prot"].items()}
        pprot = {p: set(l) for p, l in px.get("prot", {}).items()}

        def val(xx, p, t):
            return (xx.get("tags", {}).get(p) or {}).get("pubsub-deliveries:" + t, 0)
        kind, ap = a.get("a"), a.get("p")
        evs = [e for e in ln["ev"] if e["k"] in KINDS]
        for e in evs:
            k, p, t, m = e["k"], e.get("p") or e.get("via"), e.get("topic"), e.get("m")
            if e.get("self"):
                if k == "Deliver":
                    hit("local_publish")
                continue
            if k == "Graft" and t in prot.get(p, ()):
                if kind == "graft" and ap == p:
                    hit("graft_by_peer")
                elif kind == "subscribe":
                    hit("graft_at_join")
                    if (prev["st"].get("fanout") or {}).get(t) and p in prev["st"]["fanout"][t]:
                        hit("fanout_promoted")
                elif ln.get("hb"):
                    hit("graft_by_heartbeat")
            if k == "Prune" and t in pprot.get(p, ()) and t not in prot.get(p, ()):
                if kind == "prune" and ap == p:
                    hit("prune_by_peer")
                elif kind == "cancel":
                    hit("prune_at_leave")
                elif ln.get("hb"):
                    hit("prune_by_heartbeat")
            if k == "Down" and pprot.get(p, set()) & set(TOPICS) and not (prot.get(p, set()) & set(TOPICS)):
                hit("mesh_peer_blacklisted" if kind == "blacklist" else "mesh_peer_down")
            if k == "Up" and p in (ln["st"].get("direct") or []) and "<direct>" in prot.get(p, ()):
                if "<direct>" not in pprot.get(p, ()):
                    hit("direct_by_option")
                elif p in everdown:
                    hit("direct_survives_reconnect")
            if k == "Validate":
                validating[m] = (p, set(), t)
                if m in done:
                    hit("redelivery_after_expiry")
            if k == "Duplicate":
                if m in validating:
                    validating[m][1].add(p)
                elif m in done:
                    hit("duplicate_after_delivery")
            if k == "Deliver" and m in validating:
                first, near, t = validating.pop(m)
                done.add(m)
                joined = t in (ln["st"].get("mesh") or {})
                if joined and val(x, first, t) > val(px, first, t):
                    hit("bump_first")
                    if not x["conn"].get(first):
                        hit("bump_absent_peer")
                    if ln["st"].get("gsPeers", {}).get(first) == "/floodsub/1.0.0":
                        hit("flood_peer_credited")
                if joined and any(val(x, q, t) > val(px, q, t) for q in near - {first}):
                    hit("bump_near_first")
                if joined and val(px, first, t) == cap and val(x, first, t) == cap:
                    hit("cap_reached")
                if not joined:
                    hit("deliver_after_leave")
            if k == "Reject" and m in validating and e.get("reason", "").startswith("validation "):
                validating.pop(m)
                done.add(m)
                hit("reject_" + e["reason"].split()[1])
            if k == "Reject" and e.get("reason") == "blacklisted peer" and kind == "msg":
                hit("reject_on_arrival_blacklisted")
            if k == "Leave" and any(val(px, q, t) > 0 for q in PEERS):
                hit("leave_with_values")
                left_while.add(t)
            if k == "Join" and t in left_while:
                hit("rejoin_from_zero")
        if kind == "graft" and not any(e["k"] == "Graft" for e in evs) and a.get("t") in (ln["st"].get("mesh") or {}) \
                and ap not in ln["st"]["mesh"][a["t"]]:
            hit("graft_refused")
        if kind == "direct":
            if a.get("on") and "<direct>" in prot.get(ap, ()) and "<direct>" not in pprot.get(ap, ()):
                hit("direct_added_connected" if x["conn"].get(ap) else "direct_added_unconnected")
            if not a.get("on") and "<direct>" in pprot.get(ap, ()) and "<direct>" not in prot.get(ap, ()):
                hit("direct_removed")
        if kind == "down":
            everdown.add(ap)
            if any(val(px, ap, t) > 0 for t in TOPICS) and not any(val(x, ap, t) > 0 for t in TOPICS):
                hit("value_reset_on_disconnect")
        if kind == "peer" and ap in everdown and any(val(px, ap, t) > 0 and val(x, ap, t) == val(px, ap, t) for t in TOPICS):
            hit("value_survives_reconnect")
        if any(len(prot.get(p, set()) & set(TOPICS)) >= 2 for p in prot):
            hit("protected_in_two_topics")
        if any(l for l in (x.get("nf") or {}).values()):
            hit("nearfirst_members_observed")
        if kind in ("tick", "elapse", "expire") and not evs:
            dec = [(p, t) for p in PEERS for t in TOPICS if val(x, p, t) < val(px, p, t)]
            if dec:
                hit("decay_observed")
                if any(val(x, p, t) == 0 for p, t in dec):
                    hit("decay_to_zero")
            elif kind == "tick" and any(val(x, p, t) > 0 for p in PEERS for t in TOPICS):
                hit("decay_skipped_tick")
        prev = ln
    if ob.get("cfg:%s" % (cfg_key(CFG_D),)) and len([k for k in ob if k.startswith("cfg:")]) >= 2:
        ob["nondefault_and_default_config"] = 1


# ------------------------------------------------------------------------------------------------ the check
def run(ctx):
    acc = {"states": 0, "transitions": 0, "mc": {}, "gen": {}}
    if ctx.replay:
        payload = json.load(open(ctx.replay))
        scn = (payload.get("replay") or {}).get("scenario")
        if not scn:
            raise vlib.Inconclusive("replay file has no scenario")
        scns, exhaustive = [scn], {}
    else:
        pools = tlc_jobs(ctx, acc)
        scns, exhaustive = build_scenarios(ctx, pools)
    ctx.log("replaying %d scenarios on the real node" % len(scns))
    binp = build_driver(ctx)
    paths, dead = replay(ctx, binp, scns)
    by_id = {s["id"]: s for s in scns}

    # read the traces scenario by scenario: completeness, obligations, projection per tag configuration
    ob, complete, groups, samples, nlines = {}, set(), {}, [], 0
    raw_index = {}
    for path in paths:
        cur = []

        def flush():
            if not cur:
                return
            sid = cur[0]["scn"]
            if cur[0]["act"].get("a") == "reset" and cur[-1]["act"].get("fin") and sid not in complete:
                complete.add(sid)
                obligations(by_id[sid], cur, ob)
                groups.setdefault(cfg_key(by_id[sid]["cfg"]), []).append([slim(r) for r in cur])
                raw_index[sid] = [{"i": r["i"], "act": r["act"], "ev": [e for e in r["ev"] if e["k"] in KINDS], "x": r.get("x"),
                                   "mesh": r["st"].get("mesh"), "direct": r["st"].get("direct")} for r in cur]
        if not os.path.exists(path):
            continue
        with open(path) as f:
            for raw in f:
                try:
                    row = json.loads(raw)
                except ValueError:
                    continue
                if cur and row["scn"] != cur[0]["scn"]:
                    flush()
                    cur = []
                cur.append(row)
                nlines += 1
            flush()
    ctx.log("recorded %d lines of %d complete scenarios; validating with TLC" % (nlines, len(complete)))

    jobs = []
    for key, sl in sorted(groups.items()):
        for ci in range(0, len(sl), 700):
            path = os.path.join(ctx.work, "tv-%s-%d.ndjson" % ("_".join(map(str, key)), ci))
            vlib.write_ndjson(path, [r for s in sl[ci:ci + 700] for r in s])
            jobs.append(("tv-%s-%d" % ("_".join(map(str, key)), ci), key, path))
    viols, drifts = [], []
    with cf.ThreadPoolExecutor(max_workers=4) as ex:
        for v, d, st in ex.map(lambda j: run_tv(ctx, *j), jobs):
            viols += v
            drifts += d
            acc["states"] += st
    acc["transitions"] += nlines

    per_sig = {}
    for v in viols:
        scn = by_id[v["scn"]]
        sig = {"kind": v["kind"]}
        key = (v["pred"], json.dumps({"kind": v["kind"]}, sort_keys=True))
        per_sig[key] = per_sig.get(key, 0) + 1
        if per_sig[key] <= 2:
            rows = raw_index.get(v["scn"], [])
            bad = next((r for r in rows if r["i"] == v["i"]), None)
            what = {"P_X03_a": "protection pubsub:%s of %s is %s with respect to the mesh" % (v["t"], v["p"], v["kind"]),
                    "P_X03_b": "protection pubsub:<direct> of %s is %s with respect to the direct-peer configuration" % (v["p"], v["kind"]),
                    "P_X03_c": "%s keeps the protection pubsub:%s (%s)" % (v["p"], v["t"], v["kind"]),
                    "P_X03_d": "delivery tag pubsub-deliveries:%s of %s is %s, the reference value is %s (%s)" % (v["t"], v["p"], v["obs"], v["exp"], v["kind"]),
                    "P_X03_f": "delivery tag pubsub-deliveries:%s of %s is %s although the topic is not joined" % (v["t"], v["p"], v["obs"]),
                    "P_X03_e": "nearFirst entry of message %s: %s" % (v["m"], v["kind"])}.get(v["pred"], v["pred"])
            vlib.add_violation(ctx, v["pred"], sig, "%s; scenario %s (%s) step %d: %s" %
                               (what, v["scn"], scn["src"], v["i"], json.dumps(bad)[:700] if bad else "?"),
                               {"scenario": scn, "failing_line": v["i"], "lines": rows})
        else:
            ctx.violations.append({"pred": v["pred"], "sig": sig, "detail": "", "replay": ""})
    for sid, lib_panic, log, alone_ok in dead:
        if lib_panic:
            vlib.add_violation(ctx, "P_X03_f", {"kind": "panic"}, "the node panics while replaying scenario %s (%s; see %s)" %
                               (sid, by_id[sid]["src"], log), {"scenario": by_id[sid]})
    drift_kinds = {}
    for d in drifts:
        drift_kinds[d["pred"]] = drift_kinds.get(d["pred"], 0) + 1
    if drift_kinds:
        ctx.notes.append("MODEL-DRIFT (no verdict): %s" % json.dumps(drift_kinds, sort_keys=True))

    known = vlib.load_findings(ctx.pid)
    new = [v for v in ctx.violations if not any(vlib.sig_matches(f, v) for f in known)]
    missing = sorted(s["id"] for s in scns if s["id"] not in complete)
    if not new:
        if missing:
            raise vlib.Inconclusive("%d scenarios were not replayed to the end (e.g. %s; driver died in %s)" %
                                    (len(missing), missing[:5], [(d[0], d[2]) for d in dead][:3]))
        if drift_kinds.get("validate-while-validating") or drift_kinds.get("deliver-without-validate"):
            raise vlib.Inconclusive("the message pipeline left the assumptions of the trace specification: %s" % drift_kinds)
        unmet = [] if ctx.replay else [k for k in OBLIGATIONS if not ob.get(k)]
        if unmet:
            raise vlib.Inconclusive("coverage obligations not met: %s" % unmet)
    elif dead or missing:
        ctx.notes.append("%d scenarios were not replayed to the end; the verdict rests on the others" % len(missing))

    nontrivial = set()
    for s in scns:
        if s["id"] in complete and any(a["a"] in ("msg", "graft", "prune", "direct", "down", "blacklist", "cancel") for a in s["acts"]):
            nontrivial.add(json.dumps([s["cfg"], s["acts"]], sort_keys=True))
    if raw_index:
        sid = min(raw_index)
        samples.append({"scenario": by_id[sid], "trace": raw_index[sid][:10]})
    cov = {"states": acc["states"], "transitions": acc["transitions"], "traces_validated_against_impl": len(complete),
           "samples": samples, "evaluations": nlines * 6, "distinct_nontrivial": len(nontrivial),
           "rule": "one evaluation = one predicate family (a..f) of TagsTrace on one recorded step line; a scenario is non-trivial if it contains a message, "
                   "GRAFT/PRUNE, direct-peer change, disconnect, blacklisting or Leave, and distinct by (tag configuration, actions)",
           "exhaustive": bool(exhaustive) and all(exhaustive.get(n, False) for n in ("gen-bfs0", "gen-bfs1")),
           "exhaustive_note": "BFS pools replayed completely: %s (otherwise a seeded sample); walks are always a seeded sample" % exhaustive,
           "obligations": {k: ob.get(k, 0) for k in OBLIGATIONS}, "configs": {k: v for k, v in ob.items() if k.startswith("cfg:")},
           "violating_instances": {"%s %s" % k: n for k, n in sorted(per_sig.items())},
           "mc": acc["mc"], "gen": acc["gen"], "model_drift": drift_kinds, "scenarios": len(scns)}
    return vlib.finish(ctx, LEVEL, cov, [
        "mesh, direct-peer set and joined topics are read from the node's snapshot (VerifSnapshot, build tag verif); protections, tag values and connections "
        "from the real BasicConnMgr of the node's host (IsProtected / GetTagInfo / Connectedness) after every step has settled",
        "the connection manager's decayer runs on the virtual clock of testing/synctest (resolution 1 min, ticks at whole minutes since the host was created); "
        "stimuli are placed at least 400 ms away from ticks and heartbeats",
        "tag parameters are the package variables GossipSubConnTag* (set per scenario: (cap,bump,amount,interval) = (3,1,1,1 min), (5,2,2,2 min) and the defaults (15,1,1,10 min))",
        "a validation never outlasts the seen-cache TTL (5 min in the driver): a message is validated at most once at a time",
        "Leave immediately followed by Join of the same topic inside one scheduling quantum (RegisterDecayingTag racing the asynchronous tag closure) is not forced",
        "a peer that sends the same message twice while it validates is credited twice (finding X03-1) and a forwarder blacklisted while its message validates "
        "leaves a nearFirst entry behind (finding X03-2): both are reported as known findings, every other failure of d / e is a violation"])
