#!/usr/bin/env python3
"""Prints the prompt for an independent 'seeded change' sub-agent for one property (it gets the property text only)."""
import json, sys
pid, tag = sys.argv[1], sys.argv[2]
rec = [json.loads(l) for l in open('/verif/properties.jsonl') if json.loads(l)['id'] == pid][0]
wt = "/tmp/mut-%s-%s" % (pid.lower(), tag)
print(f"""You are a careful Go engineer acting as a "red team" for a verification study. You work ONLY inside the git worktree {wt} (a scratch checkout of the open-source library go-libp2p-pubsub, Go module github.com/libp2p/go-libp2p-pubsub). Do NOT read or write anything under /verif or /repo, and do not look for other people's checks: your work must be independent.

Here is a semantic property the library is supposed to satisfy (JSON record):

{json.dumps(rec, indent=1)}

YOUR TASK: produce TWO different, realistic code changes to the library (each a small patch to non-test .go files, the kind of regression a maintainer could plausibly introduce: an off-by-one, a dropped or inverted condition, a missing delete/cleanup, a reordered step, a lost wake-up, a wrong variable, two cooperating sites that each look fine alone ...) such that each change:
  (a) BREAKS the property above, but only under something specific (a particular interleaving or schedule, a fault at a particular point, a multi-step sequence of operations, an unusual input or parameter value, or two cooperating sites) - NOT something ordinary use would expose at once;
  (b) still COMPILES (`go build ./...` and `go vet` not required) and still PASSES the library's existing test suite, unedited. The suite command is: cd {wt} && GOFLAGS=-mod=mod GOPROXY=off go test -vet=off -count=1 -timeout 25m ./...   (takes ~90 s; there is no network; do not set GOSUMDB or GOTOOLCHAIN). Run the FULL suite for each change (it has 284 tests; all must pass; if a test is flaky re-run to be sure it is not your change);
  (c) comes with a DEMONSTRATION: a new Go test file (package pubsub, in the worktree root, named verifdemo_<n>_test.go, or a test in the relevant sub-package) containing one test that FAILS with your change applied and PASSES on the unchanged tree (verify both directions by running `go test -run <TestName> -count=1 .` with and without the patch; use `git stash` / `git apply -R` to switch). The demonstration may use package-internal access, testing/synctest, the simnet helpers used by the existing tests (see getDefaultHosts / connect in the *_test.go files), fake clocks, etc. It must be deterministic (pass reliably 5 times in a row on the unchanged tree and fail reliably with the change).
The two changes must be in different mechanisms / code sites (consult the property's "anchors.mechanism" list for where the property is enforced), and should differ in what they need in order to manifest.

DELIVERABLES, written under {wt}/OUT/1/ and {wt}/OUT/2/ (create the directories):
  - patch.diff  : `git diff` of the library change ONLY (no test files), applicable with `git apply` at the worktree's HEAD;
  - the demonstration test file (copy);
  - meta.json   : {{"property": "{pid}", "summary": "<one line: what the change does>", "needs": "<what specific schedule/input/sequence it needs to manifest>", "files": [...], "demo_test": "<TestName>", "demo_cmd": "<command to run the demo>", "suite_passed_with_change": true, "demo_fails_with_change": true, "demo_passes_without_change": true}}
Leave the worktree itself clean of the library change at the end (git stash drop / git checkout -- . ; the OUT directory and demo files may remain untracked). In your final message list the two changes briefly, with the exact commands you ran and their results. If you cannot achieve (b) for an idea, pick another idea rather than weakening the requirement.""")
